"""C09 translator: census of what every copy()/__copy__/__deepcopy__/copy_values passes for each data field, and of
the receivers in Keyvalues.__add__/__iadd__/extend  ->  Gen/CopyCensus_gen.v.

For each class the data fields come from `__slots__`, the attrs field declarations or the `self.X = ...` stores of
`__init__`; their kinds from the annotations; the "how" from the argument expression copy() passes for the
constructor parameter that feeds the field (composed with what the constructor does with that parameter) or from
the `new.X = ...` stores after construction.  Fail-closed: any expression shape or annotation that is not
recognised raises TranslateError.
"""
from __future__ import annotations

import ast
import re
from typing import Optional

from harness.common import TranslateError, ast_digest, src_text

# ---------------------------------------------------------------------------------------------- field kinds
IMM = {'int', 'str', 'float', 'bool', 'Optional[int]', 'Optional[str]', 'DispFlag', 'TriangleTag', 'DispPower', 'Vec4',
       'Optional[Pattern[str]]'}
CTX = {'VMF'}
MUT = {'Vec', 'UVAxis', 'Optional[Vec]', "Optional['Array[int]']", "Optional['EntityFixup']", 'EntityFixup'}
CONT_IMM = {'set[int]', 'list[int]', 'dict[str, str]', '_KeyDict'}
CONT_MUT = {"list['Side']", 'list[Vec]', 'Optional[list[Vec]]', 'Optional[list[DispVertex]]', "list['VisGroup']",
            "list['Output']", 'list[Solid]', 'dict[str, FixupValue]', '_KV_Value', "list['Keyvalues']"}
ID_CLASSES = {'Entity', 'Solid', 'Side', 'VisGroup', 'EntityGroup'}


def kind_of(cls: str, field: str, ann: Optional[str]) -> str:
    if ann is None:
        raise TranslateError(f'{cls}.{field}: no annotation to derive the field kind from')
    if field == 'id' and cls in ID_CLASSES and ann == 'int':
        return 'KId'
    if ann in IMM:
        return 'KImm'
    if ann in CTX:
        return 'KCtx'
    if ann in MUT:
        return 'KMut'
    if ann in CONT_IMM:
        return 'KCont false'
    if ann in CONT_MUT:
        return 'KCont true'
    raise TranslateError(f'{cls}.{field}: unknown annotation `{ann}`')


# ---------------------------------------------------------------------------------------------- class facts
def _find_class(tree: ast.Module, name: str) -> ast.ClassDef:
    for n in tree.body:
        if isinstance(n, ast.ClassDef) and n.name == name:
            return n
    raise TranslateError(f'class {name} not found')


def _method(cls: ast.ClassDef, name: str) -> ast.FunctionDef:
    found = [n for n in cls.body if isinstance(n, ast.FunctionDef) and n.name == name
             and not any(ast.unparse(d) == 'overload' for d in n.decorator_list)]
    if len(found) != 1:
        raise TranslateError(f'{cls.name}.{name}: expected exactly one definition, found {len(found)}')
    return found[0]


def _is_attrs(cls: ast.ClassDef) -> bool:
    for d in cls.decorator_list:
        s = ast.unparse(d)
        if s.startswith('attrs.define') or s.startswith('attrs.frozen'):
            return True
    return False


def _class_annotations(cls: ast.ClassDef) -> dict[str, str]:
    return {n.target.id: ast.unparse(n.annotation) for n in cls.body
            if isinstance(n, ast.AnnAssign) and isinstance(n.target, ast.Name)}


def _slots(cls: ast.ClassDef) -> Optional[list[str]]:
    for n in cls.body:
        if isinstance(n, ast.Assign) and len(n.targets) == 1 and ast.unparse(n.targets[0]) == '__slots__':
            if isinstance(n.value, (ast.List, ast.Tuple)) and all(isinstance(e, ast.Constant) for e in n.value.elts):
                return [e.value for e in n.value.elts]  # type: ignore[attr-defined]
            raise TranslateError(f'{cls.name}.__slots__ is not a literal list')
    return None


def _self_attr(node: ast.AST, obj: str = 'self') -> Optional[str]:
    if isinstance(node, ast.Attribute) and isinstance(node.value, ast.Name) and node.value.id == obj:
        return node.attr
    return None


def _properties(cls: ast.ClassDef) -> dict[str, ast.expr]:
    """Read-only view of the class's properties: name -> the expression the getter returns (getters whose body is a
    docstring plus one `return`).  Other getters map to themselves called opaquely (absent from the dict)."""
    out: dict[str, ast.expr] = {}
    for n in cls.body:
        if isinstance(n, ast.FunctionDef) and any(ast.unparse(d) == 'property' for d in n.decorator_list):
            body = [st for st in n.body if not (isinstance(st, ast.Expr) and isinstance(st.value, ast.Constant))]
            if len(body) == 1 and isinstance(body[0], ast.Return) and body[0].value is not None:
                out[n.name] = body[0].value
    return out


# ---------------------------------------------------------------------------------------------- attrs field definitions
# Round 5: the constructor of an attrs class is GENERATED from its field definitions, so the converter / validator /
# default / factory of every field and `__attrs_post_init__` are part of the constructor a copy() calls.  They are read
# from the source (a converter that is a module-level function is resolved to its RUN-TIME definition and its body is
# classified), never accepted by name.
_WRAP_ORDER = ['direct', 'container', 'deepconv']          # what a converter does with the value it is given
_DEFINE_KEYWORDS = {'auto_attribs', 'hash', 'eq', 'order', 'getstate_setstate', 'frozen', 'weakref_slot', 'slots', 'repr',
                    'kw_only', 'unsafe_hash', 'init', 'str', 'cache_hash', 'auto_exc', 'match_args', 'collect_by_mro'}
_FIELD_KEYWORDS_IGNORED = {'repr', 'eq', 'order', 'hash', 'metadata', 'type'}


def _runtime_defs(module: ast.Module, name: str) -> list[ast.AST]:
    """Every module-level definition of `name` that is executed at run time (`if TYPE_CHECKING:` bodies are not)."""
    out: list[ast.AST] = []

    def scan(body: list[ast.stmt]) -> None:
        for st in body:
            if isinstance(st, ast.FunctionDef) and st.name == name:
                out.append(st)
            elif isinstance(st, ast.ClassDef) and st.name == name:
                out.append(st)
            elif isinstance(st, ast.Assign) and any(isinstance(t, ast.Name) and t.id == name for t in st.targets):
                out.append(st.value)
            elif isinstance(st, ast.AnnAssign) and isinstance(st.target, ast.Name) and st.target.id == name and st.value is not None:
                out.append(st.value)
            elif isinstance(st, ast.If):
                t = ast.unparse(st.test)
                if t in ('TYPE_CHECKING', 'typing.TYPE_CHECKING'):
                    scan(st.orelse)
                elif t in ('not TYPE_CHECKING', 'not typing.TYPE_CHECKING'):
                    scan(st.body)
                else:
                    scan(st.body)
                    scan(st.orelse)
            elif isinstance(st, ast.Try):
                scan(st.body)
                for h in st.handlers:
                    scan(h.body)
                scan(st.orelse)
                scan(st.finalbody)
    scan(module.body)
    return out


def _fn_result(fn: ast.FunctionDef | ast.Lambda, where: str) -> tuple[str, ast.expr]:
    """(parameter name, the expression a one-parameter function returns); `if t: return A` + `return B` and
    `if t: return A else: return B` are read as `A if t else B`."""
    a = fn.args
    if len(a.args) != 1 or a.vararg or a.kwarg or a.kwonlyargs or a.posonlyargs or a.defaults:
        raise TranslateError(f'{where}: a converter must take exactly one positional parameter')
    x = a.args[0].arg
    if isinstance(fn, ast.Lambda):
        return x, fn.body
    if fn.decorator_list:
        raise TranslateError(f'{where}: decorated converter function')
    body = [st for st in fn.body if not (isinstance(st, ast.Expr) and isinstance(st.value, ast.Constant))]

    def result(stmts: list[ast.stmt]) -> ast.expr:
        if not stmts:
            raise TranslateError(f'{where}: a path of the converter returns nothing')
        st = stmts[0]
        if isinstance(st, ast.Return) and st.value is not None:
            return st.value
        if isinstance(st, ast.If):
            rest = stmts[1:]
            then = result(st.body + rest) if not _always_returns(st.body) else result(st.body)
            other = result((st.orelse or []) + rest) if not _always_returns(st.orelse or []) else result(st.orelse)
            return ast.copy_location(ast.IfExp(test=st.test, body=then, orelse=other), st)
        raise TranslateError(f'{where}: unrecognised statement `{ast.unparse(st)[:60]}` in a converter')
    return x, result(body)


def _always_returns(stmts: list[ast.stmt]) -> bool:
    if not stmts:
        return False
    last = stmts[-1]
    if isinstance(last, (ast.Return, ast.Raise)):
        return True
    return isinstance(last, ast.If) and _always_returns(last.body) and _always_returns(last.orelse or [])


def _converter_wraps(conv: ast.expr, module: Optional[ast.Module], where: str, _depth: int = 0) -> set[str]:
    """What a converter can do with the value it is given, over all its paths: {'direct'} = hands the very object on,
    {'container'} = builds a new container of the same elements, {'deepconv'} = builds a new value; several = it depends
    on the value (the census row is then the join of the paths)."""
    if _depth > 4:
        raise TranslateError(f'{where}: converter definition chain too deep')
    if isinstance(conv, ast.Name):
        defs = _runtime_defs(module, conv.id) if module is not None else []
        if not defs:
            if conv.id in ('set', 'list', 'dict'):
                return {'container'}           # the builtin: a new container holding the same elements
            raise TranslateError(f'{where}: unknown attrs converter {conv.id}')
        if len(defs) != 1:
            raise TranslateError(f'{where}: converter {conv.id} has {len(defs)} run-time definitions')
        d = defs[0]
        if isinstance(d, ast.FunctionDef):
            return _converter_wraps_fn(d, module, f'{where} ({conv.id})')
        if isinstance(d, ast.ClassDef):
            raise TranslateError(f'{where}: converter {conv.id} is a class')
        return _converter_wraps(d, module, where, _depth + 1)           # `name = <expr>`
    if isinstance(conv, ast.Lambda):
        return _converter_wraps_fn(conv, module, where)
    raise TranslateError(f'{where}: unknown attrs converter `{ast.unparse(conv)[:60]}`')


def _converter_wraps_fn(fn: ast.FunctionDef | ast.Lambda, module: Optional[ast.Module], where: str) -> set[str]:
    x, res = _fn_result(fn, where)

    def mentions(e: ast.AST) -> bool:
        return any(isinstance(n, ast.Name) and n.id == x for n in ast.walk(e))

    def shadowed(name: str) -> bool:
        return module is not None and bool(_runtime_defs(module, name))

    def go(e: ast.expr) -> set[str]:
        if isinstance(e, ast.Name) and e.id == x:
            return {'direct'}
        if not mentions(e):
            if isinstance(e, (ast.Constant, ast.Call, ast.List, ast.Set, ast.Dict, ast.Tuple)):
                return set()                   # a constant / an object built here: nothing of the argument is handed on
            raise TranslateError(f'{where}: unrecognised converter result `{ast.unparse(e)[:60]}`')
        if isinstance(e, ast.IfExp):
            return go(e.body) | go(e.orelse)
        if isinstance(e, ast.BoolOp) and all(not isinstance(v, ast.NamedExpr) for v in e.values):
            out: set[str] = set()
            for v in e.values:                 # `x or set()`, `x and set(x)`: any operand may be the result
                out |= go(v)
            return out
        if isinstance(e, ast.Call) and isinstance(e.func, ast.Name) and e.func.id in ('set', 'list', 'dict') \
                and not shadowed(e.func.id) and len(e.args) == 1 and not e.keywords and go(e.args[0]) <= {'direct', 'container'}:
            return {'container'}
        if isinstance(e, ast.Call) and isinstance(e.func, ast.Attribute) and e.func.attr == 'copy' and not e.args \
                and not e.keywords and isinstance(e.func.value, ast.Name) and e.func.value.id == x:
            return {'container'}               # set.copy() / list.copy() / dict.copy(): shallow
        if isinstance(e, (ast.ListComp, ast.SetComp)) and len(e.generators) == 1 and not e.generators[0].ifs \
                and isinstance(e.generators[0].iter, ast.Name) and e.generators[0].iter.id == x \
                and isinstance(e.generators[0].target, ast.Name) and isinstance(e.elt, ast.Name) \
                and e.elt.id == e.generators[0].target.id:
            return {'container'}
        if isinstance(e, ast.Starred):
            raise TranslateError(f'{where}: starred converter result')
        if isinstance(e, (ast.List, ast.Set)) and len(e.elts) == 1 and isinstance(e.elts[0], ast.Starred) \
                and isinstance(e.elts[0].value, ast.Name) and e.elts[0].value.id == x:
            return {'container'}               # [*x] / {*x}
        raise TranslateError(f'{where}: unrecognised converter result `{ast.unparse(e)[:60]}`')
    out = go(res)
    return out or {'container'}


def _validator_is_pure(v: ast.expr, module: Optional[ast.Module], where: str, _depth: int = 0) -> None:
    """A validator may only look and raise: `attrs.validators.*` combinators over classes and over module-level functions
    whose body is nothing but `if ...: raise ...`."""
    if _depth > 4:
        raise TranslateError(f'{where}: validator nesting too deep')
    if isinstance(v, ast.Call):
        f = ast.unparse(v.func)
        if not f.startswith('attrs.validators.') or v.keywords and any(k.arg is None for k in v.keywords):
            raise TranslateError(f'{where}: unknown attrs validator `{f}`')
        for a in list(v.args) + [k.value for k in v.keywords]:
            _validator_is_pure(a, module, where, _depth + 1)
        return
    if isinstance(v, (ast.List, ast.Tuple)):
        for a in v.elts:
            _validator_is_pure(a, module, where, _depth + 1)
        return
    if isinstance(v, ast.Attribute) and ast.unparse(v).startswith('attrs.validators.'):
        return
    if isinstance(v, ast.Constant):
        return
    if isinstance(v, ast.Name):
        defs = _runtime_defs(module, v.id) if module is not None else []
        if len(defs) == 1 and isinstance(defs[0], ast.ClassDef):
            return                              # instance_of(Vec)
        if len(defs) == 1 and isinstance(defs[0], ast.FunctionDef):
            def only_raises(stmts: list[ast.stmt]) -> bool:
                for st in stmts:
                    if isinstance(st, ast.Expr) and isinstance(st.value, ast.Constant) or isinstance(st, (ast.Raise, ast.Pass)):
                        continue
                    if isinstance(st, ast.If) and only_raises(st.body) and only_raises(st.orelse) \
                            and not any(isinstance(n, (ast.NamedExpr, ast.Await, ast.Yield)) for n in ast.walk(st.test)):
                        continue
                    return False
                return True
            if only_raises(defs[0].body):
                return
            raise TranslateError(f'{where}: validator {v.id} does more than look and raise')
        if not defs and v.id in ('int', 'str', 'float', 'bool', 'list', 'set', 'dict', 'tuple', 'Vec', 'Angle', 'Matrix'):
            return
        if not defs and module is not None and v.id[:1].isupper() and any(
                isinstance(st, ast.ImportFrom) and any((a.asname or a.name) == v.id for a in st.names) for st in ast.walk(module)):
            return                              # an imported class (instance_of((Vec, FrozenVec)))
        raise TranslateError(f'{where}: unknown validator name {v.id}')
    raise TranslateError(f'{where}: unknown attrs validator `{ast.unparse(v)[:60]}`')


def _is_constant(x: ast.expr) -> bool:
    return isinstance(x, ast.Constant) or (isinstance(x, ast.UnaryOp) and isinstance(x.operand, ast.Constant)) \
        or (isinstance(x, ast.Tuple) and all(_is_constant(y) for y in x.elts))


def _default_is_unshared(e: ast.expr, imm_kind: bool, converted: bool, where: str) -> None:
    """The default VALUE of an attrs field is one object shared by every instance that does not give the field: it must
    be immutable (a constant, a tuple of constants, an enum member / an instance of a frozen class for a field of an
    immutable kind), or be rebuilt by a copying converter."""
    def const(x: ast.expr) -> bool:
        return isinstance(x, ast.Constant) or (isinstance(x, ast.UnaryOp) and isinstance(x.operand, ast.Constant)) \
            or (isinstance(x, ast.Tuple) and all(const(y) for y in x.elts))
    if const(e):
        return
    if imm_kind and (isinstance(e, ast.Attribute) or (isinstance(e, ast.Call) and isinstance(e.func, ast.Name))):
        return
    if converted and isinstance(e, (ast.List, ast.Set, ast.Dict)) and not (e.elts if not isinstance(e, ast.Dict) else e.keys):
        return
    raise TranslateError(f'{where}: the default `{ast.unparse(e)[:60]}` is one mutable object shared by all instances')


def _factory_builds_new(e: ast.expr, where: str) -> None:
    if isinstance(e, ast.Name):
        return                                  # a class / builtin called for every instance
    if isinstance(e, ast.Lambda) and not e.args.args and isinstance(e.body, (ast.Call, ast.List, ast.Set, ast.Dict, ast.ListComp)):
        return
    raise TranslateError(f'{where}: unrecognised attrs factory `{ast.unparse(e)[:60]}`')


class ClassInfo:
    """fields (ordered), kinds, and for each constructor parameter: the field it feeds and the wrap applied."""

    def __init__(self, cls: ast.ClassDef, want_feeds: bool = True, module: Optional[ast.Module] = None) -> None:
        self.name = cls.name
        self.node = cls
        self.wrap_alt: dict[str, str] = {}       # attrs field -> the BETTER wrap its converter applies on some paths only
        self.noninit: dict[str, ast.expr] = {}   # attrs init=False fields with a constant default (bookkeeping, not data)
        ann = _class_annotations(cls)
        self.params: list[str] = []                       # constructor parameters in order (without self)
        self.kwonly: list[str] = []
        self.feeds: dict[str, tuple[str, str]] = {}       # param -> (field, wrap) wrap in direct|container|deepconv|newid
        self.ann: dict[str, Optional[str]] = {}
        # round 3: everything needed to SPECIALISE the constructor to one call (see `specialise`)
        self.defaults: dict[str, Optional[ast.expr]] = {}                     # param -> default expression (None: required)
        self.guarded_stores: dict[str, list[tuple[ast.expr, list[tuple[ast.expr, bool]]]]] = {}   # field -> [(value, [(test, polarity)])]
        self.locals: dict[str, ast.expr] = {}
        self.loop_fed: set[str] = set()                                       # parameters consumed by a recognised loop
        self.props: dict[str, ast.expr] = _properties(cls)                    # read-only view: property -> returned expression
        if _is_attrs(cls):
            self.fields = []
            for d in cls.decorator_list:
                if isinstance(d, ast.Call):
                    for kw in d.keywords:
                        if kw.arg not in _DEFINE_KEYWORDS:
                            raise TranslateError(f'{cls.name}: attrs.define({kw.arg}=...) not supported')
                        if kw.arg in ('kw_only', 'init') and not (isinstance(kw.value, ast.Constant) and kw.value.value is (kw.arg == 'init')):
                            raise TranslateError(f'{cls.name}: attrs.define({kw.arg}={ast.unparse(kw.value)}) not supported')
            for n in cls.body:
                if isinstance(n, ast.AnnAssign) and isinstance(n.target, ast.Name):
                    f = n.target.id
                    self.fields.append(f)
                    self.ann[f] = ast.unparse(n.annotation)
                    where = f'{cls.name}.{f}'
                    try:
                        imm_kind = kind_of(cls.name, f, self.ann[f]) in ('KImm', 'KId')
                    except TranslateError:
                        imm_kind = False
                    wrap = 'direct'
                    if n.value is not None and isinstance(n.value, ast.Call) and ast.unparse(n.value.func) in ('attrs.field', 'attrs.ib', 'attr.ib'):
                        if n.value.args:
                            raise TranslateError(f'{where}: positional arguments of attrs.field')
                        kws = {kw.arg: kw.value for kw in n.value.keywords}
                        if 'init' in kws and isinstance(kws['init'], ast.Constant) and kws['init'].value is False:
                            # not a constructor parameter: attrs stores the default, __attrs_post_init__ may store constants.
                            # With a constant default it is the same for every constructed object — bookkeeping, not data
                            # that a copy has to carry over; it is left out of the data fields (copy() cannot pass it).
                            extra = set(kws) - {'init', 'default'} - _FIELD_KEYWORDS_IGNORED
                            if extra or 'default' not in kws or not _is_constant(kws['default']) or not imm_kind:
                                raise TranslateError(f'{where}: an init=False field must be of an immutable kind with a constant default '
                                                     f'and nothing else ({sorted(extra)})')
                            self.noninit[f] = kws['default']
                            self.fields.pop()
                            del self.ann[f]
                            continue
                        for k, v in kws.items():
                            if k == 'converter':
                                wraps = _converter_wraps(v, module, where)
                                wrap = min(wraps, key=_WRAP_ORDER.index)         # the weakest path decides the row
                                if len(wraps) > 1:
                                    self.wrap_alt[f] = max(wraps, key=_WRAP_ORDER.index)
                            elif k == 'validator':
                                _validator_is_pure(v, module, where)
                            elif k == 'default':
                                if isinstance(v, ast.Call) and ast.unparse(v.func) == 'attrs.Factory' and len(v.args) == 1 and not v.keywords:
                                    _factory_builds_new(v.args[0], where)
                                else:
                                    _default_is_unshared(v, imm_kind, 'converter' in kws, where)
                            elif k == 'factory':
                                _factory_builds_new(v, where)
                            elif k in _FIELD_KEYWORDS_IGNORED:
                                pass
                            else:                      # init=, kw_only=, alias=, on_setattr= change the constructor itself
                                raise TranslateError(f'{where}: attrs.field({k}=...) not supported')
                    elif n.value is not None:
                        _default_is_unshared(n.value, imm_kind, False, where)
                    if f == 'id' and cls.name in ID_CLASSES:
                        wrap = 'newid'
                    self.params.append(f)
                    self.feeds[f] = (f, wrap)
            self._attrs_post_init(cls)
            return
        init = _method(cls, '__init__')
        a = init.args
        if a.vararg or a.kwarg or a.posonlyargs:
            raise TranslateError(f'{cls.name}.__init__: *args/**kwargs not supported')
        self.params = [x.arg for x in a.args[1:]]
        self.kwonly = [x.arg for x in a.kwonlyargs]
        pos = a.args[1:]
        for x, d in zip(pos, [None] * (len(pos) - len(a.defaults)) + list(a.defaults)):
            self.defaults[x.arg] = d
        for x, d in zip(a.kwonlyargs, a.kw_defaults):
            self.defaults[x.arg] = d
        pann = {x.arg: (ast.unparse(x.annotation) if x.annotation is not None else None) for x in a.args[1:] + a.kwonlyargs}
        allp = set(self.params) | set(self.kwonly)
        stores: dict[str, list[ast.expr]] = {}
        local: dict[str, ast.expr] = {}
        loops: list[ast.For] = []
        inner_ann: dict[str, str] = {}

        def scan(body: list[ast.stmt], tests: list[tuple[ast.expr, bool]] = []) -> None:
            for st in body:
                if isinstance(st, ast.Assign):
                    for t in st.targets:
                        targets = t.elts if isinstance(t, ast.Tuple) else [t]
                        for tt in targets:
                            f = _self_attr(tt)
                            if f is not None:
                                stores.setdefault(f, []).append(st.value)
                                self.guarded_stores.setdefault(f, []).append((st.value, list(tests)))
                            elif isinstance(tt, ast.Name):
                                local[tt.id] = st.value
                elif isinstance(st, ast.AnnAssign):
                    f = _self_attr(st.target)
                    if f is not None and st.value is not None:
                        stores.setdefault(f, []).append(st.value)
                        self.guarded_stores.setdefault(f, []).append((st.value, list(tests)))
                        inner_ann[f] = ast.unparse(st.annotation)
                    elif isinstance(st.target, ast.Name) and st.value is not None:
                        local[st.target.id] = st.value
                elif isinstance(st, ast.If):
                    scan(st.body, tests + [(st.test, True)])
                    scan(st.orelse, tests + [(st.test, False)])
                elif isinstance(st, ast.For):
                    loops.append(st)
                elif isinstance(st, (ast.Expr, ast.Raise, ast.Pass)):
                    pass
                else:
                    raise TranslateError(f'{cls.name}.__init__: unsupported statement {type(st).__name__} (line {st.lineno})')
        scan(init.body)
        self.locals = local
        slots = _slots(cls)
        self.fields = slots if slots is not None else list(stores)
        for f in self.fields:
            if f not in stores:
                raise TranslateError(f'{cls.name}: field {f} is never stored by __init__')
        for f, vals in stores.items():
            if f not in self.fields:
                raise TranslateError(f'{cls.name}.__init__ stores self.{f}, which is not a declared field')
            for v in vals:
                fed = self._feed(v, allp, local) if want_feeds else None
                if fed is not None:
                    p, wrap = fed
                    if p in self.feeds and self.feeds[p] != (f, wrap):
                        raise TranslateError(f'{cls.name}.__init__: parameter {p} feeds two fields')
                    self.feeds[p] = (f, wrap)
        # `for k, v in keys.items(): self[k] = v`  /  `for fix in fixup: ... self._fixup[...] = fix`
        for lp in loops:
            it = ast.unparse(lp.iter)
            if cls.name == 'Entity' and it == 'keys.items()' and ast.unparse(lp.body[0]) == 'self[k] = v' and len(lp.body) == 1:
                self.feeds['keys'] = ('_keys', 'container')
                self.loop_fed.add('keys')
            elif cls.name == 'EntityFixup' and it in ('fixup', 'extra_vals'):
                self.feeds.setdefault('fixup', ('_fixup', 'container'))
                self.loop_fed.add('fixup')
            else:
                raise TranslateError(f'{cls.name}.__init__: unrecognised loop over `{it}` (line {lp.lineno})')
        for f in self.fields:
            a0 = ann.get(f) or inner_ann.get(f)
            if a0 is None and len(stores[f]) == 1 and isinstance(stores[f][0], ast.Call) \
                    and ast.unparse(stores[f][0].func) in IMM | MUT | CONT_IMM | CONT_MUT:
                a0 = ast.unparse(stores[f][0].func)          # e.g. self._keys = _KeyDict()
            if a0 is None:
                for p, (ff, _w) in self.feeds.items():       # the feeding parameter's annotation
                    if ff == f and pann.get(p):
                        a0 = pann[p]
            self.ann[f] = a0

    def _attrs_post_init(self, cls: ast.ClassDef) -> None:
        """`__attrs_post_init__` runs at the end of the generated constructor: every statement must be a store
        `self.F = <something built from self.F>` that is recognised (ID allocation, a copying re-wrap of the same field)."""
        for n in cls.body:
            if isinstance(n, ast.FunctionDef) and n.name in ('__attrs_pre_init__', '__init__', '__new__', '__setattr__'):
                raise TranslateError(f'{cls.name}.{n.name}: not supported on an attrs class')
        posts = [n for n in cls.body if isinstance(n, ast.FunctionDef) and n.name == '__attrs_post_init__']
        if len(posts) > 1:
            raise TranslateError(f'{cls.name}: several __attrs_post_init__')
        for st in (posts[0].body if posts else []):
            if isinstance(st, ast.Expr) and isinstance(st.value, ast.Constant) or isinstance(st, ast.Pass):
                continue
            f = _self_attr(st.targets[0]) if isinstance(st, ast.Assign) and len(st.targets) == 1 else None
            v = st.value if isinstance(st, ast.Assign) else None
            if f is not None and f in self.noninit and v is not None and _is_constant(v):
                continue                      # a constant into a bookkeeping field: the same for every constructed object
            if f is None or f not in self.feeds or not isinstance(v, ast.Call) or len(v.args) != 1 or v.keywords \
                    or _self_attr(v.args[0]) != f:
                raise TranslateError(f'{cls.name}.__attrs_post_init__: unrecognised statement `{ast.unparse(st)[:60]}`')
            fn = ast.unparse(v.func)
            if fn.endswith('.get_id') and _self_attr(v.func.value.value if isinstance(v.func, ast.Attribute)      # type: ignore[attr-defined]
                                                      and isinstance(v.func.value, ast.Attribute) else v) in ('map', 'vmf'):
                self.feeds[f] = (f, 'newid')
            elif fn in ('list', 'set', 'dict'):
                if self.feeds[f][1] == 'direct':
                    self.feeds[f] = (f, 'container')
                self.wrap_alt.pop(f, None)
            else:
                raise TranslateError(f'{cls.name}.__attrs_post_init__: unrecognised statement `{ast.unparse(st)[:60]}`')

    def _feed(self, v: ast.expr, params: set[str], local: dict[str, ast.expr],
              spec: Optional['Spec'] = None) -> Optional[tuple[str, str]]:
        """Which parameter feeds this right-hand side, and through which wrap.  With a `spec` (one concrete call:
        which parameters are bound to what) conditionals are decided by partial evaluation where possible; where not,
        the parameters of the test are recorded as GUARDS of the store (`spec.guards`), and `p or default` records
        that the value survives only when truthy (`spec.ordefault`)."""
        if isinstance(v, ast.Name):
            if v.id in params:
                return v.id, 'direct'
            if v.id in local:
                return self._feed(local[v.id], params, local, spec)
            return None
        if isinstance(v, ast.BoolOp) and isinstance(v.op, ast.Or):
            if spec is not None:
                first = spec.peval(v.values[0], params, local)
                if first is not UNKNOWN and not first and len(v.values) == 2:
                    return self._feed(v.values[1], params, local, spec)      # `p or d` with p known falsy: d
                if first is UNKNOWN:
                    spec.ordefault = True
            return self._feed(v.values[0], params, local, spec)
        if isinstance(v, ast.IfExp):
            if spec is not None:
                t0 = spec.peval(v.test, params, local)
                if t0 is not UNKNOWN:
                    return self._feed(v.body if t0 else v.orelse, params, local, spec)
                if _truthiness_test(v.test):
                    spec.truthy_tests |= _names_in(v.test, params, local)    # `X(p) if p else None`: survives when truthy
                else:
                    spec.guards |= _names_in(v.test, params, local)
            b = self._feed(v.body, params, local, spec)
            o = self._feed(v.orelse, params, local, spec)
            t = ast.unparse(v.test)
            if b and o and b != o:
                raise TranslateError(f'{self.name}.__init__: conditional store mixes parameters ({ast.unparse(v)})')
            if isinstance(v.orelse, ast.Constant) or isinstance(v.body, ast.Constant):
                # `1 if only_once else times`, `X(fixup_list) if fixup_list else None`
                cand = b or o
                if cand is None:
                    return None
                return cand
            raise TranslateError(f'{self.name}.__init__: unrecognised conditional store `{ast.unparse(v)}` ({t})')
        if isinstance(v, ast.Call):
            fn = ast.unparse(v.func)
            if fn in ('list', 'set', 'EntityFixup', '_KeyDict', 'dict') and len(v.args) == 1 and not v.keywords:
                inner = self._feed(v.args[0], params, local, spec)
                return (inner[0], 'container') if inner else None
            if fn == 'Vec' and len(v.args) == 1:
                inner = self._feed(v.args[0], params, local, spec)
                return (inner[0], 'deepconv') if inner else None
            if fn == 'conv_kv' and len(v.args) == 1:
                inner = self._feed(v.args[0], params, local, spec)
                return (inner[0], 'direct') if inner else None
            if fn.endswith('.get_id') and len(v.args) == 1:
                inner = self._feed(v.args[0], params, local, spec)
                return (inner[0], 'newid') if inner else None
            if fn in ('_KeyDict', 'Vec', 'Array', 'UVAxis', 'set', 'list', 'dict') or not v.args:
                return None
            return self._derived(v, params, local, spec)
        if isinstance(v, (ast.Constant, ast.ListComp, ast.Attribute, ast.Dict, ast.JoinedStr, ast.Subscript)):
            if isinstance(v, ast.Subscript) and ast.unparse(v) == "targ['targetname']":
                return 'targ', 'direct'
            if isinstance(v, (ast.ListComp, ast.Dict, ast.JoinedStr, ast.Subscript)) and _names_in(v, params, local):
                return self._derived(v, params, local, spec)
            return None
        return self._derived(v, params, local, spec)

    def _derived(self, v: ast.expr, params: set[str], local: dict[str, ast.expr], spec: Optional['Spec']) -> None:
        """A store expression of no recognised value-preserving shape (arithmetic, comparison, `a and b`, an unknown
        call, a formatted string ...): the field is COMPUTED from the parameters it mentions — none of them reaches it
        as a value, all of them steer it.  For a specialised call they become guards of the field (the census row is
        then `HMissing` with lossy flows, so `copy_covers_fields` / `copy_args_lossless` name the field)."""
        if spec is not None:
            spec.guards |= _names_in(v, params, local)
        return None

    def specialise(self, bound: dict[str, ast.expr], argann: dict[str, Optional[str]]) -> 'Specialised':
        """The constructor SPECIALISED to one call: `bound` = the argument expression of every parameter the call
        gives (in the caller's scope), `argann` = the static annotation of an argument that is a plain field read.
        Parameters that are not given take their default.  For every field: which parameter's value reaches it (through
        which wrap) in the branch this call selects, which parameters only STEER it (guards the call does not decide),
        and whether the value survives only when truthy (`p or default`)."""
        out = Specialised()
        allp = set(self.params) | set(self.kwonly)
        if not self.guarded_stores:          # attrs class: parameter = field, converters in self.feeds
            for p, (f, wrap) in self.feeds.items():
                out.field[f] = (p, wrap, set(), False)
            return out
        consts: dict[str, object] = {}
        for p in allp:
            e = bound.get(p, self.defaults.get(p))
            if isinstance(e, ast.Constant):
                consts[p] = e.value
        for f, stores in self.guarded_stores.items():
            chosen: list[tuple[Optional[tuple[str, str]], set[str], bool]] = []
            stmt_guards: set[str] = set()
            for v, tests in stores:
                spec = Spec(consts, {p: argann.get(p) for p in bound}, set(bound))
                live = True
                for t, pol in tests:
                    t0 = spec.peval(t, allp, self.locals)
                    if t0 is UNKNOWN:
                        if _truthiness_test(t):
                            spec.truthy_tests |= _names_in(t, allp, self.locals)
                        else:
                            stmt_guards |= _names_in(t, allp, self.locals)
                    elif bool(t0) != pol:
                        live = False
                        break
                if not live:
                    continue
                fed = self._feed(v, allp, self.locals, spec)
                chosen.append((fed, set(spec.guards), set(spec.truthy_tests), spec.ordefault))
            feds = {c[0] for c in chosen if c[0] is not None}
            if len(feds) > 1:
                raise TranslateError(f'{self.name}.__init__: field {f} is fed by different parameters in branches this call '
                                     f'does not decide: {sorted(feds)}')
            fed = next(iter(feds)) if feds else None
            # a truthiness test on the value parameter itself = "survives when truthy"; on another parameter = a guard
            own = {fed[0]} if fed is not None else set()
            truthy = set().union(*[c[2] for c in chosen]) if chosen else set()
            guards = set().union(stmt_guards, *[c[1] for c in chosen]) | (truthy - own)
            if fed is not None:
                out.field[f] = (fed[0], fed[1], guards, any(c[3] for c in chosen) or bool(truthy & own))
            elif guards:
                out.field[f] = (None, 'direct', guards, False)
        for p in self.loop_fed:
            f, wrap = self.feeds[p]
            out.field.setdefault(f, (p, wrap, set(), False))
        return out


class _Unknown:
    def __repr__(self) -> str:
        return 'UNKNOWN'


UNKNOWN = _Unknown()
_SCALAR_ANN = {'str', 'int', 'float', 'bool'}


def _truthiness_operand(t: ast.expr) -> Optional[ast.expr]:
    """`x`, `not x`, `x is None`, `x is not None` (x a name or attribute): tests of the value's presence, not of its
    magnitude.  Returns x."""
    if isinstance(t, ast.UnaryOp) and isinstance(t.op, ast.Not):
        return _truthiness_operand(t.operand)
    if isinstance(t, (ast.Name, ast.Attribute)):
        return t
    if isinstance(t, ast.Compare) and len(t.ops) == 1 and isinstance(t.ops[0], (ast.Is, ast.IsNot)) \
            and isinstance(t.left, (ast.Name, ast.Attribute)) and isinstance(t.comparators[0], ast.Constant) \
            and t.comparators[0].value is None:
        return t.left
    return None


def _truthiness_test(t: ast.expr) -> bool:
    return _truthiness_operand(t) is not None


def _is_none_test(t: ast.expr) -> bool:
    """`x is None` / `x is not None` (possibly under `not`): decides on absence only, never on emptiness."""
    if isinstance(t, ast.UnaryOp) and isinstance(t.op, ast.Not):
        return _is_none_test(t.operand)
    return isinstance(t, ast.Compare) and len(t.ops) == 1 and isinstance(t.ops[0], (ast.Is, ast.IsNot)) \
        and isinstance(t.comparators[0], ast.Constant) and t.comparators[0].value is None


def _optional_container_ann(ann: Optional[str]) -> bool:
    """Optional[list[...]] / Optional['Array[int]'] ...: a field for which None (absent) and an EMPTY container are two
    different values."""
    a = (ann or '').replace("'", '').replace('"', '').replace(' ', '')
    return a.startswith('Optional[') and a[9:].split('[')[0] in ('list', 'List', 'set', 'Set', 'dict', 'Dict', 'Array')


def _names_in(e: ast.AST, params: set[str], local: dict[str, ast.expr], _depth: int = 0) -> set[str]:
    """Constructor parameters an expression depends on (constructor locals resolved)."""
    out: set[str] = set()
    if _depth > 8:
        raise TranslateError('constructor local-name resolution too deep')
    for n in ast.walk(e):
        if isinstance(n, ast.Name):
            if n.id in params:
                out.add(n.id)
            elif n.id in local:
                out |= _names_in(local[n.id], params, local, _depth + 1)
    return out


class Specialised:
    def __init__(self) -> None:
        # field -> (value parameter or None, wrap, guard parameters, survives only when truthy)
        self.field: dict[str, tuple[Optional[str], str, set[str], bool]] = {}


class Spec:
    """Partial evaluation of constructor tests for one call."""

    def __init__(self, consts: dict[str, object], argann: dict[str, Optional[str]], bound: set[str]) -> None:
        self.consts, self.argann, self.bound = consts, argann, bound
        self.guards: set[str] = set()
        self.truthy_tests: set[str] = set()
        self.ordefault = False

    def peval(self, e: ast.expr, params: set[str], local: dict[str, ast.expr], _depth: int = 0) -> object:
        if _depth > 8:
            return UNKNOWN
        if isinstance(e, ast.Constant):
            return e.value
        if isinstance(e, ast.Name):
            if e.id in self.consts:
                return self.consts[e.id]
            if e.id in local and e.id not in params:
                return self.peval(local[e.id], params, local, _depth + 1)
            return UNKNOWN
        if isinstance(e, ast.UnaryOp) and isinstance(e.op, ast.Not):
            x = self.peval(e.operand, params, local, _depth + 1)
            return UNKNOWN if x is UNKNOWN else (not x)
        if isinstance(e, ast.BoolOp):
            vals = [self.peval(x, params, local, _depth + 1) for x in e.values]      # truthiness only
            known = [bool(x) for x in vals if x is not UNKNOWN]
            if isinstance(e.op, ast.And):
                if not all(known):
                    return False
            elif any(known):
                return True
            return UNKNOWN if len(known) < len(vals) else isinstance(e.op, ast.And)
        if isinstance(e, ast.Compare) and len(e.ops) == 1:
            a, b = self.peval(e.left, params, local, _depth + 1), self.peval(e.comparators[0], params, local, _depth + 1)
            if a is UNKNOWN or b is UNKNOWN:
                return UNKNOWN
            op = e.ops[0]
            if isinstance(op, (ast.Is, ast.IsNot)) and (a is None or b is None or isinstance(a, bool) or isinstance(b, bool)):
                return (a is b) == isinstance(op, ast.Is)
            if isinstance(op, (ast.Eq, ast.NotEq)):
                return (a == b) == isinstance(op, ast.Eq)
            return UNKNOWN
        if isinstance(e, ast.Call) and isinstance(e.func, ast.Name) and e.func.id == 'isinstance' and len(e.args) == 2 \
                and isinstance(e.args[0], ast.Name) and isinstance(e.args[1], ast.Name):
            p, t = e.args[0].id, e.args[1].id
            if p in self.consts:
                c = self.consts[p]
                if t in _SCALAR_ANN:
                    return type(c).__name__ == t or (t == 'int' and isinstance(c, bool))
                return False if isinstance(c, (str, int, float, bool, type(None))) else UNKNOWN
            ann = self.argann.get(p)
            if ann is not None:
                a = ann.replace("'", '')
                if a == t:
                    return True
                if a in _SCALAR_ANN and t not in _SCALAR_ANN | {'object'}:
                    return False            # the argument is a field declared str/int/float/bool: never an instance of a library class
            return UNKNOWN
        return UNKNOWN


# ---------------------------------------------------------------------------------------------- normalisation
def _assigned_names(fn: ast.FunctionDef) -> dict[str, int]:
    """How often each local name is bound anywhere in the function (assignment, loop / comprehension / with / except
    target, augmented assignment, walrus)."""
    cnt: dict[str, int] = {}

    def bump(t: ast.AST) -> None:
        for n in ast.walk(t):
            if isinstance(n, ast.Name):
                cnt[n.id] = cnt.get(n.id, 0) + 1
    for n in ast.walk(fn):
        if isinstance(n, ast.Assign):
            for t in n.targets:
                if isinstance(t, (ast.Name, ast.Tuple, ast.List)):
                    bump(t)
        elif isinstance(n, (ast.AnnAssign, ast.AugAssign, ast.NamedExpr)) and isinstance(n.target, ast.Name):
            bump(n.target)
        elif isinstance(n, (ast.For, ast.comprehension)):
            bump(n.target)
        elif isinstance(n, ast.withitem) and n.optional_vars is not None:
            bump(n.optional_vars)
        elif isinstance(n, ast.ExceptHandler) and n.name:
            cnt[n.name] = cnt.get(n.name, 0) + 1
    return cnt


def _pure_self_chain(e: ast.expr) -> bool:
    """`self.a` / `self.a.b`: a read with no side effect and no fresh object."""
    while isinstance(e, ast.Attribute):
        e = e.value
    return isinstance(e, ast.Name) and e.id == 'self'


class _Subst(ast.NodeTransformer):
    def __init__(self, mapping: dict[str, ast.expr]) -> None:
        self.mapping = mapping

    def visit_Name(self, node: ast.Name) -> ast.AST:
        if isinstance(node.ctx, ast.Load) and node.id in self.mapping:
            import copy as _c
            return ast.copy_location(_c.deepcopy(self.mapping[node.id]), node)
        return node


def _simple_helper(fd: ast.AST) -> Optional[tuple[list[str], ast.expr]]:
    """A function / method whose body is (docstring, asserts,) one `return <expr>`, with plain positional parameters
    and no decorator other than `staticmethod`: (parameter names, returned expression).  Calling it IS evaluating that
    expression with the arguments substituted."""
    if not isinstance(fd, ast.FunctionDef):
        return None
    if any(ast.unparse(d) != 'staticmethod' for d in fd.decorator_list):
        return None
    a = fd.args
    if a.vararg or a.kwarg or a.posonlyargs or a.kwonlyargs or a.defaults:
        return None
    body = [st for st in fd.body if not (isinstance(st, ast.Expr) and isinstance(st.value, ast.Constant))
            and not isinstance(st, ast.Assert)]
    if len(body) != 1 or not isinstance(body[0], ast.Return) or body[0].value is None:
        return None
    if any(isinstance(n, (ast.Yield, ast.YieldFrom, ast.Await, ast.NamedExpr, ast.Lambda)) for n in ast.walk(body[0].value)):
        return None
    return [x.arg for x in a.args], body[0].value


def _pure_chain(e: ast.expr) -> bool:
    """A name, constant or attribute chain on a name: may be evaluated any number of times."""
    while isinstance(e, ast.Attribute):
        e = e.value
    return isinstance(e, (ast.Name, ast.Constant))


def _bound_in_expr(e: ast.AST) -> set[str]:
    return {n.id for g in ast.walk(e) if isinstance(g, ast.comprehension) for n in ast.walk(g.target) if isinstance(n, ast.Name)}


def inline_call(call: ast.Call, params: list[str], body: ast.expr, recv: Optional[ast.expr] = None) -> Optional[ast.expr]:
    """`helper(args)` -> the helper's returned expression with the arguments substituted (None when the substitution
    would not be exact: missing / extra arguments, an argument with possible effects used more than once, a
    comprehension variable of the helper captured by an argument).  `recv` = the receiver for a method (`self`)."""
    import copy as _c
    if any(isinstance(a, ast.Starred) for a in call.args) or any(k.arg is None for k in call.keywords):
        return None
    names = list(params)
    bound: dict[str, ast.expr] = {}
    if recv is not None:
        if not names:
            return None
        bound[names.pop(0)] = recv
    if len(call.args) > len(names):
        return None
    for p, a in zip(names, call.args):
        bound[p] = a
    for k in call.keywords:
        if k.arg not in names or k.arg in bound:
            return None
        bound[k.arg] = k.value  # type: ignore[index]
    if set(bound) != set(params):
        return None
    uses = {p: sum(1 for n in ast.walk(body) if isinstance(n, ast.Name) and n.id == p) for p in params}
    captured = _bound_in_expr(body)
    for p, a in bound.items():
        if uses[p] > 1 and not _pure_chain(a):
            return None
        if captured & {n.id for n in ast.walk(a) if isinstance(n, ast.Name)}:
            return None
    if captured & set(params):
        return None
    return _Subst(bound).visit(_c.deepcopy(body))


class _InlineHelpers(ast.NodeTransformer):
    """(d) `helper(args)` for a module-level single-return helper and (e) `self.helper(args)` for a single-return
    method of the same class are replaced by the returned expression (exact: see `inline_call`)."""

    def __init__(self, module: Optional[ast.Module], cls: Optional[ast.ClassDef], fn: ast.FunctionDef) -> None:
        self.funcs: dict[str, tuple[list[str], ast.expr]] = {}
        self.meths: dict[str, tuple[list[str], ast.expr, bool]] = {}
        shadow = set(_assigned_names(fn)) | {a.arg for a in fn.args.args + fn.args.kwonlyargs}
        for n in (module.body if module is not None else []):
            h = _simple_helper(n)
            if h is not None and n.name not in shadow:  # type: ignore[attr-defined]
                self.funcs[n.name] = h  # type: ignore[attr-defined]
        for n in (cls.body if cls is not None else []):
            h = _simple_helper(n)
            if h is not None and n.name != fn.name and sum(1 for m in cls.body  # type: ignore[union-attr]
                                                           if isinstance(m, ast.FunctionDef) and m.name == n.name) == 1:  # type: ignore[attr-defined]
                static = any(ast.unparse(d) == 'staticmethod' for d in n.decorator_list)  # type: ignore[attr-defined]
                self.meths[n.name] = (h[0], h[1], static)  # type: ignore[attr-defined]
        self.changed = False

    def visit_Call(self, node: ast.Call) -> ast.AST:
        self.generic_visit(node)
        new: Optional[ast.expr] = None
        if isinstance(node.func, ast.Name) and node.func.id in self.funcs:
            ps, body = self.funcs[node.func.id]
            new = inline_call(node, ps, body)
        elif isinstance(node.func, ast.Attribute) and isinstance(node.func.value, ast.Name) and node.func.value.id == 'self' \
                and node.func.attr in self.meths:
            ps, body, static = self.meths[node.func.attr]
            new = inline_call(node, ps, body, None if static else node.func.value)
        if new is None:
            return node
        self.changed = True
        return ast.copy_location(new, node)


def _pure_test(t: ast.expr) -> bool:
    """A test that may be evaluated more than once: names, attributes, constants, comparisons, not/and/or, isinstance."""
    for n in ast.walk(t):
        if isinstance(n, ast.Call):
            if not (isinstance(n.func, ast.Name) and n.func.id == 'isinstance'):
                return False
        elif not isinstance(n, (ast.Name, ast.Attribute, ast.Constant, ast.Compare, ast.BoolOp, ast.UnaryOp, ast.Load,
                                ast.cmpop, ast.boolop, ast.unaryop, ast.Tuple)):
            return False
    return True


def _ends_flow(body: list[ast.stmt]) -> bool:
    return bool(body) and isinstance(body[-1], (ast.Return, ast.Raise))


def normalise_fn(fn: ast.FunctionDef, module: Optional[ast.Module] = None, cls: Optional[ast.ClassDef] = None) -> ast.FunctionDef:
    """Behaviour-preserving rewrites applied BEFORE a method is classified, so that equivalent spellings give the same
    census (nothing here depends on the names or the text of the method):
      (a) a local bound exactly once, at the top level of the body, to a pure read `self.a[.b]` in a method that never
          stores into an attribute of `self`, is an ALIAS: its uses are replaced by the read;
      (b) `x = []` followed by `for t in it: x.append(e)` (optionally under one `if c:`) is the comprehension
          `x = [e for t in it if c]`;
      (c) `obj.f = A if c else B` is `if c: obj.f = A` / `else: obj.f = B`;
      (d) a call of a module-level helper whose body is one `return <expr>` is that expression (arguments substituted);
      (e) likewise `self.helper(...)` for a single-return method of the same class (`return self.__copy__()` ...);
      (g) `if c: n1 = A1; n2 = A2 else: n1 = B1; n2 = B2` (plain local names only, c pure and independent of them) is
          `n1 = A1 if c else B1; n2 = A2 if c else B2`;
      (h) a guard clause `if c: ...; return/raise` followed by more statements is `if c: ... else: <the rest>`;
          `if not c: A else: B` is `if c: B else: A`."""
    import copy as _c
    fn = _c.deepcopy(fn)
    if module is not None or cls is not None:
        for _ in range(3):
            inl = _InlineHelpers(module, cls, fn)
            fn.body = [inl.visit(st) for st in fn.body]
            if not inl.changed:
                break
        ast.fix_missing_locations(fn)
    params = {a.arg for a in fn.args.args + fn.args.kwonlyargs}
    stores_self = any(isinstance(n, (ast.Assign, ast.AugAssign, ast.AnnAssign)) and any(
        isinstance(t, ast.Attribute) and _pure_self_chain(t) for t in (n.targets if isinstance(n, ast.Assign) else [n.target]))
        for n in ast.walk(fn))
    # (a)
    # (i) `if c: n = A` (no else; n a plain local that is not a parameter) is `n = A if c else n` (c is evaluated once in
    #     both forms, before the binding)
    def cond_bind(stmts: list[ast.stmt]) -> list[ast.stmt]:
        res: list[ast.stmt] = []
        for st in stmts:
            if isinstance(st, ast.If) and not st.orelse and len(st.body) == 1 and isinstance(st.body[0], ast.Assign) \
                    and len(st.body[0].targets) == 1 and isinstance(st.body[0].targets[0], ast.Name) \
                    and st.body[0].targets[0].id not in params:
                nm = st.body[0].targets[0].id
                val = ast.IfExp(test=st.test, body=st.body[0].value, orelse=ast.Name(id=nm, ctx=ast.Load()))
                res.append(ast.fix_missing_locations(ast.copy_location(
                    ast.Assign(targets=[ast.Name(id=nm, ctx=ast.Store())], value=val), st)))
                continue
            if isinstance(st, (ast.If, ast.For, ast.While, ast.With)):
                st.body = cond_bind(st.body)
                if getattr(st, 'orelse', None):
                    st.orelse = cond_bind(st.orelse)
            res.append(st)
        return res
    fn.body = cond_bind(fn.body)
    # (a)
    if not stores_self:
        cnt = _assigned_names(fn)
        # names bound more than once are handled SEQUENTIALLY when every binding is a simple assignment at the top level
        # of the body (no binding inside a branch or loop, no closure that could see a later binding)
        top_cnt: dict[str, int] = {}
        for st in fn.body:
            if isinstance(st, ast.Assign) and len(st.targets) == 1 and isinstance(st.targets[0], ast.Name):
                top_cnt[st.targets[0].id] = top_cnt.get(st.targets[0].id, 0) + 1
        has_closure = any(isinstance(n, (ast.Lambda, ast.FunctionDef, ast.AsyncFunctionDef)) for st in fn.body for n in ast.walk(st))
        seq = {n for n, k in top_cnt.items() if k > 1 and cnt.get(n) == k and n not in params and not has_closure}

        def inline(stmts: list[ast.stmt], alias: dict[str, ast.expr], top: bool = False) -> list[ast.stmt]:
            alias = dict(alias)
            body: list[ast.stmt] = []
            for st in stmts:
                if top and isinstance(st, ast.Assign) and len(st.targets) == 1 and isinstance(st.targets[0], ast.Name) \
                        and st.targets[0].id in seq:
                    val = _Subst(alias).visit(st.value)
                    if _pure_self_chain(val) and isinstance(val, ast.Attribute):
                        alias[st.targets[0].id] = val             # currently an alias of a pure read
                    else:
                        alias.pop(st.targets[0].id, None)         # from here on a computed local
                        st.value = val
                        body.append(st)
                    continue
                if isinstance(st, ast.Assign) and len(st.targets) == 1 and isinstance(st.targets[0], ast.Name) \
                        and st.targets[0].id not in params and cnt.get(st.targets[0].id) == 1 and _pure_self_chain(st.value) \
                        and isinstance(st.value, ast.Attribute):
                    alias[st.targets[0].id] = _Subst(alias).visit(st.value)
                    continue
                if isinstance(st, (ast.If, ast.For, ast.While, ast.With)):
                    for fld in ('test', 'iter'):
                        if hasattr(st, fld):
                            setattr(st, fld, _Subst(alias).visit(getattr(st, fld)))
                    if isinstance(st, ast.With):
                        for it in st.items:
                            it.context_expr = _Subst(alias).visit(it.context_expr)
                    st.body = inline(st.body, alias)
                    if getattr(st, 'orelse', None):
                        st.orelse = inline(st.orelse, alias)
                    body.append(st)
                else:
                    body.append(_Subst(alias).visit(st) if alias else st)
            return body
        fn.body = inline(fn.body, {}, True)

    # (b), (c), (g), (h), recursively through blocks
    def simple_assigns(body: list[ast.stmt]) -> Optional[dict[str, ast.expr]]:
        res: dict[str, ast.expr] = {}
        for x in body:
            if not (isinstance(x, ast.Assign) and len(x.targets) == 1 and isinstance(x.targets[0], ast.Name)) \
                    or x.targets[0].id in res:  # type: ignore[union-attr]
                return None
            res[x.targets[0].id] = x.value  # type: ignore[union-attr]
        return res or None

    def block(stmts: list[ast.stmt]) -> list[ast.stmt]:
        out: list[ast.stmt] = []
        i = 0
        stmts = list(stmts)
        while i < len(stmts):
            st = stmts[i]
            nxt = stmts[i + 1] if i + 1 < len(stmts) else None
            # (h) guard clause -> if/else; `if not c` -> flipped
            if isinstance(st, ast.If) and not st.orelse and _ends_flow(st.body) and i + 1 < len(stmts):
                st.orelse = stmts[i + 1:]
                stmts = stmts[:i + 1]
            if isinstance(st, ast.If) and st.orelse and isinstance(st.test, ast.UnaryOp) and isinstance(st.test.op, ast.Not):
                st.test, st.body, st.orelse = st.test.operand, st.orelse, st.body
            # (g) if/else binding the same plain locals -> conditional expressions
            if isinstance(st, ast.If) and st.orelse and _pure_test(st.test):
                ba, bb = simple_assigns(st.body), simple_assigns(st.orelse)
                tn = {n.id for n in ast.walk(st.test) if isinstance(n, ast.Name)}
                if ba is not None and bb is not None and set(ba) == set(bb) and not (tn & set(ba)) and not (set(ba) & params):
                    for nm in ba:
                        val = ast.IfExp(test=_c.deepcopy(st.test), body=ba[nm], orelse=bb[nm])
                        out.append(ast.fix_missing_locations(ast.copy_location(
                            ast.Assign(targets=[ast.Name(id=nm, ctx=ast.Store())], value=val), st)))
                    i += 1
                    continue
            if isinstance(st, ast.Assign) and len(st.targets) == 1 and isinstance(st.targets[0], ast.Name) \
                    and isinstance(st.value, ast.List) and not st.value.elts and isinstance(nxt, ast.For) and not nxt.orelse \
                    and len(nxt.body) == 1:
                x = st.targets[0].id
                inner, conds = nxt.body[0], []
                if isinstance(inner, ast.If) and not inner.orelse and len(inner.body) == 1:
                    conds, inner = [inner.test], inner.body[0]
                if isinstance(inner, ast.Expr) and isinstance(inner.value, ast.Call) and ast.unparse(inner.value.func) == f'{x}.append' \
                        and len(inner.value.args) == 1 and not inner.value.keywords \
                        and not any(isinstance(n, ast.Name) and n.id == x for n in ast.walk(inner.value.args[0])) \
                        and not any(isinstance(n, ast.Name) and n.id == x for c in conds + [nxt.iter] for n in ast.walk(c)):
                    comp = ast.ListComp(elt=inner.value.args[0],
                                        generators=[ast.comprehension(target=nxt.target, iter=nxt.iter, ifs=conds, is_async=0)])
                    out.append(ast.fix_missing_locations(ast.copy_location(ast.Assign(targets=[st.targets[0]], value=comp), st)))
                    i += 2
                    continue
            if isinstance(st, ast.Assign) and len(st.targets) == 1 and isinstance(st.targets[0], ast.Attribute) \
                    and isinstance(st.value, ast.IfExp):
                a = ast.copy_location(ast.Assign(targets=[_c.deepcopy(st.targets[0])], value=st.value.body), st)
                b = ast.copy_location(ast.Assign(targets=[_c.deepcopy(st.targets[0])], value=st.value.orelse), st)
                out.append(ast.fix_missing_locations(ast.copy_location(ast.If(test=st.value.test, body=[a], orelse=[b]), st)))
                i += 1
                continue
            if isinstance(st, (ast.If, ast.For, ast.While, ast.With)):
                st.body = block(st.body)
                if getattr(st, 'orelse', None):
                    st.orelse = block(st.orelse)
            out.append(st)
            i += 1
        return out
    fn.body = block(fn.body)
    return fn


# ---------------------------------------------------------------------------------------------- argument classification
SHALLOW_BUILDERS = ('attrs.evolve', 'attr.evolve', 'copy.copy', 'dataclasses.replace')


def src_reads(e: ast.AST, src: str, env: dict[str, ast.expr], info: Optional['ClassInfo'] = None, _depth: int = 0) -> list[str]:
    """The fields of the source object (`<src>.X`) an expression reads, local names resolved through `env`
    (ordered, without duplicates).  This is what decides FROM WHICH field a field of the copy is built.
    A property whose getter is just `return self.g` (an alias) counts as a read of g; any other property keeps its
    own name (which is no field: the source check then rejects the row)."""
    if _depth > 8:
        raise TranslateError('src_reads: local-name resolution too deep')
    out: list[str] = []
    for n in ast.walk(e):
        f = _self_attr(n, src)
        if f is not None and info is not None and f not in info.fields and f in info.props \
                and _self_attr(info.props[f], 'self') is not None:
            f = _self_attr(info.props[f], 'self')
        if f is not None and f not in out:
            out.append(f)
        elif isinstance(n, ast.Name) and n.id in env and n.id != src:
            for g in src_reads(env[n.id], src, {k: v for k, v in env.items() if k != n.id}, info, _depth + 1):
                if g not in out:
                    out.append(g)
    return out


COPYLIKE_METHODS = {'copy', 'copy_values', 'values', 'items', '__copy__', '__deepcopy__'}
VALUE_CALLS = {'list', 'set', 'dict', 'tuple', 'frozenset', 'Vec', 'Array', 'sorted', 'intern', 'sys.intern', 'attrs.evolve', 'attr.evolve',
               'copy.copy', 'copy.deepcopy', 'dataclasses.replace'}
_MODE_RANK = {'ident': 0, 'presence': 1, 'ordefault': 1, 'guard': 2, 'derived': 3}


def src_flows(e: ast.AST, src: str, env: dict[str, ast.expr], info: Optional['ClassInfo'], classes: dict[str, 'ClassInfo'],
              mode: str = 'ident', _depth: int = 0) -> list[tuple[str, str]]:
    """HOW the fields of the source object (`<src>.X`) flow into an expression: (field, mode) with mode
    ident (the value itself, possibly copied / re-wrapped in a container), presence (`x is not None` / truthiness of
    the value steering a conditional), guard (any other test steering a conditional) or
    derived (goes through a comparison, arithmetic, formatting, slicing, projection or an unknown call: the value
    cannot in general be recovered).  Properties of the source class are read THROUGH (their getter inlined)."""
    if _depth > 10:
        raise TranslateError('src_flows: resolution too deep')
    out: list[tuple[str, str]] = []

    def add(items: list[tuple[str, str]]) -> None:
        for it in items:
            if it not in out:
                out.append(it)

    def worse(m: str) -> str:
        return m if _MODE_RANK[m] >= _MODE_RANK[mode] else mode

    def go(x: ast.AST, m: str) -> None:
        add(src_flows(x, src, env, info, classes, m, _depth + 1))
    f = _self_attr(e, src)
    if f is not None:
        if info is not None and f not in info.fields and f in info.props:
            add(src_flows(info.props[f], 'self', {}, info, classes, mode, _depth + 1) if src == 'self' else
                src_flows(_rename(info.props[f], 'self', src), src, {}, info, classes, mode, _depth + 1))
        else:
            add([(f, mode)])
        return out
    if isinstance(e, ast.Name):
        if e.id in env and e.id != src:
            add(src_flows(env[e.id], src, {k: v for k, v in env.items() if k != e.id}, info, classes, mode, _depth + 1))
        return out
    if isinstance(e, ast.Constant):
        return out
    if isinstance(e, ast.IfExp):
        fa = src_flows(e.body, src, env, info, classes, mode, _depth + 1)
        fb = src_flows(e.orelse, src, env, info, classes, mode, _depth + 1)
        if mode == 'ident' and len(fa) == 1 and fa == fb and fa[0][1] == 'ident' \
                and set(src_reads(e.test, src, env, info)) <= {fa[0][0]}:
            # `A(x) if T(x) else B(x)`, both branches carrying x itself and the test reading nothing but x: the value
            # arrives whatever the test says (which FORM it arrives in — copied or shared — is the `how` of the row)
            add(fa)
            return out
        opnd = _truthiness_operand(e.test)
        if opnd is not None:
            # bare truthiness of a field declared Optional[container] also sends the EMPTY container down the "absent"
            # branch: not a presence test (the constant branch then loses the empty value)
            fo = None
            o2, hops = opnd, 0
            while isinstance(o2, ast.Name) and o2.id in env and o2.id != src and hops < 8:
                o2, hops = env[o2.id], hops + 1
            fo = _self_attr(o2, src)
            if fo is not None and info is not None and not _is_none_test(e.test) and _optional_container_ann(info.ann.get(fo)):
                go(opnd, worse('guard'))
            else:
                go(opnd, worse('presence'))
        else:
            go(e.test, worse('guard'))
        go(e.body, mode)
        go(e.orelse, mode)
        return out
    if isinstance(e, ast.BoolOp):
        if isinstance(e.op, ast.Or) and len(e.values) == 2 and (isinstance(e.values[1], ast.Constant)
                                                                 or ast.unparse(e.values[1]) in ('set()', '()', '[]', '{}')):
            go(e.values[0], worse('ordefault'))       # `x or default`: x itself, when truthy
            return out
        if isinstance(e.op, ast.And) and len(e.values) == 2 and isinstance(e.values[0], (ast.Name, ast.Attribute)):
            # `x and B` is `B if x else x`
            add(src_flows(ast.copy_location(ast.IfExp(test=e.values[0], body=e.values[1], orelse=e.values[0]), e),
                          src, env, info, classes, mode, _depth + 1))
            return out
        if isinstance(e.op, ast.And):
            for x in e.values:
                go(x, worse('derived'))                # `a and b`: one of the two, depending on the other
            return out
        for x in e.values:
            go(x, mode)
        return out
    if isinstance(e, ast.Call):
        fn = e.func
        fname = ast.unparse(fn)
        if isinstance(fn, ast.Attribute) and fn.attr in COPYLIKE_METHODS:
            go(fn.value, mode)
            for a in list(e.args) + [k.value for k in e.keywords]:
                go(a, worse('guard'))      # arguments of copy(): options (the map, id mappings), not the value
            return out
        if fname in VALUE_CALLS or (isinstance(fn, ast.Name) and fn.id in classes):
            for a in list(e.args) + [k.value for k in e.keywords]:
                go(a, mode)
            return out
        go(fn, worse('derived'))
        for a in list(e.args) + [k.value for k in e.keywords]:
            go(a, worse('derived'))
        return out
    if isinstance(e, (ast.ListComp, ast.SetComp, ast.GeneratorExp, ast.DictComp)):
        for g in e.generators:
            it = g.iter
            if isinstance(it, ast.Subscript) and isinstance(it.slice, ast.Slice):
                go(it.value, worse('derived'))
            else:
                go(it, mode)
            for c in g.ifs:
                go(c, worse('guard'))
        for x in ([e.key, e.value] if isinstance(e, ast.DictComp) else [e.elt]):
            go(x, mode)
        return out
    if isinstance(e, ast.Starred):
        go(e.value, mode)
        return out
    if isinstance(e, (ast.Tuple, ast.List, ast.Set)):
        for x in e.elts:
            go(x, mode)
        return out
    for ch in ast.iter_child_nodes(e):       # comparison, arithmetic, f-string, subscript, projection ...: derived
        if isinstance(ch, ast.expr):
            go(ch, worse('derived'))
    return out


def _rename(e: ast.expr, old: str, new: str) -> ast.expr:
    import copy as _c
    e2 = _c.deepcopy(e)
    for n in ast.walk(e2):
        if isinstance(n, ast.Name) and n.id == old:
            n.id = new
    return e2


def elem_class(ann: Optional[str]) -> Optional[str]:
    """Element class of a container annotation: list[X] / Optional[list[X]] / dict[K, X] / list['X']."""
    if not ann:
        return None
    a = ann.replace("'", '').replace('"', '').replace(' ', '')
    m = re.fullmatch(r'(?:Optional\[)?(?:list|List|set|Set)\[(\w+)\]\]?', a) or \
        re.fullmatch(r'(?:Optional\[)?(?:dict|Dict)\[\w+,(\w+)\]\]?', a)
    return m.group(1) if m else None


class Census:
    def __init__(self, label: str, info: ClassInfo, an: Optional['CopyAnalysis'] = None) -> None:
        self.label, self.info = label, info
        self.an = an
        self.conditional: set[str] = set()          # fields whose row is the weaker branch of a conditional
        self.cond_parts: dict[str, tuple[str, str]] = {}    # ... field -> (row of the one branch, row of the other)
        self.how: dict[str, str] = {}
        self.detail: dict[str, str] = {}
        self.srcs: dict[str, list[str]] = {}      # field -> fields of the SOURCE object the expression reads
        self.flows: dict[str, list[tuple[str, str]]] = {}   # field -> (source field, ident|presence|ordefault|guard|derived)
        self.post_guards: dict[str, list[str]] = {}  # field -> tests (source text, over `self`) guarding its only store
        self.builder = 'ctor'                       # ctor | shallow (attrs.evolve / copy.copy: unspecified fields shared)

    def set(self, field: str, how: str, expr: ast.AST | str, srcs: Optional[list[str]] = None,
            flows: Optional[list[tuple[str, str]]] = None) -> None:
        if field not in self.info.fields:
            raise TranslateError(f'{self.label}: copy stores unknown field {field}')
        if self.an is not None and self.an.joined:      # set while the argument of this call was classified
            self.conditional.add(field)
            self.an.joined = False
        self.how[field] = how
        self.detail[field] = expr if isinstance(expr, str) else ast.unparse(expr)
        self.srcs[field] = list(srcs) if srcs is not None else []
        self.flows[field] = list(flows) if flows is not None else [(g, 'ident') for g in self.srcs[field]]

    def rows(self) -> list[tuple[str, str, str]]:
        return [(f, kind_of(self.info.name, f, self.info.ann.get(f)), self.how.get(f, 'HMissing')) for f in self.info.fields]


class CopyAnalysis:
    def __init__(self, tree: ast.Module, classes: dict[str, ClassInfo]) -> None:
        self.tree, self.classes = tree, classes
        self.censuses: list[Census] = []
        self.copy_values_how: Optional[str] = None
        self.src_class: str = ''          # class of the object `src` names in the expression being classified
        self.post_tests: dict[str, list[list[str]]] = {}   # field -> guards of its post-construction stores (method being analysed)
        self.joined = False               # set by classify when a conditional's branches differ and the weaker one is the row
        self.join_parts: Optional[tuple[str, str]] = None    # ... and the two branch classifications
        self.rebind: dict[str, ast.expr] = {}   # `param = self.X` re-bindings of the method being analysed (sources only)

    # classification of an expression that reads from `src` (usually self): returns one of
    # share / deep / shallow / ctx / param / const
    def classify(self, e: ast.expr, src: str, env: dict[str, ast.expr], params: set[str], label: str) -> str:
        if isinstance(e, ast.Name):
            if e.id in env:
                return self.classify(env[e.id], src, env, params, label)
            if e.id in params:
                return 'param'
            raise TranslateError(f'{label}: unknown name `{e.id}`')
        if isinstance(e, ast.Constant):
            return 'const'
        if _self_attr(e, src) is not None:
            return 'share'
        if isinstance(e, ast.BoolOp) and isinstance(e.op, ast.Or) and len(e.values) == 2:
            a, b = e.values
            if isinstance(a, ast.Name) and a.id in params and _self_attr(b, src) in ('map', 'vmf'):
                return 'ctx'
            if _self_attr(a, src) is not None and (isinstance(b, ast.Constant) or ast.unparse(b) in ('set()', '()', '[]', '{}')):
                return 'share'        # `self.f or default`: the flow census records that only truthy values survive
            if _self_attr(a, src) is not None:
                # `self.f or <expr>`: the original's own object whenever it is truthy — shared, whatever <expr> builds
                self.classify(b, src, env, params, label)
                return 'share'
            raise TranslateError(f'{label}: unrecognised `or` expression `{ast.unparse(e)}`')
        if isinstance(e, ast.BoolOp) and isinstance(e.op, ast.And) and len(e.values) == 2 \
                and (_self_attr(e.values[0], src) is not None or (isinstance(e.values[0], ast.Name) and e.values[0].id in env)):
            # `x and B` is `B if x else x`: a FALSY x (None, but also an EMPTY container) is handed over as it is
            a, b = e.values
            return self.classify(ast.copy_location(ast.IfExp(test=a, body=b, orelse=a), e), src, env, params, label)
        if isinstance(e, ast.IfExp):
            body = self.classify(e.body, src, env, params, label)
            other = e.orelse
            if isinstance(other, ast.Constant) or ast.unparse(other) in ('set()', '()', '[]', 'None'):
                return body
            # both branches hand over something built from the original: the row is the WEAKER of the two (a copy in
            # one branch does not help if the other branch shares).  Only exception: the test is exactly
            # `isinstance(<the field the other branch shares>, <container type>)` — then the shared value is the
            # non-container alternative of the field's declared union (a str), an atom.  Any further conjunct
            # (`x and isinstance(x, list)`: an EMPTY list takes the sharing branch) voids the exception.
            oth = self.classify(other, src, env, params, label)
            a, b, test = body, oth, e.test
            if isinstance(test, ast.UnaryOp) and isinstance(test.op, ast.Not):
                a, b, test, other = oth, body, test.operand, e.body
            def _res(x: ast.expr) -> ast.expr:
                hops = 0
                while isinstance(x, ast.Name) and x.id in env and hops < 8:
                    x, hops = env[x.id], hops + 1
                return x
            if b == 'share' and isinstance(test, ast.Call) and isinstance(test.func, ast.Name) and test.func.id == 'isinstance' \
                    and len(test.args) == 2 and not test.keywords and ast.unparse(test.args[1]) in ('list', 'dict', 'set') \
                    and _self_attr(_res(test.args[0]), src) is not None \
                    and _self_attr(_res(test.args[0]), src) == _self_attr(_res(other), src):
                return a
            order = ['share', 'share-elems', 'shallow', 'copycall', 'deep-ctor', 'deep-flat', 'deep']
            if 'partial' in (body, oth):
                return 'partial'
            if body not in order or oth not in order:
                raise TranslateError(f'{label}: cannot combine the branches of `{ast.unparse(e)[:70]}` ({body} / {oth})')
            if body != oth:
                self.joined = True
                self.join_parts = (body, oth)
            return min(body, oth, key=order.index)
        if isinstance(e, ast.Call):
            fn = e.func
            if isinstance(fn, ast.Attribute) and fn.attr == 'copy' and not e.keywords:
                inner = fn.value
                if _self_attr(inner, src) is not None or (isinstance(inner, ast.Name) and inner.id not in params):
                    # x.copy(): deep for the library's classes; dict/set .copy() is shallow — decided by the field kind
                    return 'copycall'
            if isinstance(fn, ast.Attribute) and fn.attr == 'copy_values' and _self_attr(fn.value, src) is not None:
                if self.copy_values_how is None:
                    raise TranslateError('copy_values used before analysis')
                return self.copy_values_how
            if isinstance(fn, ast.Name) and fn.id in ('list', 'set', 'dict') and len(e.args) == 1:
                inner = self.classify(e.args[0], src, env, params, label)
                return 'deep' if inner == 'deep' else 'shallow'
            if isinstance(fn, ast.Name) and fn.id == 'Array' and len(e.args) == 2 and isinstance(e.args[0], ast.Constant):
                self.classify(e.args[1], src, env, params, label)
                return 'deep'      # array of machine ints: a fresh array is a deep copy
            if isinstance(fn, ast.Name) and fn.id == 'Vec' and len(e.args) == 1:
                return 'deep'
            if isinstance(fn, ast.Attribute) and fn.attr == 'values' and _self_attr(fn.value, src) is not None:
                return 'share-elems'
            if isinstance(fn, ast.Name) and fn.id in self.classes:
                self.ctor_census(f'{fn.id}_in_{label}', fn.id, e, src, env, params, [])
                return 'deep-ctor'
            if ast.unparse(fn) in SHALLOW_BUILDERS and len(e.args) == 1 and _self_attr(e.args[0], src) is not None:
                f0 = _self_attr(e.args[0], src)
                ann0 = (self.classes[self.src_class].ann.get(f0) or '') if self.src_class in self.classes else ''
                ecls0 = ann0.replace("'", '').replace('Optional[', '').rstrip(']')
                if ecls0 not in self.classes or '__copy__' in {n.name for n in self.classes[ecls0].node.body if isinstance(n, ast.FunctionDef)}:
                    raise TranslateError(f'{label}: class of `{ast.unparse(e.args[0])}` unknown for `{ast.unparse(e)[:50]}`')
                self.shallow_census(f'{ecls0}_in_{label}_{f0}', ecls0, e, ast.unparse(e.args[0]), params, src_expr=e.args[0])
                return 'deep-ctor'
            raise TranslateError(f'{label}: unrecognised call `{ast.unparse(e)}`')
        if isinstance(e, (ast.ListComp, ast.DictComp)):
            if len(e.generators) != 1:
                raise TranslateError(f'{label}: unrecognised comprehension `{ast.unparse(e)}`')
            g = e.generators[0]
            it = g.iter
            partial = bool(g.ifs)       # a filter: only part of the elements is carried over
            if isinstance(it, ast.Subscript) and isinstance(it.slice, ast.Slice) and _self_attr(it.value, src) is not None:
                # a slice of the field: only part of the elements is carried over
                it, partial = it.value, True
            ok_iter = _self_attr(it, src) is not None or (
                isinstance(it, ast.Call) and isinstance(it.func, ast.Attribute) and it.func.attr in ('values', 'items')
                and _self_attr(it.func.value, src) is not None)
            if not ok_iter:
                raise TranslateError(f'{label}: comprehension over `{ast.unparse(it)}`')
            if isinstance(g.target, ast.Name):
                var = g.target.id
            elif isinstance(g.target, ast.Tuple) and len(g.target.elts) == 2 and isinstance(g.target.elts[1], ast.Name):
                var = g.target.elts[1].id
            else:
                raise TranslateError(f'{label}: comprehension target `{ast.unparse(g.target)}`')
            elt = e.elt if isinstance(e, ast.ListComp) else e.value
            if partial:
                return 'partial'
            if isinstance(elt, ast.Name) and elt.id == var:
                return 'shallow'
            if isinstance(elt, ast.Call) and isinstance(elt.func, ast.Attribute) and elt.func.attr == 'copy' \
                    and isinstance(elt.func.value, ast.Name) and elt.func.value.id == var:
                return 'deep'
            if isinstance(elt, ast.Call) and isinstance(elt.func, ast.Name) and elt.func.id in self.classes:
                self.ctor_census(f'{elt.func.id}_in_{label}', elt.func.id, elt, var, {}, params, [])
                return 'deep'
            if isinstance(elt, ast.Call) and ast.unparse(elt.func) in SHALLOW_BUILDERS and len(elt.args) == 1 \
                    and isinstance(elt.args[0], ast.Name) and elt.args[0].id == var:
                # a shallow builder: a new object that SHARES every field not given as a keyword
                itf = _self_attr(it, src) or _self_attr(it.func.value, src)  # type: ignore[union-attr]
                ecls = elem_class(self.classes[self.src_class].ann.get(itf)) if self.src_class in self.classes else None
                if ecls is None or ecls not in self.classes:
                    raise TranslateError(f'{label}: element class of `{ast.unparse(it)}` unknown for `{ast.unparse(elt)[:50]}`')
                self.shallow_census(f'{ecls}_in_{label}', ecls, elt, var, params)
                return 'deep'
            raise TranslateError(f'{label}: unrecognised comprehension element `{ast.unparse(elt)}`')
        raise TranslateError(f'{label}: unrecognised expression `{ast.unparse(e)}`')

    def how_of(self, cen: 'Census', info: ClassInfo, field: str, e: ast.expr, src: str, env: dict[str, ast.expr],
               params: set[str], wrap: str, label: str) -> str:
        """classify + final_how for one field; when the expression is a conditional whose branches differ, the row is the
        join (weaker) of the two BRANCH ROWS and the pair is recorded (Gen `cond_rows`; the kernel re-computes the join:
        obligation conditional_rows_are_joins)."""
        self.join_parts = None
        how = self.final_how(info, field, self.classify(e, src, env, params, label), wrap, label)
        if self.join_parts is not None:
            a, b = self.join_parts
            self.join_parts = None
            ha, hb = self.final_how(info, field, a, wrap, label), self.final_how(info, field, b, wrap, label)
            rank = {'HShare': 0, 'HShallow': 1, 'HDeep': 2}
            if ha in rank and hb in rank:
                how = ha if rank[ha] <= rank[hb] else hb
                cen.cond_parts[field] = (ha, hb)
        elif field in info.wrap_alt and wrap == info.feeds.get(field, (field, ''))[1]:
            # the field's CONVERTER copies on some of its paths only (`x if isinstance(x, set) else set(x)`): the row is the
            # weaker path (that is `wrap`); the pair is recorded like a conditional of copy() itself (cond_rows)
            rank = {'HShare': 0, 'HShallow': 1, 'HDeep': 2}
            hb = self.final_how(info, field, self.classify(e, src, env, params, label), info.wrap_alt[field], label)
            self.join_parts = None
            if how in rank and hb in rank and how != hb:
                how, hb = (how, hb) if rank[how] <= rank[hb] else (hb, how)
                cen.cond_parts[field] = (how, hb)
                cen.conditional.add(field)
        return how

    def final_how(self, info: ClassInfo, field: str, arg: str, wrap: str, label: str) -> str:
        kind = kind_of(info.name, field, info.ann.get(field))
        if arg == 'ctx' or (kind == 'KCtx' and arg in ('share', 'param')):
            return 'HCtx'
        if arg == 'param':
            if wrap == 'newid' or kind in ('KId', 'KCtx'):
                return 'HNewId' if kind != 'KCtx' else 'HCtx'
            return 'HMissing'          # an unrelated parameter: the original's value is not carried over
        if arg in ('const', 'partial'):
            return 'HMissing'          # (partial: built from a slice of the field — the value is not carried over whole)
        if arg == 'copycall':
            # x.copy(): the library's own deep copy for objects; for builtin containers a shallow copy
            arg = 'shallow' if kind.startswith('KCont') else 'deep'
        if arg in ('deep', 'deep-ctor', 'deep-flat'):
            return 'HDeep'
        if arg in ('shallow', 'share-elems'):
            return 'HShallow'
        if arg == 'share':
            return {'direct': 'HShare', 'container': 'HShallow', 'deepconv': 'HDeep', 'newid': 'HNewId'}[wrap]
        raise TranslateError(f'{label}: cannot combine {arg}/{wrap}')

    def ctor_census(self, label: str, cname: str, call: ast.Call, src: str, env: dict[str, ast.expr], params: set[str],
                    post: list[tuple[str, ast.expr]]) -> Census:
        info = self.classes[cname]
        cen = Census(label, info, self)
        if len(call.args) > len(info.params):
            raise TranslateError(f'{label}: too many positional arguments')
        bound: dict[str, ast.expr] = {}
        for p, a in zip(info.params, call.args):
            if isinstance(a, ast.Starred):
                raise TranslateError(f'{label}: *args in constructor call')
            bound[p] = a
        for kw in call.keywords:
            if kw.arg is None or kw.arg not in info.params + info.kwonly or kw.arg in bound:
                raise TranslateError(f'{label}: bad keyword {kw.arg}')
            bound[kw.arg] = kw.value
        saved, self.src_class = self.src_class, cname
        fenv = {**self.rebind, **env}
        # static annotation of every argument that is a plain read of a field of the source object
        argann: dict[str, Optional[str]] = {}
        for p, a in bound.items():
            a0, hops = a, 0
            while isinstance(a0, ast.Name) and a0.id in fenv and hops < 8:
                a0, hops = fenv[a0.id], hops + 1
            f0 = _self_attr(a0, src)
            if f0 is not None:
                argann[p] = info.ann.get(f0)
        # the constructor specialised to THIS call: which argument reaches which field, which arguments only steer it
        sp = info.specialise(bound, argann)
        used: set[str] = set()
        for field, (p, wrap, guards, ordef) in sp.field.items():
            gflows: list[tuple[str, str]] = []
            for g in sorted(guards):
                if g not in bound:
                    raise TranslateError(f'{label}: {cname}.__init__ steers field {field} by parameter {g}, whose default '
                                         f'`{ast.unparse(info.defaults[g]) if info.defaults.get(g) is not None else "<required>"}` cannot be decided')
                used.add(g)
                for x, m in src_flows(bound[g], src, fenv, info, self.classes):
                    it = (x, m if m == 'derived' else 'guard')
                    if it not in gflows:
                        gflows.append(it)
            if p is None or p not in bound:
                if guards:
                    cen.set(field, 'HMissing', 'steered by ' + ', '.join(f'{g}={ast.unparse(bound[g])}' for g in sorted(guards)) +
                            ' (the value argument is not given)', [], gflows)
                continue
            used.add(p)
            a = bound[p]
            how = self.how_of(cen, info, field, a, src, env, params, wrap, label)
            flows = src_flows(a, src, fenv, info, self.classes)
            if ordef:
                flows = [(x, 'ordefault' if m == 'ident' else m) for x, m in flows]
            if guards and how not in ('HCtx', 'HNewId'):
                how = 'HMissing'      # carried over only for the originals the steering argument lets through
            cen.set(field, how, ast.unparse(a) + (''.join(f'   [steered by {g}={ast.unparse(bound[g])}]' for g in sorted(guards))),
                    src_reads(a, src, fenv, info), flows + [g for g in gflows if g not in flows])
        for p in bound:
            if p not in used:
                raise TranslateError(f'{label}: constructor parameter {p} feeds no field')
        for field, e in post:
            cen.set(field, self.how_of(cen, info, field, e, src, env, params, 'direct', label), e,
                    src_reads(e, src, {**self.rebind, **env}, info),
                    src_flows(e, src, {**self.rebind, **env}, info, self.classes) + self.post_guard_flows(field, info, src, {**self.rebind, **env}))
        self.src_class = saved
        self.censuses.append(cen)
        return cen

    def post_guard_flows(self, field: str, info: ClassInfo, src: str, fenv: dict[str, ast.expr]) -> list[tuple[str, str]]:
        """A field stored after construction only under `if <test>:` keeps the constructor's default when the test fails.
        A test of the stored field ITSELF must therefore be exactly `self.f is not None` (absence is what the default
        stands for); any other test of it (`if self.f:` also skips the EMPTY container, a comparison skips some values)
        is a guard flow of the field into itself: the value is lost where the test fails.  Tests of other fields
        (`self.is_disp`) describe the states the object can be in and are recorded as post_guards only."""
        out: list[tuple[str, str]] = []
        for gs in self.post_tests.get(field, []):
            for g in gs:
                t = ast.parse(g, mode='eval').body
                if field in src_reads(t, src, fenv, info) and not (_is_none_test(t) and _self_attr(_truthiness_operand(t) or t, src) == field):
                    if (field, 'guard') not in out:
                        out.append((field, 'guard'))
        return out

    def shallow_census(self, label: str, cname: str, call: ast.Call, src: str, params: set[str],
                       src_expr: Optional[ast.expr] = None, post: Optional[list[tuple[str, ast.expr]]] = None,
                       env: Optional[dict[str, ast.expr]] = None) -> Census:
        """`attrs.evolve(x, f=...)` / `copy.copy(x)`: a new object of x's class in which every field NOT given as a
        keyword is the very same reference as in x (HShare, built from the field itself); keyword fields are
        classified like constructor arguments."""
        info = self.classes[cname]
        cen = Census(label, info, self)
        cen.builder = 'shallow'
        through_ctor = ast.unparse(call.func) != 'copy.copy'
        for f in info.fields:
            kind = kind_of(info.name, f, info.ann.get(f))
            # attrs.evolve / dataclasses.replace call the constructor with the current value of every field that is
            # not given: converters (`set`, `list`) and ID allocation run again; copy.copy shares the reference
            wrap = info.feeds.get(f, (f, 'direct'))[1] if through_ctor and info.feeds.get(f, (f,))[0] == f else 'direct'
            how = 'HCtx' if kind == 'KCtx' else self.final_how(info, f, 'share', wrap, label)
            cen.set(f, how, f'{src}.{f}   (not given to {ast.unparse(call.func)}: current value{", through the constructor" if wrap != "direct" else ""})', [f])
        saved, self.src_class = self.src_class, cname
        env = env or {}
        if src_expr is not None and call.keywords:
            raise TranslateError(f'{label}: keywords on a shallow builder of an attribute are not supported')
        for kw in call.keywords:
            if kw.arg is None:
                raise TranslateError(f'{label}: **kwargs on a shallow builder')
            if kw.arg not in info.feeds:
                raise TranslateError(f'{label}: shallow builder keyword {kw.arg} feeds no field')
            field, wrap = info.feeds[kw.arg]
            cen.set(field, self.how_of(cen, info, field, kw.value, src, env, params, wrap, label), kw.value,
                    src_reads(kw.value, src, {**self.rebind, **env}, info),
                    src_flows(kw.value, src, {**self.rebind, **env}, info, self.classes))
        for field, e in (post or []):
            cen.set(field, self.how_of(cen, info, field, e, src, env, params, 'direct', label), e,
                    src_reads(e, src, {**self.rebind, **env}, info),
                    src_flows(e, src, {**self.rebind, **env}, info, self.classes) + self.post_guard_flows(field, info, src, {**self.rebind, **env}))
        self.src_class = saved
        self.censuses.append(cen)
        return cen

    # ---- a copy() method that builds with a constructor call, optionally followed by `new.X = ...`
    def method_census(self, cname: str, mname: str = 'copy', label: Optional[str] = None) -> Census:
        cls = self.classes[cname].node
        fn = normalise_fn(_method(cls, mname), self.tree, cls)
        label = label or cname
        # `return self.other()` (no arguments, `other` a parameterless method of the class): the method IS the other one
        for _hop in range(3):
            body0 = [st for st in fn.body if not (isinstance(st, ast.Expr) and isinstance(st.value, ast.Constant))
                     and not isinstance(st, ast.Assert)]
            if len(body0) == 1 and isinstance(body0[0], ast.Return) and isinstance(body0[0].value, ast.Call) \
                    and not body0[0].value.args and not body0[0].value.keywords \
                    and _self_attr(body0[0].value.func) is not None \
                    and any(isinstance(n, ast.FunctionDef) and n.name == _self_attr(body0[0].value.func) for n in cls.body):
                target = _method(cls, _self_attr(body0[0].value.func))  # type: ignore[arg-type]
                if len(target.args.args) != 1 or target.args.kwonlyargs or target.args.vararg or target.args.kwarg \
                        or target.decorator_list or target.name == fn.name:
                    break
                fn = normalise_fn(target, self.tree, cls)
            else:
                break
        params = {a.arg for a in fn.args.args[1:] + fn.args.kwonlyargs}
        env: dict[str, ast.expr] = {}
        call: Optional[ast.Call] = None
        newvar: Optional[str] = None
        post: list[tuple[str, ast.expr]] = []
        raw_new = False
        self.rebind = {}

        def is_ctor(e: ast.expr) -> bool:
            return isinstance(e, ast.Call) and isinstance(e.func, ast.Name) and e.func.id == cname

        def is_new(e: ast.expr) -> bool:
            return isinstance(e, ast.Call) and ast.unparse(e.func) == f'{cname}.__new__'

        def is_shallow(e: ast.expr) -> bool:
            return isinstance(e, ast.Call) and ast.unparse(e.func) in SHALLOW_BUILDERS and len(e.args) == 1 \
                and isinstance(e.args[0], ast.Name) and e.args[0].id == 'self'
        shallow: list[ast.Call] = []

        post_guards: dict[str, list[list]] = {}

        def scan(body: list[ast.stmt], guarded: list) -> None:
            nonlocal call, newvar, raw_new
            for st in body:
                if isinstance(st, ast.Expr) and isinstance(st.value, ast.Constant):
                    continue
                if isinstance(st, ast.Assert):
                    continue
                if isinstance(st, ast.Return):
                    if st.value is None:
                        raise TranslateError(f'{label}: bare return')
                    if is_ctor(st.value):
                        call = st.value  # type: ignore[assignment]
                    elif is_shallow(st.value):
                        shallow.append(st.value)  # type: ignore[arg-type]
                    elif isinstance(st.value, ast.Name) and st.value.id == newvar:
                        pass
                    else:
                        raise TranslateError(f'{label}: unrecognised return `{ast.unparse(st.value)}`')
                    continue
                if isinstance(st, ast.Assign) and len(st.targets) == 1:
                    t = st.targets[0]
                    if isinstance(t, ast.Name):
                        if is_ctor(st.value) or is_new(st.value) or is_shallow(st.value):
                            newvar = t.id
                            if is_ctor(st.value):
                                call = st.value  # type: ignore[assignment]
                            elif is_shallow(st.value):
                                shallow.append(st.value)  # type: ignore[arg-type]
                            else:
                                raw_new = True
                        elif t.id in params:
                            # re-binding a parameter (e.g. `des_id = self.id`, `vmf = self.vmf`): still a parameter
                            self.rebind[t.id] = st.value
                        else:
                            if t.id in env:
                                raise TranslateError(f'{label}: local `{t.id}` bound more than once')
                            env[t.id] = st.value
                        continue
                    if newvar is not None and _self_attr(t, newvar) is not None:
                        post.append((_self_attr(t, newvar), st.value))  # type: ignore[arg-type]
                        post_guards.setdefault(_self_attr(t, newvar), []).append(list(guarded))  # type: ignore[arg-type]
                        continue
                    if isinstance(t, ast.Subscript) and isinstance(t.value, ast.Name) and t.value.id in params:
                        continue      # side_mapping[self.id] = new.id : bookkeeping in a caller-supplied mapping
                    raise TranslateError(f'{label}: unrecognised assignment `{ast.unparse(st)}`')
                if isinstance(st, ast.If):
                    test = ast.unparse(st.test)
                    reads_self_only = all(not isinstance(n, ast.Name) or n.id in ('self', 'isinstance', 'list', 'None') or n.id in params
                                          for n in ast.walk(st.test))
                    if not reads_self_only:
                        raise TranslateError(f'{label}: unrecognised guard `{test}`')
                    if st.orelse:
                        # both branches must store the same fields of the copy (each branch: stores `new.f = v`, possibly
                        # followed by `return new`): field f gets the conditional value `A if test else B`, which
                        # `classify` reads as the WEAKER of the two branches (exception: exactly `isinstance(self.f, list)`
                        # with the other branch sharing self.f, see there)
                        def stores(blk: list[ast.stmt]) -> dict[str, ast.expr]:
                            res: dict[str, ast.expr] = {}
                            for k2, s2 in enumerate(blk):
                                if isinstance(s2, ast.Return) and isinstance(s2.value, ast.Name) and s2.value.id == newvar \
                                        and k2 == len(blk) - 1:
                                    continue      # both branches end in `return <the copy>` (guard-clause form)
                                if isinstance(s2, ast.Expr) and isinstance(s2.value, ast.Constant):
                                    continue
                                f2 = _self_attr(s2.targets[0], newvar) if isinstance(s2, ast.Assign) and newvar \
                                    and len(s2.targets) == 1 else None
                                if f2 is None or f2 in res:
                                    raise TranslateError(f'{label}: unrecognised statement in if/else `{ast.unparse(s2)[:60]}`')
                                res[f2] = s2.value  # type: ignore[union-attr]
                            return res
                        sa, sb = stores(st.body), stores(st.orelse)
                        if set(sa) != set(sb) or not sa:
                            raise TranslateError(f'{label}: the branches of `if {test}` store different fields '
                                                 f'({sorted(sa)} / {sorted(sb)})')
                        for f2 in sa:
                            cond = ast.fix_missing_locations(ast.copy_location(
                                ast.IfExp(test=st.test, body=sa[f2], orelse=sb[f2]), st))
                            post.append((f2, cond))
                            post_guards.setdefault(f2, []).append(list(guarded))
                    else:
                        scan(st.body, guarded + [test])
                    continue
                raise TranslateError(f'{label}: unsupported statement `{ast.unparse(st)[:60]}` (line {st.lineno})')
        scan(fn.body, [])
        self.post_tests = post_guards
        if len(shallow) + (call is not None) + raw_new > 1:
            raise TranslateError(f'{label}: more than one way of building the copy')
        # a field stored after construction only under `if <test on self>:` keeps the constructor's default otherwise
        # (evidence for the run-time flow probe: which states of the original the row speaks about)
        pg = {f: [g for g in gs[-1]] for f, gs in post_guards.items() if gs and gs[-1]}
        if shallow:
            cen = self.shallow_census(label, cname, shallow[0], 'self', params, post=post, env=env)
            cen.post_guards = pg
            return cen
        if call is None and not raw_new:
            raise TranslateError(f'{label}: no constructor call found')
        if call is not None:
            cen = self.ctor_census(label, cname, call, 'self', env, params, post)
            cen.post_guards = pg
            return cen
        info = self.classes[cname]
        cen = Census(label, info, self)
        saved, self.src_class = self.src_class, cname
        for field, e in post:
            cen.set(field, self.how_of(cen, info, field, e, 'self', env, params, 'direct', label), e,
                    src_reads(e, 'self', {**self.rebind, **env}, info),
                    src_flows(e, 'self', {**self.rebind, **env}, info, self.classes)
                    + self.post_guard_flows(field, info, 'self', {**self.rebind, **env}))
        self.src_class = saved
        cen.post_guards = pg
        self.censuses.append(cen)
        return cen

    def analyse_copy_values(self) -> None:
        fn = normalise_fn(_method(self.classes['EntityFixup'].node, 'copy_values'), self.tree, self.classes['EntityFixup'].node)
        stmts = [s for s in fn.body if not (isinstance(s, ast.Expr) and isinstance(s.value, ast.Constant))]
        rets = [s for s in stmts if isinstance(s, ast.Return)]
        if len(rets) != 1 or rets[0].value is None or stmts[-1] is not rets[0]:
            raise TranslateError('EntityFixup.copy_values: unrecognised body')
        # `name = expr` ... `return name`: single-assignment locals are resolved
        cnt = _assigned_names(fn)
        cv_env: dict[str, ast.expr] = {}
        for st in stmts[:-1]:
            if isinstance(st, ast.Assign) and len(st.targets) == 1 and isinstance(st.targets[0], ast.Name) \
                    and cnt.get(st.targets[0].id) == 1:
                cv_env[st.targets[0].id] = st.value
            else:
                raise TranslateError(f'EntityFixup.copy_values: unrecognised statement `{ast.unparse(st)[:60]}`')
        hops = 0
        while isinstance(rets[0].value, ast.Name) and rets[0].value.id in cv_env and hops < 8:
            rets[0].value, hops = cv_env[rets[0].value.id], hops + 1
        self.src_class = 'EntityFixup'
        how = self.classify(rets[0].value, 'self', {}, set(), 'EntityFixup_copy_values')
        self.src_class = ''
        self.copy_values_how = 'deep' if how in ('deep', 'deep-flat') else 'shallow'
        info = self.classes['EntityFixup']
        cen = Census('EntityFixup_copy_values', info, self)
        cen.set('_fixup', 'HDeep' if self.copy_values_how == 'deep' else 'HShallow', rets[0].value,
                src_reads(rets[0].value, 'self', {}, info), src_flows(rets[0].value, 'self', {}, info, self.classes))
        cen.set('_matcher', 'HShare', 'rebuilt lazily by the constructor (cache)', ['_matcher'])
        self.censuses.append(cen)


    def state_census(self, cname: str, label: str, cache_ann: tuple[str, ...] = ('Optional[Pattern[str]]',)) -> Census:
        """A pickle round trip of a class whose `__getstate__` returns ONE value built from self and whose `__setstate__`
        rebuilds the fields from it (EntityFixup: `list(self._fixup.values())` / a dict comprehension over the state).
        pickle serialises the state, so every object below it comes back NEW: a field that `__setstate__` builds from ALL
        elements of the state, when the state holds the whole of that field, has the row HDeep from that field; a filtered
        or sliced comprehension, a constant, or a state that holds only part of the field gives HMissing
        (`copy_covers_fields:<label>` names it).  A cache field (annotation in `cache_ann`) reset to a constant follows
        the convention of the constructor path (`EntityFixup_copy_values`): rebuilt lazily, row HShare.
        Anything else fails closed."""
        info = self.classes[cname]
        cls = info.node
        gs = normalise_fn(_method(cls, '__getstate__'), self.tree, cls)
        ss = normalise_fn(_method(cls, '__setstate__'), self.tree, cls)
        if len(gs.args.args) != 1 or len(ss.args.args) != 2 or ss.args.vararg or ss.args.kwarg or gs.args.vararg or gs.args.kwarg:
            raise TranslateError(f'{label}: unexpected signature of __getstate__/__setstate__')
        defined = {n.name for n in cls.body if isinstance(n, (ast.FunctionDef, ast.AsyncFunctionDef))}
        other = {'__reduce__', '__reduce_ex__', '__getnewargs__', '__getnewargs_ex__', '__new__', '__setattr__', '__getattribute__'} & defined
        if other:
            raise TranslateError(f'{label}: {cname} also defines {sorted(other)}')
        body = [st for st in gs.body if not (isinstance(st, ast.Expr) and isinstance(st.value, ast.Constant))]
        if len(body) != 1 or not isinstance(body[0], ast.Return) or body[0].value is None:
            raise TranslateError(f'{label}: __getstate__ is not a single `return <expr>`')
        state_expr = body[0].value
        saved, self.src_class = self.src_class, cname
        self.join_parts, self.joined = None, False
        held = self.classify(state_expr, 'self', {}, set(), label)
        if self.join_parts is not None:
            raise TranslateError(f'{label}: conditional state `{ast.unparse(state_expr)[:60]}`')
        self.src_class = saved
        reads = src_reads(state_expr, 'self', {}, info)
        whole = held in ('share', 'share-elems', 'shallow', 'copycall', 'deep', 'deep-ctor', 'deep-flat') and len(reads) == 1
        sname = ss.args.args[1].arg
        cen = Census(label, info, self)
        cen.builder = 'protocol'
        for st in ss.body:
            if isinstance(st, ast.Expr) and isinstance(st.value, ast.Constant) or isinstance(st, ast.Pass):
                continue
            f = _self_attr(st.targets[0]) if isinstance(st, ast.Assign) and len(st.targets) == 1 else \
                (_self_attr(st.target) if isinstance(st, ast.AnnAssign) and st.value is not None else None)
            v = st.value if isinstance(st, (ast.Assign, ast.AnnAssign)) else None
            if f is None or v is None or f not in info.fields or f in cen.how:
                raise TranslateError(f'{label}: unrecognised statement `{ast.unparse(st)[:60]}` in __setstate__')
            if isinstance(v, ast.Constant) or ast.unparse(v) in ('{}', '[]', 'set()', 'dict()', 'list()'):
                if info.ann.get(f) in cache_ann and isinstance(v, ast.Constant) and v.value is None:
                    cen.set(f, 'HShare', f'reset to None by __setstate__ (cache, rebuilt lazily)', [f])
                else:
                    cen.set(f, 'HMissing', f'constant {ast.unparse(v)} in __setstate__', [], [])
                continue
            # what of the state reaches the field: all of its elements, or part
            all_elems: Optional[bool] = None
            if isinstance(v, ast.Name) and v.id == sname:
                all_elems = True
            elif isinstance(v, ast.Call) and isinstance(v.func, ast.Name) and v.func.id in ('list', 'dict', 'set') \
                    and len(v.args) == 1 and not v.keywords and isinstance(v.args[0], ast.Name) and v.args[0].id == sname:
                all_elems = True
            elif isinstance(v, (ast.ListComp, ast.SetComp, ast.DictComp)) and len(v.generators) == 1:
                g = v.generators[0]
                elt = v.value if isinstance(v, ast.DictComp) else v.elt
                if isinstance(g.iter, ast.Name) and g.iter.id == sname and isinstance(g.target, ast.Name) \
                        and isinstance(elt, ast.Name) and elt.id == g.target.id and not g.is_async:
                    all_elems = not g.ifs            # a filter drops elements
                    if isinstance(v, ast.DictComp) and not any(isinstance(n, ast.Name) and n.id == g.target.id for n in ast.walk(v.key)):
                        all_elems = False           # a key that does not depend on the element: entries overwrite each other
            if all_elems is None:
                raise TranslateError(f'{label}: unrecognised value `{ast.unparse(v)[:60]}` for {f} in __setstate__')
            if all_elems and whole:
                cen.set(f, 'HDeep', f'pickle of {ast.unparse(state_expr)} -> {ast.unparse(v)[:70]}', reads, [(reads[0], 'ident')])
            else:
                cen.set(f, 'HMissing', f'only part of the field survives: state {ast.unparse(state_expr)[:50]} ({held}) -> {ast.unparse(v)[:50]}',
                        reads, [(r, 'derived') for r in reads])
        self.censuses.append(cen)
        return cen


    def protocol_census(self, cname: str, label: str, which: str) -> Census:
        """`copy.deepcopy(x)` / a pickle round trip of a class that customises NOTHING of the copy protocol: CPython's
        generic protocol (copyreg.__reduce_ex__: a new object of the same class, every slot set to a deep copy /
        unpickled value of the original's slot; immutable atoms come back as the same or an equal value) gives the row
        HDeep for every mutable field and HShare for every immutable one, each from its own slot.  Only applies when
        the class has no base class, declares __slots__ equal to its data fields and defines none of the hooks; a class
        that defines __deepcopy__ is analysed like any copy method; any other hook fails closed."""
        info = self.classes[cname]
        cls = info.node
        defined = {n.name for n in cls.body if isinstance(n, (ast.FunctionDef, ast.AsyncFunctionDef))}
        defined |= {t.id for n in cls.body if isinstance(n, ast.Assign) for t in n.targets if isinstance(t, ast.Name)}
        if which == 'deepcopy' and '__deepcopy__' in defined:
            return self.method_census(cname, '__deepcopy__', label)
        hooks = {'__deepcopy__', '__copy__', '__reduce__', '__reduce_ex__', '__getstate__', '__setstate__', '__getnewargs__',
                 '__getnewargs_ex__', '__new__', '__init_subclass__', '__setattr__', '__getattribute__'}
        if which == 'pickle':
            hooks -= {'__deepcopy__', '__copy__'}      # the copy module's hooks: pickle does not look at them
        if hooks & defined:
            raise TranslateError(f'{label}: {cname} defines {sorted(hooks & defined)}: the generic copy protocol does not apply')
        if cls.bases or cls.keywords or cls.decorator_list:
            raise TranslateError(f'{label}: {cname} has base classes / decorators: the generic copy protocol census does not apply')
        slots = _slots(cls)
        if slots is None or sorted(slots) != sorted(info.fields):
            raise TranslateError(f'{label}: {cname}.__slots__ {slots} are not the data fields {info.fields}')
        cen = Census(label, info, self)
        for f in info.fields:
            kind = kind_of(cname, f, info.ann.get(f))
            if kind in ('KCtx', 'KId'):
                raise TranslateError(f'{label}: field {f} of kind {kind} under the generic copy protocol')
            cen.set(f, 'HShare' if kind == 'KImm' else 'HDeep', f'{which} of self.{f} (generic copy protocol)', [f], [(f, 'ident')])
        cen.builder = 'protocol'
        self.censuses.append(cen)
        return cen


# ---------------------------------------------------------------------------------------------- Keyvalues + / += / extend
def kv_receivers(tree: ast.Module) -> dict:
    cls = _find_class(tree, 'Keyvalues')
    out: dict = {}

    def is_copy_call(arg: ast.expr) -> bool:
        return isinstance(arg, ast.Call) and isinstance(arg.func, ast.Attribute) and arg.func.attr == 'copy' and not arg.args

    def appends(fn: ast.FunctionDef, via: dict[str, bool]) -> list[tuple[Optional[bool], str, bool, int]]:
        """Every site that adds children: (inside the `isinstance(other, Keyvalues) and ...` single branch?,
        receiver, is the added child a fresh copy?, line).  A site is `<recv>._value.append/extend(x)` or a call of
        the public `<recv>.append/extend(x)`; the child is a fresh copy when x is `y.copy()` or when the public
        method called copies its argument at every one of its own sites (`via`)."""
        res = []
        # local names that only ever hold a fresh copy (`tmp = x.copy()`)
        binds: dict[str, list[ast.expr]] = {}
        for n in ast.walk(fn):
            if isinstance(n, ast.Assign):
                for t in n.targets:
                    for nm in ast.walk(t):
                        if isinstance(nm, ast.Name):
                            binds.setdefault(nm.id, []).append(n.value if isinstance(t, ast.Name) else ast.Constant(value=None))
            elif isinstance(n, (ast.For, ast.AugAssign, ast.AnnAssign, ast.NamedExpr, ast.comprehension)):
                for nm in ast.walk(n.target):
                    if isinstance(nm, ast.Name):
                        binds.setdefault(nm.id, []).append(ast.Constant(value=None))
        params = {a.arg for a in fn.args.args + fn.args.kwonlyargs}
        local_copies = {k for k, vs in binds.items() if k not in params and vs and all(is_copy_call(v) for v in vs)}

        def is_fresh(arg: ast.expr) -> bool:
            return is_copy_call(arg) or (isinstance(arg, ast.Name) and arg.id in local_copies)

        def walk(body: list[ast.stmt], single: Optional[bool]) -> None:
            for st in body:
                if isinstance(st, ast.If):
                    t = ast.unparse(st.test)
                    if t.startswith('isinstance(other, Keyvalues) and'):
                        walk(st.body, True)
                        walk(st.orelse, False)
                    else:
                        walk(st.body, single)
                        walk(st.orelse, single)
                elif isinstance(st, (ast.For, ast.While, ast.With)):
                    walk(st.body, single)
                    walk(getattr(st, 'orelse', []), single)
                elif isinstance(st, ast.Try):
                    raise TranslateError(f'Keyvalues.{fn.name}: try statement (line {st.lineno})')
                elif isinstance(st, (ast.Assign, ast.AugAssign, ast.AnnAssign)):
                    tgt = ast.unparse(st.targets[0] if isinstance(st, ast.Assign) else st.target)
                    if '_value' in tgt:
                        raise TranslateError(f'Keyvalues.{fn.name}: assignment to `{tgt}` (line {st.lineno})')
                elif isinstance(st, ast.Expr) and isinstance(st.value, ast.Call):
                    c = st.value
                    f = ast.unparse(c.func)
                    parts = f.split('.')
                    public = len(parts) == 2 and parts[1] in ('append', 'extend') and parts[0] in ('self', 'copy')
                    if f.endswith('._value.append') or f.endswith('._value.extend') or f.endswith('._value.insert') or public:
                        recv = parts[0]
                        if recv not in ('self', 'copy'):
                            raise TranslateError(f'Keyvalues.{fn.name}: append to unknown receiver `{recv}` (line {st.lineno})')
                        if len(c.args) != 1 or c.keywords:
                            raise TranslateError(f'Keyvalues.{fn.name}: unrecognised append `{ast.unparse(c)}` (line {st.lineno})')
                        arg = c.args[0]
                        copied = is_fresh(arg) or (public and via.get(parts[1], False))
                        res.append((single, 'RSelf' if recv == 'self' else 'RCopy', copied, st.lineno))
                    elif '_value' in f and not f.startswith(('isinstance', 'warnings.')):
                        raise TranslateError(f'Keyvalues.{fn.name}: unrecognised use of _value `{f}` (line {st.lineno})')
        walk(fn.body, None)
        return res
    def canon(fn: ast.FunctionDef) -> ast.FunctionDef:
        """Name-independent form of `+` / `+=`: the single-assignment local bound to `self.copy()` is called `copy`;
        single-assignment locals bound to `copy._value` / `self._value` (aliases of the child list) and to a pure test
        used as an `if` condition are replaced by their definition."""
        import copy as _c
        fn = _c.deepcopy(fn)
        cnt = _assigned_names(fn)
        fparams = {a.arg for a in fn.args.args + fn.args.kwonlyargs}
        used = {n.id for n in ast.walk(fn) if isinstance(n, ast.Name)}
        cvs = [st.targets[0].id for st in ast.walk(fn) if isinstance(st, ast.Assign) and len(st.targets) == 1
               and isinstance(st.targets[0], ast.Name) and ast.unparse(st.value) == 'self.copy()'
               and cnt.get(st.targets[0].id) == 1 and st.targets[0].id not in fparams]
        if len(cvs) == 1 and cvs[0] != 'copy' and 'copy' not in used:
            for n in ast.walk(fn):
                if isinstance(n, ast.Name) and n.id == cvs[0]:
                    n.id = 'copy'
        alias: dict[str, ast.expr] = {}

        def strip(body: list[ast.stmt]) -> list[ast.stmt]:
            out = []
            for st in body:
                if isinstance(st, ast.Assign) and len(st.targets) == 1 and isinstance(st.targets[0], ast.Name) \
                        and cnt.get(st.targets[0].id) == 1 and st.targets[0].id not in fparams \
                        and (ast.unparse(st.value) in ('copy._value', 'self._value')
                             or (_pure_test(st.value) and isinstance(st.value, (ast.BoolOp, ast.Compare, ast.UnaryOp, ast.Call))
                                 and not ({n.id for n in ast.walk(st.value) if isinstance(n, ast.Name)} & set(cnt)))):
                    alias[st.targets[0].id] = _Subst(alias).visit(st.value)
                    continue
                if isinstance(st, (ast.If, ast.For, ast.While, ast.With)):
                    for fld in ('test', 'iter'):
                        if hasattr(st, fld):
                            setattr(st, fld, _Subst(alias).visit(getattr(st, fld)))
                    st.body = strip(st.body)
                    if getattr(st, 'orelse', None):
                        st.orelse = strip(st.orelse)
                    out.append(st)
                else:
                    out.append(_Subst(alias).visit(st) if alias else st)
            return out
        fn.body = strip(fn.body)
        return ast.fix_missing_locations(fn)

    # what the public append()/extend() do with their argument (used when +/+= delegate to them)
    via: dict[str, bool] = {}
    for name in ('append', 'extend'):
        sites = appends(canon(normalise_fn(_method(cls, name), tree, cls)), {})
        via[name] = bool(sites) and all(s[2] for s in sites)
    out['public_method_copies'] = via
    for name in ('__add__', '__iadd__', 'extend'):
        fn = canon(normalise_fn(_method(cls, name), tree, cls))
        sites = appends(fn, via)
        if name == 'extend':
            if len(sites) != 1:
                raise TranslateError('Keyvalues.extend: expected exactly one append site')
            out['extend'] = {'recv': sites[0][1], 'copied': sites[0][2], 'line': sites[0][3]}
            continue
        single = [s for s in sites if s[0] is True]
        it = [s for s in sites if s[0] is False]
        if len(single) != 1 or len(it) != 1 or len(sites) != 2:
            raise TranslateError(f'Keyvalues.{name}: expected one append site per branch, found {sites}')
        rets = [ast.unparse(n.value) for n in ast.walk(fn) if isinstance(n, ast.Return) and n.value is not None]
        rets = [r for r in rets if r != 'NotImplemented']
        if len(set(rets)) != 1 or rets[0] not in ('copy', 'self'):
            raise TranslateError(f'Keyvalues.{name}: unrecognised return values {rets}')
        if name == '__add__':
            # the copy must be `copy = self.copy()`
            ok = any(isinstance(n, ast.Assign) and ast.unparse(n) == 'copy = self.copy()' for n in ast.walk(fn))
            if not ok:
                raise TranslateError('Keyvalues.__add__: `copy = self.copy()` not found')
        out[name] = {'single': single[0][1], 'iter': it[0][1], 'ret': 'RCopy' if rets[0] == 'copy' else 'RSelf',
                     'copied': single[0][2] and it[0][2], 'copied_single': single[0][2], 'copied_iter': it[0][2],
                     'lines': [single[0][3], it[0][3]]}
    return out


# ---------------------------------------------------------------------------------------------- __getstate__ / __setstate__
def pickle_state(cls: ast.ClassDef, info: 'ClassInfo', classes: dict[str, 'ClassInfo']) -> dict:
    """The pickling pair of a class: from which field each position of the state tuple is built (`put`, for the long and
    the short form) and into which field each position is unpacked (`get`).  Recognised shapes (anything else fails closed):
      __getstate__:  locals bound once to tuple displays; `return <tuple display or such a local>` at the end and/or inside
                     one `if`; `*local` splices a local tuple; every element reads exactly one field of self, by identity
                     (through value calls such as intern(), under a presence test of the same field);
      __setstate__:  `(self.a, self.b, ..., *rest) = state`, then `if rest: (self.x, ...) = rest  else: self.x = <const> ...`
                     (or a plain `(self.a, ...) = state`)."""
    lab = cls.name
    gs, ss = _method(cls, '__getstate__'), _method(cls, '__setstate__')
    if len(gs.args.args) != 1 or len(ss.args.args) != 2:
        raise TranslateError(f'{lab}: unexpected signature of __getstate__/__setstate__')
    tuples: dict[str, list[ast.expr]] = {}
    returns: list[list[ast.expr]] = []
    ret_branch: list[str] = []           # round 5: where each return sits: top | body | orelse (of the one `if`)
    the_if: list[ast.If] = []

    def elems(e: ast.expr) -> list[ast.expr]:
        if isinstance(e, ast.Name) and e.id in tuples:
            return list(tuples[e.id])
        if not isinstance(e, ast.Tuple):
            raise TranslateError(f'{lab}.__getstate__: state is not a tuple display `{ast.unparse(e)[:50]}`')
        out: list[ast.expr] = []
        for x in e.elts:
            if isinstance(x, ast.Starred):
                if not (isinstance(x.value, ast.Name) and x.value.id in tuples):
                    raise TranslateError(f'{lab}.__getstate__: unknown splice `{ast.unparse(x)}`')
                out += tuples[x.value.id]
            else:
                out.append(x)
        return out

    def scan_get(body: list[ast.stmt], depth: int, branch: str = 'top') -> None:
        for st in body:
            if isinstance(st, ast.Expr) and isinstance(st.value, ast.Constant):
                continue
            if isinstance(st, (ast.Assign, ast.AnnAssign)):
                t = st.targets[0] if isinstance(st, ast.Assign) and len(st.targets) == 1 else getattr(st, 'target', None)
                if isinstance(t, ast.Name) and st.value is not None and t.id not in tuples:
                    tuples[t.id] = elems(st.value)
                    continue
                raise TranslateError(f'{lab}.__getstate__: unrecognised assignment `{ast.unparse(st)[:50]}`')
            if isinstance(st, ast.Return) and st.value is not None:
                returns.append(elems(st.value))
                ret_branch.append(branch)
                continue
            if isinstance(st, ast.If) and depth == 0 and not the_if:
                the_if.append(st)
                scan_get(st.body, 1, 'body')
                scan_get(st.orelse, 1, 'orelse')
                continue
            raise TranslateError(f'{lab}.__getstate__: unsupported statement `{ast.unparse(st)[:50]}`')
    scan_get(gs.body, 0)
    if not 1 <= len(returns) <= 2:
        raise TranslateError(f'{lab}.__getstate__: {len(returns)} return statements')

    def field_of(e: ast.expr) -> str:
        fl = src_flows(e, 'self', {}, info, classes)
        names = {f for f, _m in fl}
        if len(names) != 1 or any(m not in ('ident', 'presence') for _f, m in fl) or not any(m == 'ident' for _f, m in fl):
            raise TranslateError(f'{lab}.__getstate__: state element `{ast.unparse(e)[:50]}` is not one field by identity ({fl})')
        return names.pop()
    puts = sorted(([field_of(e) for e in r] for r in returns), key=len)
    put_long, put_short = puts[-1], puts[0]
    # round 5: WHEN the long form is taken (the test of the `if`, oriented by the branch the long return sits in)
    long_test: Optional[ast.expr] = None
    if len(returns) == 2:
        if not the_if or len(returns[0]) == len(returns[1]):
            raise TranslateError(f'{lab}.__getstate__: two returns but no `if` choosing between a long and a short state')
        k_long = 0 if len(returns[0]) > len(returns[1]) else 1
        bl, bs = ret_branch[k_long], ret_branch[1 - k_long]
        if bl == 'body' and bs in ('orelse', 'top'):
            long_test = the_if[0].test
        elif bs == 'body' and bl in ('orelse', 'top'):
            long_test = ast.UnaryOp(op=ast.Not(), operand=the_if[0].test)
        else:
            raise TranslateError(f'{lab}.__getstate__: cannot tell which branch returns the long state ({bl}/{bs})')

    state = ss.args.args[1].arg
    get_short: list[str] = []
    get_tail: list[str] = []
    defaults: dict[str, str] = {}
    rest: Optional[str] = None
    body = [st for st in ss.body if not (isinstance(st, ast.Expr) and isinstance(st.value, ast.Constant))]

    def targets(t: ast.expr) -> tuple[list[str], Optional[str]]:
        if not isinstance(t, ast.Tuple):
            raise TranslateError(f'{lab}.__setstate__: unrecognised target `{ast.unparse(t)[:50]}`')
        names, star = [], None
        for k, x in enumerate(t.elts):
            if isinstance(x, ast.Starred) and isinstance(x.value, ast.Name) and k == len(t.elts) - 1:
                star = x.value.id
            elif _self_attr(x) is not None:
                names.append(_self_attr(x))
            else:
                raise TranslateError(f'{lab}.__setstate__: unrecognised target element `{ast.unparse(x)[:50]}`')
        return names, star  # type: ignore[return-value]
    if not body or not (isinstance(body[0], ast.Assign) and len(body[0].targets) == 1 and isinstance(body[0].value, ast.Name)
                        and body[0].value.id == state):
        raise TranslateError(f'{lab}.__setstate__: the first statement does not unpack the state')
    get_short, rest = targets(body[0].targets[0])
    if rest is None:
        if len(body) != 1:
            raise TranslateError(f'{lab}.__setstate__: statements after the unpacking')
    else:
        if len(body) != 2 or not (isinstance(body[1], ast.If) and isinstance(body[1].test, ast.Name) and body[1].test.id == rest
                                  and len(body[1].body) == 1 and isinstance(body[1].body[0], ast.Assign)
                                  and isinstance(body[1].body[0].value, ast.Name) and body[1].body[0].value.id == rest):
            raise TranslateError(f'{lab}.__setstate__: expected `if {rest}: (...) = {rest} else: defaults`')
        get_tail, star2 = targets(body[1].body[0].targets[0])
        if star2 is not None:
            raise TranslateError(f'{lab}.__setstate__: nested splice')
        for st in body[1].orelse:
            f = _self_attr(st.targets[0]) if isinstance(st, ast.Assign) and len(st.targets) == 1 else None
            if f is None or not isinstance(st.value, (ast.Constant, ast.UnaryOp)) or f in defaults:
                raise TranslateError(f'{lab}.__setstate__: unrecognised default `{ast.unparse(st)[:50]}`')
            defaults[f] = ast.unparse(st.value)
        if sorted(defaults) != sorted(get_tail):
            raise TranslateError(f'{lab}.__setstate__: the short form restores {sorted(defaults)}, the long form {sorted(get_tail)}')
    short_rows = _short_form_rows(lab, long_test, get_tail, defaults, info) if long_test is not None and rest is not None else []
    if (long_test is None) != (rest is None):
        raise TranslateError(f'{lab}: __getstate__ and __setstate__ disagree on whether there is a short state')
    return {'put': put_long, 'put_short': put_short if len(returns) == 2 else put_long, 'get': get_short + get_tail,
            'get_short': get_short if rest is not None else get_short + get_tail, 'defaults': defaults,
            'tail': get_tail, 'short_rows': short_rows,
            'long_test': ast.unparse(long_test) if long_test is not None else None}


def _nnf_disjuncts(t: ast.expr, neg: bool = False) -> list[tuple[ast.expr, bool]]:
    """The test as a disjunction of (atom, negated?) — `not` pushed inwards (De Morgan); a conjunction that remains is not
    a disjunction of per-field tests and fails closed."""
    if isinstance(t, ast.UnaryOp) and isinstance(t.op, ast.Not):
        return _nnf_disjuncts(t.operand, not neg)
    if isinstance(t, ast.BoolOp):
        is_or = isinstance(t.op, ast.Or) != neg          # not (a and b) = not a or not b
        if not is_or:
            raise TranslateError(f'the long-form test contains a conjunction `{ast.unparse(t)[:60]}`')
        out: list[tuple[ast.expr, bool]] = []
        for v in t.values:
            out += _nnf_disjuncts(v, neg)
        return out
    return [(t, neg)]


def _short_form_rows(lab: str, long_test: ast.expr, tail: list[str], defaults: dict[str, str], info: 'ClassInfo') -> list[list]:
    """Per optional field of the state: (field, type, its own disjuncts of the long-form test, the constant restored) —
    Gen `<class>_short_rows`; meaning and theorem in SM/StorePickleShort{,Proofs}.v."""
    ty_of = {'Optional[str]': 'TyOptStr', 'str': 'TyStr', 'float': 'TyFloat', 'int': 'TyInt'}
    tests: dict[str, list[str]] = {f: [] for f in tail}

    def int_const(e: ast.expr) -> Optional[int]:
        if isinstance(e, ast.Constant) and type(e.value) is int:
            return e.value
        if isinstance(e, ast.UnaryOp) and isinstance(e.op, ast.USub) and isinstance(e.operand, ast.Constant) and type(e.operand.value) is int:
            return -e.operand.value
        return None

    for atom, neg in _nnf_disjuncts(long_test):
        fields = {_self_attr(n) for n in ast.walk(atom) if _self_attr(n) is not None}
        if len(fields) != 1:
            raise TranslateError(f'{lab}.__getstate__: disjunct `{ast.unparse(atom)[:60]}` of the long-form test reads {sorted(fields)}')
        f = fields.pop()
        if f not in tests:
            continue              # a field of the fixed part steering the form: more long states, nothing is lost
        ty = ty_of.get(info.ann.get(f) or '')
        what: Optional[str] = None
        if _self_attr(atom) == f and not neg:
            what = 'TTruthy'
        elif isinstance(atom, ast.Compare) and len(atom.ops) == 1:
            op, left, right = atom.ops[0], atom.left, atom.comparators[0]
            if neg:               # not (a == b)  =  a != b ;  not (a is None)  =  a is not None
                op = {ast.Eq: ast.NotEq(), ast.Is: ast.IsNot()}.get(type(op))      # type: ignore[assignment]
            if isinstance(op, ast.IsNot) and _self_attr(left) == f and isinstance(right, ast.Constant) and right.value is None:
                what = 'TNotNone'
            elif isinstance(op, ast.NotEq) and _self_attr(left) == f:
                c = int_const(right)
                if c is not None and ty == 'TyInt':
                    what = f'(TNeqInt ({c})%Z)'
                elif ty == 'TyFloat' and (c == 0 or (isinstance(right, ast.Constant) and type(right.value) is float and right.value == 0.0)):
                    what = 'TNeqZeroNum'
            elif isinstance(op, ast.NotEq) and isinstance(left, ast.JoinedStr) and len(left.values) == 1 \
                    and isinstance(left.values[0], ast.FormattedValue) and _self_attr(left.values[0].value) == f \
                    and left.values[0].conversion == -1 and left.values[0].format_spec is not None \
                    and ast.unparse(left.values[0].format_spec) == "f'g'" \
                    and isinstance(right, ast.Constant) and right.value == '0':
                what = 'TFmtNotZero'
        if what is None:
            raise TranslateError(f'{lab}.__getstate__: unrecognised disjunct `{"not " if neg else ""}{ast.unparse(atom)[:60]}` of the long-form test')
        tests[f].append(what)
    rows = []
    for f in tail:
        ty = ty_of.get(info.ann.get(f) or '')
        if ty is None:
            raise TranslateError(f'{lab}: optional state field {f} has the unmodelled type `{info.ann.get(f)}`')
        d = defaults[f].replace(' ', '')
        if d == 'None':
            dv = 'DNone'
        elif d in ("''", '""'):
            dv = 'DEmptyStr'
        elif ty == 'TyFloat' and d in ('0.0', '0', '0.'):
            dv = 'DFloatZero'
        elif ty == 'TyFloat' and d in ('-0.0', '-0.'):
            dv = 'DFloatNegZero'
        elif re.fullmatch(r'-?\d+', d):
            dv = f'(DIntC ({int(d)})%Z)'
        else:
            raise TranslateError(f'{lab}.__setstate__: unmodelled default `{defaults[f]}` of {f}')
        rows.append([f, ty, tests[f], dv])
    return rows


# ---------------------------------------------------------------------------------------------- main
VMF_CLASSES = ['Camera', 'Cordon', 'VisGroup', 'Solid', 'UVAxis', 'DispVertex', 'Side', 'Entity', 'FixupValue', 'EntityFixup',
               'EntityGroup', 'Output']


def translate() -> tuple[str, dict]:
    vtree = ast.parse(src_text('vmf.py'))
    ktree = ast.parse(src_text('keyvalues.py'))
    classes = {n: ClassInfo(_find_class(vtree, n), module=vtree) for n in VMF_CLASSES}
    kv_info = ClassInfo(_find_class(ktree, 'Keyvalues'), want_feeds=False, module=ktree)
    kv_info.ann.update({'_folded_name': 'Optional[str]', '_real_name': 'Optional[str]', 'line_num': 'Optional[int]'})
    an = CopyAnalysis(vtree, classes)
    an.analyse_copy_values()
    for c in ('Camera', 'Cordon', 'VisGroup', 'Solid', 'UVAxis', 'Side', 'Entity', 'EntityGroup', 'Output'):
        an.method_census(c)
    an.method_census('EntityFixup', '__copy__', 'EntityFixup_copy')
    an.method_census('EntityFixup', '__deepcopy__', 'EntityFixup_deepcopy')
    an.state_census('EntityFixup', 'EntityFixup_pickle')
    kan = CopyAnalysis(ktree, {'Keyvalues': kv_info})
    kan.method_census('Keyvalues')
    kan.protocol_census('Keyvalues', 'Keyvalues_deepcopy', 'deepcopy')
    kan.protocol_census('Keyvalues', 'Keyvalues_pickle', 'pickle')
    censuses = an.censuses + kan.censuses
    kv = kv_receivers(ktree)
    labels = [c.label for c in censuses]
    if len(set(labels)) != len(labels):
        raise TranslateError(f'duplicate census labels {labels}')
    lines = ['(* GENERATED by translate/c09_copy.py from /repo/src/srctools/vmf.py, keyvalues.py. Do not edit. *)',
             'From Coq Require Import List String Bool ZArith.', 'From SV Require Import SM.StoreCopy SM.StoreCopyFlow SM.KvAdd SM.StorePickleShort.',
             'Import ListNotations.', 'Open Scope string_scope.', '']
    side: dict = {'classes': labels, 'census': {}, 'kv': kv, 'digests': {}, 'sources': {}, 'builder': {}}
    for c in censuses:
        rows = c.rows()
        lines.append(f'Definition census_{c.label} : census := [')
        lines.append(';\n'.join(f'  ("{f}", {k}, {h})' for f, k, h in rows))
        lines.append('].')
        # from which fields of the source object each field of the copy is built
        lines.append(f'Definition sources_{c.label} : list (string * list string) := [')
        lines.append(';\n'.join('  ("%s", [%s])' % (f, '; '.join(f'"{g}"' for g in c.srcs.get(f, []))) for f, _k, _h in rows))
        lines.append('].')
        # HOW the source fields flow into each field (through the constructor specialised to the call, properties inlined)
        fl = {'ident': 'FIdent', 'presence': 'FPresence', 'ordefault': 'FOrDefault', 'guard': 'FGuard', 'derived': 'FDerived'}
        lines.append(f'Definition flows_{c.label} : flowmap := [')
        lines.append(';\n'.join('  ("%s", [%s])' % (f, '; '.join(f'("{g}", {fl[m]})' for g, m in c.flows.get(f, []))) for f, _k, _h in rows))
        lines.append('].')
        side.setdefault('flows', {})[c.label] = {f: [list(x) for x in c.flows.get(f, [])] for f, _k, _h in rows}
        side['census'][c.label] = [[f, k, h, c.detail.get(f, '<not set by copy>')] for f, k, h in rows]
        side['sources'][c.label] = {f: c.srcs.get(f, []) for f, _k, _h in rows}
        side['builder'][c.label] = c.builder
        side.setdefault('post_guards', {})[c.label] = c.post_guards
        side.setdefault('class_of', {})[c.label] = c.info.name
        side.setdefault('conditional', {})[c.label] = sorted(c.conditional)
    lines.append('Definition all_census : list (string * census) := [')
    lines.append(';\n'.join(f'  ("{c.label}", census_{c.label})' for c in censuses))
    lines.append('].')
    lines.append('Definition all_sources : list (string * list (string * list string)) := [')
    lines.append(';\n'.join(f'  ("{c.label}", sources_{c.label})' for c in censuses))
    lines.append('].')
    lines.append('Definition all_flows : list (string * flowmap) := [')
    lines.append(';\n'.join(f'  ("{c.label}", flows_{c.label})' for c in censuses))
    lines.append('].')
    # the pickling pair of Output (copy.copy / copy.deepcopy / pickle go through it)
    ps = pickle_state(classes['Output'].node, classes['Output'], classes)
    side['pickle_state'] = {'Output': ps}
    sl = lambda l: '[' + '; '.join(f'"{x}"' for x in l) + ']'
    lines += [f'Definition output_state_put : list string := {sl(ps["put"])}.',
              f'Definition output_state_get : list string := {sl(ps["get"])}.',
              f'Definition output_state_put_short : list string := {sl(ps["put_short"])}.',
              f'Definition output_state_get_short : list string := {sl(ps["get_short"])}.',
              f'Definition output_state_tail : list string := {sl(ps["tail"])}.',
              'Definition output_short_rows : list srow := [',
              ';\n'.join('  ("%s", %s, [%s], %s)' % (f, ty, '; '.join(ts), dv) for f, ty, ts, dv in ps['short_rows']),
              '].']
    # round 5: `__copy__` / `__deepcopy__` hooks on map-object classes (copy.copy(x) is an alternative entry point): a hook must
    # be a plain delegation `return self.copy()`; EntityFixup's hooks are census labels of their own
    hooks: list[tuple[str, str, bool]] = []
    for cname in VMF_CLASSES:
        if cname == 'EntityFixup':
            continue
        for n in classes[cname].node.body:
            if isinstance(n, ast.FunctionDef) and n.name in ('__copy__', '__deepcopy__'):
                body = [st for st in n.body if not (isinstance(st, ast.Expr) and isinstance(st.value, ast.Constant))]
                ok = len(body) == 1 and isinstance(body[0], ast.Return) and body[0].value is not None \
                    and ast.unparse(body[0].value) == 'self.copy()' and not n.decorator_list \
                    and any(isinstance(m, ast.FunctionDef) and m.name == 'copy' for m in classes[cname].node.body)
                hooks.append((cname, n.name, ok))
    side['copy_hooks'] = [list(h) for h in hooks]
    lines.append('Definition copy_hooks : list (string * bool) := [')
    lines.append(';\n'.join(f'  ("{c}.{m}", {"true" if ok else "false"})' for c, m, ok in hooks))
    lines.append('].')
    lines.append('Definition cond_rows : list (string * string * how * how) := [')
    lines.append(';\n'.join(f'  ("{c.label}", "{f}", {a}, {b})' for c in censuses for f, (a, b) in sorted(c.cond_parts.items())))
    lines.append('].')
    side['cond_rows'] = [[c.label, f, a, b] for c in censuses for f, (a, b) in sorted(c.cond_parts.items())]
    lines.append('Definition class_of_label : list (string * string) := [')
    lines.append(';\n'.join(f'  ("{c.label}", "{c.info.name}")' for c in censuses))
    lines.append('].')
    cb = lambda b: 'true' if b else 'false'
    lines += [f'Definition kv_add_single_copied : bool := {cb(kv["__add__"]["copied_single"])}.',
              f'Definition kv_add_iter_copied : bool := {cb(kv["__add__"]["copied_iter"])}.',
              f'Definition kv_iadd_single_copied : bool := {cb(kv["__iadd__"]["copied_single"])}.',
              f'Definition kv_iadd_iter_copied : bool := {cb(kv["__iadd__"]["copied_iter"])}.']
    lines += [f'Definition kv_add_recv_single : recv := {kv["__add__"]["single"]}.',
              f'Definition kv_add_recv_iter : recv := {kv["__add__"]["iter"]}.',
              f'Definition kv_add_ret : recv := {kv["__add__"]["ret"]}.',
              f'Definition kv_add_args_copied : bool := {"true" if kv["__add__"]["copied"] else "false"}.',
              f'Definition kv_iadd_recv_single : recv := {kv["__iadd__"]["single"]}.',
              f'Definition kv_iadd_recv_iter : recv := {kv["__iadd__"]["iter"]}.',
              f'Definition kv_iadd_ret : recv := {kv["__iadd__"]["ret"]}.',
              f'Definition kv_iadd_args_copied : bool := {"true" if kv["__iadd__"]["copied"] else "false"}.',
              f'Definition kv_extend_args_copied : bool := {"true" if kv["extend"]["copied"] and kv["extend"]["recv"] == "RSelf" else "false"}.',
              '']
    for name in ('Side', 'Entity', 'Solid'):
        side['digests'][name] = ast_digest(_method(classes[name].node, 'copy'))
    return '\n'.join(lines), side


GEN = {'CopyCensus_gen': translate}
