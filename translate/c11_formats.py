"""C11 translator: struct formats, static-prop record layouts, Ns guards and detail-prop dispatch of bsp.py
(+ the candidate test of binformat.find_or_extend) -> Gen/BspFormats_gen.v.

Fail-closed: every call into `struct`, `struct_read`, `read_array`, `write_array`, `DeferredWrites.defer` and every
`self.lump_layout[...]` subscript inside the lump readers/writers must be recognised and must be used by exactly
one stream of STREAMS below; anything else raises TranslateError.

What is read from the source (nothing of it is hard-wired here): every format string, the five layout tables, the
per-version field sequence of static props on both sides (by symbolic execution of the `if vers_num ...` ladder for
every StaticPropVersion member), the length guards in front of every `Ns` pack site, the isinstance order and type
codes of the detail-prop writer, the type-code dispatch of its reader, the class hierarchy, the overlay face-block
template and its bound, and whether find_or_extend compares lengths before accepting a candidate.
What IS hard-wired: which reader site is the partner of which writer site (STREAMS, by ordinal inside the function).
"""
from __future__ import annotations

import ast
from typing import Any

from harness.common import TranslateError, ast_digest, src_text

STRUCT_FUNCS = {'struct.pack', 'struct.unpack', 'struct.unpack_from', 'struct.iter_unpack', 'struct.Struct',
                'struct_read', 'read_array', 'write_array'}
IGNORED_FUNCS = {'struct.calcsize'}
# functions whose sites belong to the BSP container (header, lump table, game-lump directory): property C10.
CONTAINER_FUNCS = {'read', 'save'}


def coq_s(s: str) -> str:
    if '"' in s or '\\' in s:
        raise TranslateError(f'format string with quote/backslash: {s!r}')
    return '"' + s + '"'


# ------------------------------------------------------------------------------------------------ expression folding
class Folder:
    def __init__(self, consts: dict[str, Any]) -> None:
        self.consts = consts

    def fold(self, e: ast.AST, env: dict[str, Any] | None = None) -> Any:
        """Evaluate a constant expression (str/int) or raise KeyError/TranslateError."""
        env = env or {}
        if isinstance(e, ast.Constant):
            return e.value
        if isinstance(e, ast.Name):
            if e.id in env:
                return env[e.id]
            return self.consts[e.id]
        if isinstance(e, ast.JoinedStr):
            out = ''
            for v in e.values:
                if isinstance(v, ast.Constant):
                    out += v.value
                elif isinstance(v, ast.FormattedValue) and v.format_spec is None and v.conversion == -1:
                    out += str(self.fold(v.value, env))
                else:
                    raise TranslateError(f'line {e.lineno}: unsupported f-string part')
            return out
        if isinstance(e, ast.IfExp):
            return self.fold(e.body, env) if self.fold(e.test, env) else self.fold(e.orelse, env)
        if isinstance(e, ast.Compare) and len(e.ops) == 1:
            a, b = self.fold(e.left, env), self.fold(e.comparators[0], env)
            op = e.ops[0]
            if isinstance(op, ast.Eq):
                return a == b
            if isinstance(op, ast.NotEq):
                return a != b
            raise TranslateError(f'line {e.lineno}: unsupported comparison in constant expression')
        if isinstance(e, ast.BinOp):
            a, b = self.fold(e.left, env), self.fold(e.right, env)
            if isinstance(e.op, ast.Add):
                return a + b
            if isinstance(e.op, ast.Sub):
                return a - b
            if isinstance(e.op, ast.Mult):
                return a * b
            raise TranslateError(f'line {e.lineno}: unsupported operator in constant expression')
        raise KeyError(ast.dump(e)[:60])


def layout_key(e: ast.AST) -> str | None:
    """self.lump_layout['KEY'] -> KEY"""
    if isinstance(e, ast.Subscript) and ast.unparse(e.value) == 'self.lump_layout' and isinstance(e.slice, ast.Constant):
        return e.slice.value
    return None


# ------------------------------------------------------------------------------------------------ site census
def describe(fmt: ast.AST, fold: Folder, fname: str, array: bool) -> tuple:
    """Format expression -> site descriptor."""
    k = layout_key(fmt)
    if k is not None:
        return ('key', k)
    # self.lump_layout['K'].format[1] * n : native array of the element code
    if isinstance(fmt, ast.BinOp) and isinstance(fmt.op, ast.Mult) and isinstance(fmt.left, ast.Subscript) \
            and isinstance(fmt.left.value, ast.Attribute) and fmt.left.value.attr == 'format' \
            and layout_key(fmt.left.value.value) is not None and ast.unparse(fmt.left.slice) == '1':
        return ('keynative', layout_key(fmt.left.value.value))
    # '<' + str(n) + 'i' : array of one code
    if isinstance(fmt, ast.BinOp) and isinstance(fmt.op, ast.Add) and isinstance(fmt.left, ast.BinOp) \
            and isinstance(fmt.left.left, ast.Constant) and isinstance(fmt.right, ast.Constant) \
            and isinstance(fmt.left.right, ast.Call) and ast.unparse(fmt.left.right.func) == 'str':
        return ('lit', fmt.left.left.value + fmt.right.value)
    try:
        v = fold.fold(fmt)
    except KeyError:
        v = None
    if isinstance(v, str):
        return ('lit', v)
    if isinstance(fmt, ast.JoinedStr):
        return ('template', fmt)
    raise TranslateError(f'{fname}: line {fmt.lineno}: format expression not recognised: {ast.unparse(fmt)[:80]}')


def census(fn: ast.FunctionDef, fold: Folder, helper_sites: dict[str, list[dict]] | None = None) -> list[dict]:
    """All format sites of one function, in source order.  A call of a module-level helper that contains format
    sites counts as those sites at the position of the call (so moving a pack into a helper changes nothing)."""
    sites: list[dict] = []
    consumed: set[int] = set()
    for node in ast.walk(fn):
        if isinstance(node, ast.Call):
            f = ast.unparse(node.func)
            if helper_sites and f in helper_sites:
                for hs in helper_sites[f]:
                    sites.append(dict(hs, line=node.lineno, col=node.col_offset, via=f, ordnode=node))
            elif f in STRUCT_FUNCS:
                if not node.args:
                    raise TranslateError(f'{fn.name}: line {node.lineno}: {f} without format')
                d = describe(node.args[0], fold, fn.name, f in ('read_array', 'write_array'))
                for sub in ast.walk(node.args[0]):
                    consumed.add(id(sub))
                sites.append({'line': node.lineno, 'col': node.col_offset, 'call': f, 'desc': d, 'node': node, 'owner': fn})
            elif f in IGNORED_FUNCS:
                for sub in ast.walk(node):
                    consumed.add(id(sub))
            elif f.endswith('.defer') and len(node.args) >= 2:
                try:
                    v = fold.fold(node.args[1])
                except KeyError:
                    v = None
                if isinstance(v, str):
                    sites.append({'line': node.lineno, 'col': node.col_offset, 'call': 'defer', 'desc': ('lit', v), 'node': node, 'owner': fn})
                elif fn.name not in CONTAINER_FUNCS:
                    raise TranslateError(f'{fn.name}: line {node.lineno}: defer() format not constant')
            elif f.startswith('struct.'):
                raise TranslateError(f'{fn.name}: line {node.lineno}: unknown struct function {f}')
    for node in ast.walk(fn):
        if id(node) in consumed:
            continue
        k = layout_key(node)
        if k is not None and k != 'LEAF_AREA_OFFSET':
            sites.append({'line': node.lineno, 'col': node.col_offset, 'call': 'layout', 'desc': ('key', k), 'node': node, 'owner': fn})
    # order of appearance in the (normalised) tree, not line numbers: a branch moved by the normaliser keeps its old lines
    order: dict[int, int] = {}

    def number(n: ast.AST) -> None:
        order[id(n)] = len(order)
        for c in ast.iter_child_nodes(n):
            number(c)
    number(fn)
    for st in sites:
        st['ord'] = order.get(id(st.get('ordnode', st.get('node'))), None)
    if all(st['ord'] is not None for st in sites):
        sites.sort(key=lambda s: s['ord'])
    else:
        sites.sort(key=lambda s: (s['line'], s['col']))
    return sites


# Pairing of reader and writer sites.  (function, ordinal) ; a stream = applicability, alternatives read, alternatives written.
# Ordinals count the sites of the NORMALISED function (c11_norm: a local that names `self.lump_layout['K']` is replaced by the
# table entry, so every pack/unpack through it is a site whether or not the look-up was hoisted).
# Every alternative of a stream must have the same layout (concatenation of its sites' formats).
ALL = '*'
NONVIT = '!VITAMIN'
VIT = 'VITAMIN'
R, W = 'r', 'w'
STREAMS: list[tuple[str, str, list[list[tuple[str, int]]], list[list[tuple[str, int]]]]] = [
    ('planes', ALL, [[('_lmp_read_planes', 0)]], [[('_lmp_write_planes', 0)]]),
    ('vertexes', ALL, [[('_lmp_read_vertexes', 0)]], [[('_lmp_write_vertexes', 0)]]),
    ('edges', ALL, [[('_lmp_read_surfedges', 0)]], [[('_lmp_write_surfedges', 1)]]),
    ('surfedges', ALL, [[('_lmp_read_surfedges', 1)]], [[('_lmp_write_surfedges', 0)]]),
    ('primverts', ALL, [[('_lmp_read_primitives', 0)]], [[('_lmp_write_primitives', 0)]]),
    ('primindices', ALL, [[('_lmp_read_primitives', 1)]], [[('_lmp_write_primitives', 2)]]),
    ('primitives', ALL, [[('_lmp_read_primitives', 2)]], [[('_lmp_write_primitives', 1)]]),
    ('faceids', ALL, [[('_read_faces_common', 0)]], [[('_write_faces_common', 2)]]),
    ('faces', NONVIT, [[('_read_faces_common', 1)]], [[('_write_faces_common', 1)]]),
    ('faces_vitamin', VIT, [[('_read_faces_common', 1)]], [[('_write_faces_common', 0)]]),
    ('brushsides', NONVIT, [[('_lmp_read_brushes', 1)]], [[('_lmp_write_brushes', 2)]]),
    ('brushsides_vitamin', VIT, [[('_lmp_read_brushes', 0)]], [[('_lmp_write_brushes', 1)]]),
    ('brushes', ALL, [[('_lmp_read_brushes', 2)]], [[('_lmp_write_brushes', 0)]]),
    ('leafwaterdata', ALL, [[('_lmp_read_water_leaf_info', 0)]], [[('_lmp_write_water_leaf_info', 0)]]),
    ('leafbrushes', ALL, [[('_lmp_read_visleafs', 0)]], [[('_lmp_write_visleafs', 3)]]),
    ('leaffaces', ALL, [[('_lmp_read_visleafs', 1)]], [[('_lmp_write_visleafs', 2)]]),
    ('leafmindisttowater', ALL, [[('_lmp_read_visleafs', 2)]], [[('_lmp_write_visleafs', 4)]]),
    ('leafs', NONVIT, [[('_lmp_read_visleafs', 3)]], [[('_lmp_write_visleafs', 1)]]),
    ('leafs_vitamin', VIT, [[('_lmp_read_visleafs', 3)]], [[('_lmp_write_visleafs', 0)]]),
    ('nodes', ALL, [[('_lmp_read_nodes', 0)]], [[('_lmp_write_nodes', 0)]]),
    ('vis_cluster_count', ALL, [[('_lmp_read_visibility', 0)]], [[('_lmp_write_visibility', 0)]]),
    ('vis_offsets', ALL, [[('_lmp_read_visibility', 1)]], [[('_lmp_write_visibility', 1)]]),
    ('texdata_string_table', ALL, [[('_lmp_read_textures', 0)]], [[('_lmp_write_textures', 0)]]),
    ('texdata', NONVIT, [[('_lmp_read_texinfo', 1)]], [[('_lmp_write_texinfo', 0), ('_lmp_write_texinfo', 1)]]),
    ('texdata_vitamin', VIT, [[('_lmp_read_texinfo', 0)]], [[('_lmp_write_texinfo', 0)]]),
    ('texinfo', ALL, [[('_lmp_read_texinfo', 2)]], [[('_lmp_write_texinfo', 2)]]),
    ('bmodels', ALL, [[('_lmp_read_bmodels', 0)]], [[('_lmp_write_bmodels', 0)]]),
    ('physcollide_header', ALL, [[('_lmp_read_bmodels', 1)]], [[('_lmp_write_bmodels', 1)], [('_lmp_write_bmodels', 3)]]),
    ('physcollide_solid_size', ALL, [[('_lmp_read_bmodels', 2)]], [[('_lmp_write_bmodels', 2)]]),
    ('cubemaps', ALL, [[('_lmp_read_cubemaps', 0)]], [[('_lmp_write_cubemaps', 0)]]),
    ('overlay_fades', ALL, [[('_lmp_read_overlays', 1)]], [[('_lmp_write_overlays', 0)]]),
    ('overlay_system_levels', ALL, [[('_lmp_read_overlays', 2)]], [[('_lmp_write_overlays', 1)]]),
    ('prop_dict_count', ALL, [[('_read_static_props_models', 0)]], [[('_lmp_write_props', 0)], [('_lmp_write_detail_props', 1)]]),
    ('prop_dict_name', ALL, [[('_read_static_props_models', 1)]], [[('_lmp_write_props', 1)], [('_lmp_write_detail_props', 2)]]),
    ('sprp_leaf_count', ALL, [[('_lmp_read_props', 0)]], [[('_lmp_write_props', 2)]]),
    ('sprp_leaf_array', ALL, [[('_lmp_read_props', 1)]], [[('_lmp_write_props', 3)]]),
    ('sprp_prop_count', ALL, [[('_lmp_read_props', 2)]], [[('_lmp_write_props', 4)]]),
    ('dprp_sprite_count', ALL, [[('_lmp_read_detail_props', 0)]], [[('_lmp_write_detail_props', 3)]]),
    ('dprp_sprite', ALL, [[('_lmp_read_detail_props', 1)]], [[('_lmp_write_detail_props', 4)]]),
    ('dprp_detail_count', ALL, [[('_lmp_read_detail_props', 2)]], [[('_lmp_write_detail_props', 5)]]),
    ('dprp_detail', ALL, [[('_lmp_read_detail_props', 3)]], [[('_lmp_write_detail_props', 0)]]),
]
# Sites handled by a dedicated mechanism instead of STREAMS: (function, ordinal) -> mechanism
OVERLAY_READ = ('_lmp_read_overlays', 0)
OVERLAY_WRITE = [('_lmp_write_overlays', 2), ('_lmp_write_overlays', 3), ('_lmp_write_overlays', 4), ('_lmp_write_overlays', 5)]
PROP_RECORD_FUNCS = ('_lmp_read_props', '_lmp_write_props')     # sites from ordinal 3 / 5 on: per-version walk


def site_coq(d: tuple) -> str:
    if d[0] == 'lit':
        return f'SLit {coq_s(d[1])}'
    if d[0] == 'key':
        return f'SKey {coq_s(d[1])}'
    if d[0] == 'keynative':
        return f'SKeyNative {coq_s(d[1])}'
    raise TranslateError(f'site descriptor {d[0]} cannot be used in a stream')


# ------------------------------------------------------------------------------------------------ layouts
def read_layouts(tree: ast.Module) -> tuple[dict[str, dict[str, str]], dict[str, int]]:
    layouts: dict[str, dict[str, str]] = {}
    offs: dict[str, int] = {}
    for n in tree.body:
        tgt = None
        if isinstance(n, ast.AnnAssign) and isinstance(n.target, ast.Name) and n.value is not None:
            tgt, val = n.target.id, n.value
        elif isinstance(n, ast.Assign) and len(n.targets) == 1 and isinstance(n.targets[0], ast.Name):
            tgt, val = n.targets[0].id, n.value
        if tgt is None or not tgt.startswith('LUMP_LAYOUT_'):
            continue
        if not isinstance(val, ast.Dict):
            raise TranslateError(f'{tgt}: not a dict literal')
        cur: dict[str, str] = {}
        off = None
        for k, v in zip(val.keys, val.values):
            if k is None:       # **BASE
                if not isinstance(v, ast.Name) or v.id not in layouts:
                    raise TranslateError(f'{tgt}: unknown ** base')
                cur.update(layouts[v.id])
                off = offs[v.id]
                continue
            if not isinstance(k, ast.Constant):
                raise TranslateError(f'{tgt}: non-constant key')
            if isinstance(v, ast.Constant) and isinstance(v.value, int):
                if k.value != 'LEAF_AREA_OFFSET':
                    raise TranslateError(f'{tgt}: unexpected int entry {k.value}')
                off = v.value
            elif isinstance(v, ast.Call) and ast.unparse(v.func) == 'struct.Struct' and isinstance(v.args[0], ast.Constant):
                cur[k.value] = v.args[0].value
            else:
                raise TranslateError(f'{tgt}[{k.value}]: value not recognised')
        if off is None:
            raise TranslateError(f'{tgt}: no LEAF_AREA_OFFSET')
        layouts[tgt] = cur
        offs[tgt] = off
    if not layouts:
        raise TranslateError('no LUMP_LAYOUT_* tables found')
    return layouts, offs


# ------------------------------------------------------------------------------------------------ static prop versions
def read_prop_versions(tree: ast.Module) -> tuple[dict[str, tuple[int, int, str]], dict[str, str]]:
    for n in tree.body:
        if isinstance(n, ast.ClassDef) and n.name == 'StaticPropVersion':
            vers: dict[str, tuple[int, int, str]] = {}
            props: dict[str, str] = {}
            for st in n.body:
                if isinstance(st, ast.Assign) and len(st.targets) == 1 and isinstance(st.targets[0], ast.Name):
                    name = st.targets[0].id
                    if isinstance(st.value, ast.Tuple) and all(isinstance(e, ast.Constant) for e in st.value.elts):
                        t = [e.value for e in st.value.elts]
                        vers[name] = (t[0], t[1], t[2] if len(t) > 2 else '')
                    elif isinstance(st.value, ast.Name) and st.value.id in vers:
                        pass        # alias (DEFAULT = V5)
                    else:
                        raise TranslateError(f'StaticPropVersion.{name}: not recognised')
                elif isinstance(st, ast.FunctionDef) and st.name in ('is_lightmap', 'is_sdk_2013'):
                    ret = [s for s in st.body if isinstance(s, ast.Return)]
                    if len(ret) != 1 or not isinstance(ret[0].value, ast.Call) or \
                            ast.unparse(ret[0].value.func) != 'self.name.startswith' or \
                            not isinstance(ret[0].value.args[0], ast.Constant):
                        raise TranslateError(f'StaticPropVersion.{st.name}: not `return self.name.startswith(...)`')
                    props[st.name] = ret[0].value.args[0].value
            if set(props) != {'is_lightmap', 'is_sdk_2013'}:
                raise TranslateError('StaticPropVersion: is_lightmap / is_sdk_2013 not found')
            return vers, props
    raise TranslateError('class StaticPropVersion not found')


class Unknown(Exception):
    pass


class PropWalker:
    """Symbolic execution of the version ladder of _lmp_read_props / _lmp_write_props for one version."""

    def __init__(self, fold: Folder, vname: str, vers: dict[str, tuple[int, int, str]], preds: dict[str, str], write: bool):
        self.fold, self.vname, self.vers, self.preds, self.write = fold, vname, vers, preds, write
        self.vers_num: int = vers[vname][0]
        self.fmts: list[tuple[str, list[str], int]] = []     # (format, field names, line)

    def ev(self, e: ast.AST) -> Any:
        s = ast.unparse(e)
        if s == 'vers_num':
            return self.vers_num
        if s in ('version', 'self.static_prop_version'):
            return ('ver', self.vname)
        if s in ('version.version', 'self.static_prop_version.version'):
            return self.vers[self.vname][0]
        if s in ('version.size',):
            return self.vers[self.vname][1]
        for p, prefix in self.preds.items():
            if s in (f'version.{p}', f'self.static_prop_version.{p}'):
                return self.vname.startswith(prefix)
        if isinstance(e, ast.Attribute) and ast.unparse(e.value) == 'StaticPropVersion':
            if e.attr == 'UNKNOWN':
                return ('ver', 'UNKNOWN')
            if e.attr not in self.vers:
                raise Unknown(s)
            return ('ver', e.attr)
        if isinstance(e, ast.Constant):
            return e.value
        if isinstance(e, ast.Tuple):
            return tuple(self.ev(x) for x in e.elts)
        if isinstance(e, ast.UnaryOp) and isinstance(e.op, ast.Not):
            return not self.ev(e.operand)
        if isinstance(e, ast.BoolOp):
            vals = [self.ev(v) for v in e.values]
            return all(vals) if isinstance(e.op, ast.And) else any(vals)
        if isinstance(e, ast.Compare) and len(e.ops) == 1:
            a, b, op = self.ev(e.left), self.ev(e.comparators[0]), e.ops[0]
            if isinstance(op, (ast.Is, ast.Eq)):
                return a == b
            if isinstance(op, (ast.IsNot, ast.NotEq)):
                return a != b
            if isinstance(op, ast.In):
                return a in b
            if isinstance(op, ast.GtE):
                return a >= b
            if isinstance(op, ast.Gt):
                return a > b
            if isinstance(op, ast.LtE):
                return a <= b
            if isinstance(op, ast.Lt):
                return a < b
        raise Unknown(s)

    def has_site(self, node: ast.AST) -> bool:
        for n in ast.walk(node):
            if isinstance(n, ast.Call) and ast.unparse(n.func) in STRUCT_FUNCS:
                return True
            if isinstance(n, ast.Assign) and any(ast.unparse(t) == 'vers_num' for t in n.targets):
                return True
        return False

    def walk(self, body: list[ast.stmt], in_loop: bool) -> None:
        for st in body:
            if isinstance(st, ast.If):
                try:
                    c = self.ev(st.test)
                except Unknown:
                    if self.has_site(st):
                        raise TranslateError(f'static props: line {st.lineno}: condition `{ast.unparse(st.test)}` guards a '
                                             'struct site but cannot be decided from the version')
                    continue
                self.walk(st.body if c else st.orelse, in_loop)
            elif isinstance(st, ast.For):
                tgt = ast.unparse(st.target)
                is_rec = (not self.write and ast.unparse(st.iter) == 'range(prop_count)') or \
                         (self.write and ast.unparse(st.iter) == 'zip(indexes, props)')
                if is_rec:
                    self.walk(st.body, True)
                elif self.has_site(st) and in_loop:
                    raise TranslateError(f'static props: line {st.lineno}: nested loop with struct site')
                # other loops (model dictionary, leaf array) are covered by STREAMS
            elif isinstance(st, ast.Assign) and any(ast.unparse(t) == 'vers_num' for t in st.targets):
                if not self.write and not in_loop and ast.unparse(st.value) not in ('7',):
                    raise TranslateError(f'static props: line {st.lineno}: vers_num assignment not recognised')
                v = self.ev(st.value) if not isinstance(st.value, ast.Constant) else st.value.value
                self.vers_num = v
            elif in_loop and self.has_site(st):
                self.record(st)

    def record(self, st: ast.stmt) -> None:
        calls = [n for n in ast.walk(st) if isinstance(n, ast.Call) and ast.unparse(n.func) in STRUCT_FUNCS]
        if len(calls) != 1:
            raise TranslateError(f'static props: line {st.lineno}: expected exactly one struct call in the statement')
        call = calls[0]
        fmt = self.fold.fold(call.args[0])
        if not isinstance(fmt, str):
            raise TranslateError(f'static props: line {st.lineno}: format not constant')
        if self.write:
            if ast.unparse(call.func) != 'struct.pack':
                raise TranslateError(f'static props: line {st.lineno}: writer uses {ast.unparse(call.func)}')
            names = [self.write_field(a) for a in call.args[1:]]
        else:
            if ast.unparse(call.func) != 'struct_read':
                raise TranslateError(f'static props: line {st.lineno}: reader uses {ast.unparse(call.func)}')
            names = self.read_targets(st)
        self.fmts.append((fmt, names, st.lineno))

    WRITE_LOCALS = {'model_ind': 'model', 'leaf_off': 'visleafs', 'scaling_1': 'scaling', 'scaling_3': 'scaling'}

    def write_field(self, a: ast.AST) -> str:
        for n in ast.walk(a):
            if isinstance(n, ast.Attribute) and isinstance(n.value, ast.Name) and n.value.id == 'prop':
                return n.attr
        for n in ast.walk(a):
            if isinstance(n, ast.Name) and n.id in self.WRITE_LOCALS:
                return self.WRITE_LOCALS[n.id]
        raise TranslateError(f'static props writer: line {a.lineno}: cannot name the field of `{ast.unparse(a)}`')

    def read_targets(self, st: ast.stmt) -> list[str]:
        if isinstance(st, ast.AugAssign):
            return [ast.unparse(st.target).split('.')[0]]
        if not isinstance(st, ast.Assign) or len(st.targets) != 1:
            raise TranslateError(f'static props reader: line {st.lineno}: statement not recognised')
        t = st.targets[0]
        if isinstance(t, (ast.Tuple, ast.List)):
            return [ast.unparse(x).split('.')[0] for x in t.elts]
        return [ast.unparse(t).split('.')[0]]     # origin = Vec(struct_read('fff', ..)): one name for the whole record


def read_var_to_attr(fn: ast.FunctionDef, cls_fields: list[str]) -> dict[str, str]:
    """Reader: local variable -> StaticProp attribute, through the positional constructor call."""
    ctor = [n for n in ast.walk(fn) if isinstance(n, ast.Call) and ast.unparse(n.func) == 'StaticProp']
    if len(ctor) != 1 or ctor[0].keywords:
        raise TranslateError('static props reader: StaticProp(...) call not recognised')
    args = ctor[0].args
    if len(args) != len(cls_fields) or not all(isinstance(a, ast.Name) for a in args):
        raise TranslateError('static props reader: StaticProp(...) arguments are not one name per field')
    m = {a.id: f for a, f in zip(args, cls_fields)}
    # variables that only feed a constructor argument: v -> attr of the argument whose defining expression uses v
    for n in ast.walk(fn):
        if isinstance(n, ast.Assign) and len(n.targets) == 1 and isinstance(n.targets[0], ast.Name) and n.targets[0].id in m:
            for sub in ast.walk(n.value):
                if isinstance(sub, ast.Name) and sub.id not in m and sub.id not in ('Vec', 'set', 'model_dict', 'visleaf_list',
                                                                                     'StaticPropFlags', 'struct_read', 'static_lump', 'Angle'):
                    m.setdefault(sub.id, m[n.targets[0].id])
    return m


def attrs_fields(tree: ast.Module, cls: str) -> list[str]:
    for n in tree.body:
        if isinstance(n, ast.ClassDef) and n.name == cls:
            return [s.target.id for s in n.body if isinstance(s, ast.AnnAssign) and isinstance(s.target, ast.Name)]
    raise TranslateError(f'class {cls} not found')


# ------------------------------------------------------------------------------------------------ Ns guards
def find_guard(fn: ast.FunctionDef, call: ast.Call, exprs: list[str], fold: 'Folder | None' = None) -> tuple[int, int] | None:
    """A dominating `if len(E) <cmp> K: raise ...` before `call` where E is one of the packed expressions.
    Returns (min_len, max_len) admitted by the guard(s)."""
    parents: dict[int, ast.AST] = {}
    for p in ast.walk(fn):
        for ch in ast.iter_child_nodes(p):
            parents[id(ch)] = p
    # chain of (block owner, statement) from the call upwards
    doms: list[ast.stmt] = []
    cur: ast.AST = call
    while id(cur) in parents:
        par = parents[id(cur)]
        for field in ('body', 'orelse', 'finalbody'):
            blk = getattr(par, field, None)
            if isinstance(blk, list) and cur in blk:
                doms += blk[:blk.index(cur)]
        cur = par
    lo, hi = 0, None
    # a guard inside an earlier `if c:` block counts when the guarded expression enters the packed tuple in that same
    # block, after the guard (the value cannot reach the pack call any other way)
    nested: list[ast.stmt] = []
    for st in doms:
        if isinstance(st, ast.If) and not (st.body and isinstance(st.body[-1], ast.Raise)):
            for i, g in enumerate(st.body):
                if isinstance(g, ast.If) and g.body and isinstance(g.body[-1], ast.Raise) and isinstance(g.test, ast.Compare) \
                        and isinstance(g.test.left, ast.Call) and ast.unparse(g.test.left.func) == 'len':
                    e = ast.unparse(g.test.left.args[0])
                    if any(isinstance(a, ast.Assign) and isinstance(a.value, ast.Tuple)
                           and e in [ast.unparse(x) for x in a.value.elts] for a in st.body[i + 1:]):
                        nested.append(g)
    for st in doms + nested:
        if not isinstance(st, ast.If) or st.orelse or not st.body or not isinstance(st.body[-1], ast.Raise):
            continue
        t = st.test
        if not (isinstance(t, ast.Compare) and len(t.ops) == 1 and isinstance(t.left, ast.Call) and ast.unparse(t.left.func) == 'len'):
            continue
        # the bound: a literal, or a constant expression over module-level constants (`LIMIT`, `LIMIT - 1`)
        try:
            k = fold.fold(t.comparators[0]) if fold is not None else (t.comparators[0].value if isinstance(t.comparators[0], ast.Constant) else None)
        except (KeyError, TranslateError):
            k = None
        if type(k) is not int:
            continue
        if ast.unparse(t.left.args[0]) not in exprs:
            continue
        op = t.ops[0]
        if isinstance(op, ast.Gt):
            hi = k if hi is None else min(hi, k)
        elif isinstance(op, ast.GtE):
            hi = k - 1 if hi is None else min(hi, k - 1)
        elif isinstance(op, ast.NotEq):
            hi = k if hi is None else min(hi, k)
            lo = max(lo, k)
    return None if hi is None else (lo, hi)


def packed_exprs(fn: ast.FunctionDef, call: ast.Call) -> list[str]:
    """Source text of the values handed to a pack call (through one level of `*name` tuple building)."""
    out: list[str] = []
    args = call.args if ast.unparse(call.func).endswith('.pack') and not ast.unparse(call.func) == 'struct.pack' else call.args[1:]
    for a in args:
        if isinstance(a, ast.Starred) and isinstance(a.value, ast.Name):
            for n in ast.walk(fn):
                if isinstance(n, (ast.Assign, ast.AnnAssign)):
                    tg = n.targets[0] if isinstance(n, ast.Assign) else n.target
                    if isinstance(tg, ast.Name) and tg.id == a.value.id and isinstance(n.value, ast.Tuple):
                        out += [ast.unparse(e) for e in n.value.elts]
        else:
            out.append(ast.unparse(a))
    return out


# ------------------------------------------------------------------------------------------------ main
def translate() -> tuple[str, dict]:
    from translate import c11_norm
    tree = c11_norm.module(src_text('bsp.py'))
    consts: dict[str, Any] = {}
    for n in tree.body:
        if isinstance(n, ast.Assign) and len(n.targets) == 1 and isinstance(n.targets[0], ast.Name) \
                and isinstance(n.value, ast.Constant) and isinstance(n.value.value, (str, int)) and not isinstance(n.value.value, bool):
            consts[n.targets[0].id] = n.value.value
    for need in ('OVERLAY_FACE_COUNT', 'TEXINFO_IND_TYPE'):
        if need not in consts:
            raise TranslateError(f'module constant {need} not found')
    fold = Folder(consts)
    layouts, offs = read_layouts(tree)

    bsp_cls = next((n for n in tree.body if isinstance(n, ast.ClassDef) and n.name == 'BSP'), None)
    if bsp_cls is None:
        raise TranslateError('class BSP not found')
    fns: dict[str, ast.FunctionDef] = {f.name: f for f in bsp_cls.body if isinstance(f, ast.FunctionDef)}
    helpers = {f.name: f for f in tree.body if isinstance(f, ast.FunctionDef)}
    sites: dict[str, list[dict]] = {}
    helper_sites: dict[str, list[dict]] = {}
    for name, f in helpers.items():
        hs = census(f, fold)
        if hs:
            helper_sites[name] = hs
    helper_called: set[str] = set()
    for name, f in fns.items():
        s = census(f, fold, helper_sites)
        if s:
            sites[name] = s
            helper_called |= {x['via'] for x in s if 'via' in x}
    for name in helper_sites:
        if name not in helper_called:
            raise TranslateError(f'{name}: module-level function with struct sites is not called by any lump reader/writer')
    side: dict[str, Any] = {'sites': {fn: [[s['line'], s['call'], s['desc'][0], s['desc'][1] if s['desc'][0] != 'template' else '<f-string>']
                                           for s in ss] for fn, ss in sites.items()}}

    used: set[tuple[str, int]] = set()

    def site(fn: str, k: int) -> dict:
        if fn not in sites or k >= len(sites[fn]):
            raise TranslateError(f'{fn}: struct site #{k} expected by the pairing table does not exist '
                                 f'(function has {len(sites.get(fn, []))} sites)')
        if (fn, k) in used and not fn.startswith('_read_static_props_models'):
            pass
        used.add((fn, k))
        return sites[fn][k]

    stream_lines = []
    for name, appl, ralts, walts in STREAMS:
        def alts(al):
            return '[' + '; '.join('[' + '; '.join(site_coq(site(fn, k)['desc']) for fn, k in alt) + ']' for alt in al) + ']'
        stream_lines.append(f'  ({coq_s(name)}, {coq_s(appl)}, {alts(ralts)}, {alts(walts)})')

    # ---- overlays
    ord_ = site(*OVERLAY_READ)
    if ord_['desc'][0] != 'lit':
        raise TranslateError('overlay reader format not constant')
    ow = [site(fn, k) for fn, k in OVERLAY_WRITE]
    if [s['desc'][0] for s in ow] != ['lit', 'template', 'lit', 'lit']:
        raise TranslateError('overlay writer: expected head, face-block f-string, uv, handles')
    fw = fns['_lmp_write_overlays']
    bound = None
    for n in ast.walk(fw):
        if isinstance(n, ast.If) and n.body and isinstance(n.body[0], ast.Raise) and isinstance(n.test, ast.Compare) \
                and ast.unparse(n.test.left) == 'face_cnt' and len(n.test.ops) == 1:
            k = fold.fold(n.test.comparators[0])
            bound = k if isinstance(n.test.ops[0], ast.Gt) else k - 1 if isinstance(n.test.ops[0], ast.GtE) else None
    if bound is None:
        raise TranslateError('overlay writer: no `if face_cnt > N: raise` bound found')
    tmpl = ow[1]['desc'][1]
    face_fmts = []
    for n in range(0, bound + 1):
        face_fmts.append((n, fold.fold(tmpl, {'face_cnt': n})))
    rfold = fns['_lmp_read_overlays']
    rbound = None
    for n in ast.walk(rfold):
        if isinstance(n, ast.If) and n.body and isinstance(n.body[0], ast.Raise) and isinstance(n.test, ast.Compare) \
                and ast.unparse(n.test.left) == 'face_count' and isinstance(n.test.ops[0], ast.Gt):
            rbound = fold.fold(n.test.comparators[0])
    if rbound is None:
        raise TranslateError('overlay reader: face_count bound not found')

    # ---- static prop records per version
    vers, preds = read_prop_versions(tree)
    sp_fields = attrs_fields(tree, 'StaticProp')
    v2a = read_var_to_attr(fns['_lmp_read_props'], sp_fields)
    prop_lines, field_lines = [], []
    side['prop_versions'] = {}
    for vname, (vnum, vsize, variant) in vers.items():
        if vname == 'UNKNOWN':
            continue
        rw = PropWalker(fold, vname, vers, preds, write=False)
        rw.walk(fns['_lmp_read_props'].body, False)
        ww = PropWalker(fold, vname, vers, preds, write=True)
        ww.walk(fns['_lmp_write_props'].body, False)
        rnames = []
        for fmt, names, line in rw.fmts:
            for nm in names:
                if nm not in v2a:
                    raise TranslateError(f'static props reader: line {line}: variable {nm} does not reach StaticProp(...)')
                rnames.append(v2a[nm])
        wnames = [nm for _, names, _ in ww.fmts for nm in names]
        for nm in wnames:
            if nm not in sp_fields:
                raise TranslateError(f'static props writer: field {nm} is not an attribute of StaticProp')
        # one name per struct value on the writer side, one per assignment target on the reader side: compare the
        # sequences with consecutive repetitions merged.
        def squash(l):
            out = []
            for x in l:
                if not out or out[-1] != x:
                    out.append(x)
            return out
        prop_lines.append(f'  ({coq_s(vname)}, {vsize}%nat, [{"; ".join(coq_s(f) for f, _, _ in rw.fmts)}], '
                          f'[{"; ".join(coq_s(f) for f, _, _ in ww.fmts)}])')
        field_lines.append(f'  ({coq_s(vname)}, [{"; ".join(coq_s(x) for x in squash(rnames))}], [{"; ".join(coq_s(x) for x in squash(wnames))}])')
        side['prop_versions'][vname] = {'size': vsize, 'read': [f for f, _, _ in rw.fmts], 'write': [f for f, _, _ in ww.fmts],
                                        'read_fields': squash(rnames), 'write_fields': squash(wnames)}
    # the record sites are consumed by the walk
    for fn, first in (('_lmp_read_props', 3), ('_lmp_write_props', 5)):
        for k in range(first, len(sites[fn])):
            used.add((fn, k))

    # ---- every site must be accounted for
    for fn, ss in sites.items():
        if fn in CONTAINER_FUNCS or fn in ('static_prop_models',):
            continue
        for k, s in enumerate(ss):
            if (fn, k) not in used:
                raise TranslateError(f'{fn}: line {s["line"]}: struct site #{k} ({s["desc"][0]}) is not paired with a partner')

    # ---- Ns pack sites and their guards
    ns_lines = []
    side['ns_sites'] = []
    for fn, ss in sites.items():
        if fn in CONTAINER_FUNCS:
            continue
        is_writer = '_write_' in fn or fn.startswith('_pack') or fn.startswith('_encode')
        for k, s in enumerate(ss):
            d = s['desc']
            widths: list[tuple[str, int]] = []
            if d[0] == 'lit':
                w = _s_width(d[1])
                if w is not None:
                    widths.append(('*', w))
            elif d[0] == 'key':
                appl = next((a for _, a, _, wal in STREAMS if any((fn, k) in alt for alt in wal)), ALL)
                for lname, lay in layouts.items():
                    short = lname.replace('LUMP_LAYOUT_', '')
                    if (appl == VIT and short != 'VITAMIN') or (appl == NONVIT and short == 'VITAMIN'):
                        continue
                    w = _s_width(lay.get(d[1], ''))
                    if w is not None:
                        widths.append((short, w))
            if not widths:
                continue
            # is it a pack site?  literal: struct.pack ; layout: look for `.pack(` on the subscript or its alias
            f = s['owner']
            calls = _pack_calls(f, s)
            if not calls:
                if is_writer:
                    raise TranslateError(f'{fn}: line {s["line"]}: Ns format in a writer but no pack call found for it')
                continue
            for call in calls:
                g = find_guard(f, call, packed_exprs(f, call), fold)
                for lname, w in widths:
                    nm = f'{fn}:{s["line"]}:{lname}'
                    ns_lines.append(f'  ({coq_s(nm)}, {w}%nat, {"None" if g is None else "Some (%d%%nat, %d%%nat)" % g})')
                    side['ns_sites'].append({'site': nm, 'width': w, 'guard': g, 'line': call.lineno})
    if not ns_lines:
        raise TranslateError('no Ns pack site found at all (the census is broken)')

    # ---- detail prop dispatch
    hier = []
    for n in tree.body:
        if isinstance(n, ast.ClassDef) and n.name.startswith('DetailProp') and n.name != 'DetailPropOrientation':
            if len(n.bases) > 1:
                raise TranslateError(f'{n.name}: multiple bases')
            hier.append((n.name, ast.unparse(n.bases[0]) if n.bases else ''))
    fwd = fns['_lmp_write_detail_props']
    chain = None
    for n in ast.walk(fwd):
        if isinstance(n, ast.If) and ast.unparse(n.test).startswith('isinstance(prop,'):
            chain = n
            break
    if chain is None:
        raise TranslateError('detail prop writer: isinstance chain not found')
    wdisp = []
    cur: Any = chain
    while True:
        t = cur.test
        if not (isinstance(t, ast.Call) and ast.unparse(t.func) == 'isinstance' and len(t.args) == 2
                and ast.unparse(t.args[0]) == 'prop' and isinstance(t.args[1], ast.Name)):
            raise TranslateError(f'detail prop writer: line {cur.lineno}: test not `isinstance(prop, Class)`')
        codes = None
        for st in cur.body:
            if isinstance(st, ast.Assign) and ast.unparse(st.targets[0]) == 'detail_type':
                v = st.value
                if isinstance(v, ast.Constant):
                    codes = [v.value]
                elif isinstance(v, ast.IfExp) and isinstance(v.body, ast.Constant) and isinstance(v.orelse, ast.Constant):
                    codes = [v.body.value, v.orelse.value]
        if codes is None:
            raise TranslateError(f'detail prop writer: line {cur.lineno}: detail_type not assigned a constant')
        wdisp.append((t.args[1].id, codes))
        if len(cur.orelse) == 1 and isinstance(cur.orelse[0], ast.If):
            cur = cur.orelse[0]
        else:
            if not (cur.orelse and isinstance(cur.orelse[-1], ast.Raise)):
                raise TranslateError('detail prop writer: chain does not end in raise')
            break
    frd = fns['_lmp_read_detail_props']
    rdisp = []
    for n in ast.walk(frd):
        if isinstance(n, ast.If) and ast.unparse(n.test).startswith('detail_type'):
            cur = n
            while True:
                t = cur.test
                if isinstance(t, ast.Compare) and isinstance(t.ops[0], ast.Eq) and isinstance(t.comparators[0], ast.Constant):
                    cs = [t.comparators[0].value]
                elif isinstance(t, ast.Compare) and isinstance(t.ops[0], ast.In) and isinstance(t.comparators[0], ast.Tuple):
                    cs = [e.value for e in t.comparators[0].elts]
                else:
                    raise TranslateError(f'detail prop reader: line {cur.lineno}: test not recognised')
                ys = [y for y in ast.walk(ast.Module(body=cur.body, type_ignores=[])) if isinstance(y, ast.Yield)]
                if len(ys) != 1 or not isinstance(ys[0].value, ast.Call):
                    raise TranslateError(f'detail prop reader: line {cur.lineno}: branch does not yield one object')
                for c in cs:
                    rdisp.append((c, ast.unparse(ys[0].value.func)))
                if len(cur.orelse) == 1 and isinstance(cur.orelse[0], ast.If):
                    cur = cur.orelse[0]
                else:
                    break
            break
    if not rdisp:
        raise TranslateError('detail prop reader: detail_type dispatch not found')

    # ---- find_or_extend candidate test (binformat.py)
    btree = ast.parse(src_text('binformat.py'))
    bounded = None
    for n in ast.walk(btree):
        if isinstance(n, ast.FunctionDef) and n.name == 'find_or_extend':
            for m in ast.walk(n):
                if isinstance(m, ast.For) and ast.unparse(m.target) == 'i' and ast.unparse(m.iter) == 'indices':
                    if len(m.body) != 1 or not isinstance(m.body[0], ast.If) or ast.unparse(m.body[0].body[0]) != 'return i':
                        raise TranslateError('find_or_extend: candidate loop not recognised')
                    bounded = _fe_bounded(m.body[0].test)
            side['find_or_extend_digest'] = ast_digest(n)
        if isinstance(n, ast.FunctionDef) and n.name == 'find_or_insert':
            side['find_or_insert_digest'] = ast_digest(n)
    if bounded is None:
        raise TranslateError('find_or_extend: candidate loop not found')
    for n in tree.body:
        if isinstance(n, ast.FunctionDef) and n.name in ('runlength_encode', 'runlength_decode'):
            side[n.name + '_digest'] = ast_digest(n)

    lay_names = {'LUMP_LAYOUT_STANDARD': 'STANDARD', 'LUMP_LAYOUT_V19': 'V19', 'LUMP_LAYOUT_INFRA': 'INFRA',
                 'LUMP_LAYOUT_VITAMIN': 'VITAMIN', 'LUMP_LAYOUT_CHAOS': 'CHAOS'}
    for ln in layouts:
        if ln not in lay_names:
            raise TranslateError(f'unknown layout table {ln}')
    L = ['(* GENERATED by translate/c11_formats.py from src/srctools/bsp.py and binformat.py. Do not edit. *)',
         'From Coq Require Import List String NArith.', 'From SV Require Import Fmt.BspFormatsSpec.',
         'Import ListNotations.', 'Open Scope string_scope.',
         'Definition layouts : list (string * list (string * string)) := [',
         ';\n'.join('  (%s, [%s])' % (coq_s(lay_names[ln]), '; '.join(f'({coq_s(k)}, {coq_s(v)})' for k, v in lay.items()))
                    for ln, lay in layouts.items()),
         '].',
         'Definition leaf_area_offset : list (string * nat) := [' +
         '; '.join(f'({coq_s(lay_names[ln])}, {o}%nat)' for ln, o in offs.items()) + '].',
         'Definition streams : list stream := [', ';\n'.join(stream_lines), '].',
         f'Definition overlay_reader : string := {coq_s(ord_["desc"][1])}.',
         f'Definition overlay_writer_head : string := {coq_s(ow[0]["desc"][1])}.',
         f'Definition overlay_writer_tail : list string := [{coq_s(ow[2]["desc"][1])}; {coq_s(ow[3]["desc"][1])}].',
         f'Definition overlay_face_count : nat := {consts["OVERLAY_FACE_COUNT"]}%nat.',
         f'Definition overlay_writer_max_faces : nat := {bound}%nat.',
         f'Definition overlay_reader_max_faces : nat := {rbound}%nat.',
         'Definition overlay_face_fmts : list (nat * string) := [',
         ';\n'.join(f'  ({n}%nat, {coq_s(s)})' for n, s in face_fmts), '].',
         '(* static prop record per version: name, declared size, formats read in order, formats written in order *)',
         'Definition prop_versions : list (string * nat * list string * list string) := [', ';\n'.join(prop_lines), '].',
         '(* StaticProp attributes in file order, reader side / writer side (consecutive repetitions merged) *)',
         'Definition prop_fields : list (string * list string * list string) := [', ';\n'.join(field_lines), '].',
         '(* every pack site with an Ns field: site, field width, (min,max) length admitted by a dominating guard *)',
         'Definition ns_sites : list (string * nat * option (nat * nat)) := [', ';\n'.join(ns_lines), '].',
         'Definition detail_classes : list (string * string) := [' + '; '.join(f'({coq_s(c)}, {coq_s(b)})' for c, b in hier) + '].',
         'Definition detail_write_dispatch : list (string * list nat) := [' +
         '; '.join(f'({coq_s(c)}, [{"; ".join(str(x) + "%nat" for x in cs)}])' for c, cs in wdisp) + '].',
         'Definition detail_read_dispatch : list (nat * string) := [' +
         '; '.join(f'({c}%nat, {coq_s(k)})' for c, k in rdisp) + '].',
         f'Definition find_or_extend_bounded : bool := {"true" if bounded else "false"}.',
         '']
    side.update(layouts={lay_names[k]: v for k, v in layouts.items()}, leaf_area_offset={lay_names[k]: v for k, v in offs.items()},
                overlay={'reader': ord_['desc'][1], 'writer_max_faces': bound, 'reader_max_faces': rbound},
                detail={'classes': hier, 'write': wdisp, 'read': rdisp}, find_or_extend_bounded=bounded,
                n_streams=len(STREAMS))
    return '\n'.join(L), side


def _s_width(fmt: str) -> int | None:
    import re
    m = re.search(r'(\d*)s', fmt)
    if not m:
        return None
    return int(m.group(1) or '1')


def _pack_calls(f: ast.FunctionDef, s: dict) -> list[ast.Call]:
    node = s['node']
    if s['call'] == 'struct.pack':
        return [node]
    if s['call'] in ('struct.unpack', 'struct.unpack_from', 'struct.iter_unpack', 'struct_read', 'read_array', 'write_array', 'defer'):
        return []
    # layout subscript or struct.Struct: `.pack(` applied directly or through a local alias
    out = []
    aliases = set()
    for n in ast.walk(f):
        if isinstance(n, ast.Assign) and n.value is node and isinstance(n.targets[0], ast.Name):
            aliases.add(n.targets[0].id)
    for n in ast.walk(f):
        if isinstance(n, ast.Call) and isinstance(n.func, ast.Attribute) and n.func.attr == 'pack':
            if n.func.value is node or (isinstance(n.func.value, ast.Name) and n.func.value.id in aliases):
                out.append(n)
    return out


def _fe_bounded(test: ast.AST) -> bool:
    """Does the candidate test of find_or_extend compare lengths before trusting zip()?"""
    def is_all(e):
        return isinstance(e, ast.Call) and ast.unparse(e.func) == 'all' and 'zip(items' in ast.unparse(e)
    if is_all(test):
        return False
    if isinstance(test, ast.BoolOp) and isinstance(test.op, ast.And) and len(test.values) == 2 and is_all(test.values[1]):
        c = ast.unparse(test.values[0]).replace(' ', '')
        if c in ('i+len(items)<=len(item_list)', 'len(item_list)>=i+len(items)', 'len(items)<=len(item_list)-i',
                 'len(item_list)-i>=len(items)'):
            return True
    raise TranslateError(f'find_or_extend: candidate test not recognised: {ast.unparse(test)[:120]}')


GEN = {'BspFormats_gen': translate}
