"""C20 translator `QuantSites_gen` (fail-closed, Python ast): the quantisation sites of the binary choreo format.

choreo.py stores tag positions, ramp samples and flex-track samples as small integers: the writer computes
`min(MAX, max(0, round(value * FACTOR)))`, the reader `field / FACTOR`.  For every class with an `export_binary` / `parse_binary` pair
this module reads, in source order,

  * writer sites: every `round(x * F)` / `int(x * F)` (F a float literal or the class variable `cls._FACTOR` / `self._FACTOR`,
    resolved per concrete class incl. inherited values), with the clamp around it (`min(MAX, max(0, ...))` in either argument order,
    MAX an int literal or `cls._MAX`); a conversion without a clamp, or a clamp of another shape: TranslateError;
  * reader sites: every `x / F` with such an F;

and pairs them by position (the k-th conversion of the writer with the k-th division of the reader; different counts:
TranslateError).  A method inherited unchanged by a subclass that overrides the class variables (TimingTag, AbsoluteTag) gives one
site per concrete class.  Emitted: `cq_sites : list (string * qsite)` for Fmt/ChoreoQuant.v.
"""
from __future__ import annotations

import ast

from harness.common import TranslateError, src_text

CLASSVARS = ('_FACTOR', '_MAX')


def _fhex(x: float) -> str:
    if x != x or x in (float('inf'), float('-inf')) or x <= 0:
        raise TranslateError(f'choreo.py: quantisation factor {x!r} is not a positive finite number')
    return float(x).hex() + '%float'


def _classvars(tree: ast.Module) -> dict[str, dict[str, float | int]]:
    raw = {n.name: n for n in tree.body if isinstance(n, ast.ClassDef)}
    out: dict[str, dict[str, float | int]] = {}

    def get(c: str) -> dict[str, float | int]:
        if c in out:
            return out[c]
        d: dict[str, float | int] = {}
        for b in raw[c].bases:
            if ast.unparse(b) in raw:
                d.update(get(ast.unparse(b)))
        for s in raw[c].body:
            tgt = val = None
            if isinstance(s, ast.AnnAssign) and isinstance(s.target, ast.Name):
                tgt, val = s.target.id, s.value
            elif isinstance(s, ast.Assign) and len(s.targets) == 1 and isinstance(s.targets[0], ast.Name):
                tgt, val = s.targets[0].id, s.value
            if tgt in CLASSVARS:
                if not (isinstance(val, ast.Constant) and isinstance(val.value, (int, float)) and not isinstance(val.value, bool)):
                    raise TranslateError(f'choreo.py: {c}.{tgt} is not a numeric literal')
                d[tgt] = val.value
        out[c] = d
        return d
    for c in raw:
        get(c)
    return out


def _num(e: ast.AST, cv: dict[str, float | int], want_float: bool, where: str) -> float | int | None:
    """A literal or cls._X / self._X resolved through the class variables; None if `e` is neither."""
    if isinstance(e, ast.Constant) and isinstance(e.value, (int, float)) and not isinstance(e.value, bool):
        if want_float and not isinstance(e.value, float):
            return None
        return e.value
    if isinstance(e, ast.Attribute) and isinstance(e.value, ast.Name) and e.value.id in ('cls', 'self') and e.attr in CLASSVARS:
        if e.attr not in cv:
            raise TranslateError(f'{where}: {ast.unparse(e)} has no value in this class')
        v = cv[e.attr]
        if want_float and not isinstance(v, float):
            return None
        return v
    return None


def _ordered(fn: ast.FunctionDef, kind: type) -> list[ast.AST]:
    return sorted((n for n in ast.walk(fn) if isinstance(n, kind)), key=lambda n: (n.lineno, n.col_offset))


def _conv(e: ast.AST, cv: dict, where: str) -> tuple[str, float] | None:
    """round(x * F) / int(x * F) -> (mode, F)"""
    if isinstance(e, ast.Call) and isinstance(e.func, ast.Name) and e.func.id in ('round', 'int') and len(e.args) == 1 and not e.keywords:
        a = e.args[0]
        if isinstance(a, ast.BinOp) and isinstance(a.op, ast.Mult):
            f = _num(a.right, cv, True, where)
            if f is None:
                f = _num(a.left, cv, True, where)
            if f is not None:
                return ('QRound' if e.func.id == 'round' else 'QTrunc', float(f))
    return None


def writer_sites(fn: ast.FunctionDef, cv: dict, where: str) -> list[tuple[str, float, int]]:
    convs = [c for c in _ordered(fn, ast.Call) if _conv(c, cv, where) is not None]
    clamped: dict[int, int] = {}
    for c in _ordered(fn, ast.Call):
        if isinstance(c.func, ast.Name) and c.func.id == 'min' and len(c.args) == 2 and not c.keywords:
            for hi, inner in ((c.args[0], c.args[1]), (c.args[1], c.args[0])):
                mx = _num(hi, cv, False, where)
                if mx is None or isinstance(mx, float):
                    continue
                if isinstance(inner, ast.Call) and isinstance(inner.func, ast.Name) and inner.func.id == 'max' and len(inner.args) == 2:
                    for lo, r in ((inner.args[0], inner.args[1]), (inner.args[1], inner.args[0])):
                        if isinstance(lo, ast.Constant) and lo.value == 0 and isinstance(lo.value, int) and not isinstance(lo.value, bool) \
                                and _conv(r, cv, where) is not None:
                            clamped[id(r)] = int(mx)
    out = []
    for c in convs:
        if id(c) not in clamped:
            raise TranslateError(f'{where}: {ast.unparse(c)} is not inside min(MAX, max(0, ...)): the field range is not known')
        mode, f = _conv(c, cv, where)      # type: ignore[misc]
        out.append((mode, f, clamped[id(c)]))
    return out


def reader_sites(fn: ast.FunctionDef, cv: dict, where: str) -> list[float]:
    out = []
    for b in _ordered(fn, ast.BinOp):
        if isinstance(b.op, ast.Div):        # type: ignore[attr-defined]
            f = _num(b.right, cv, True, where)      # type: ignore[attr-defined]
            if f is not None:
                out.append(float(f))
    return out


def translate_quant() -> tuple[str, dict]:
    tree = ast.parse(src_text('choreo.py'))
    raw = {n.name: n for n in tree.body if isinstance(n, ast.ClassDef)}
    cvs = _classvars(tree)

    def method(c: str, name: str) -> tuple[ast.FunctionDef, str] | None:
        for s in raw[c].body:
            if isinstance(s, ast.FunctionDef) and s.name == name:
                return s, c
        for b in raw[c].bases:
            if ast.unparse(b) in raw:
                m = method(ast.unparse(b), name)
                if m is not None:
                    return m
        return None
    sites: list[tuple[str, str]] = []
    info: dict[str, list] = {}
    for c in raw:
        w, r = method(c, 'export_binary'), method(c, 'parse_binary')
        if w is None or r is None:
            continue
        # a class that inherits both methods AND the class variables unchanged is the same site as its base
        if w[1] != c and r[1] != c and cvs[c] == cvs[w[1]]:
            continue
        where = f'choreo.py: {c}'
        ws = writer_sites(w[0], cvs[c], f'{where}.export_binary')
        rs = reader_sites(r[0], cvs[c], f'{where}.parse_binary')
        if not ws and not rs:
            continue
        if len(ws) != len(rs):
            raise TranslateError(f'{where}: {len(ws)} conversions in export_binary against {len(rs)} divisions in parse_binary')
        for k, ((mode, wf, mx), rf) in enumerate(zip(ws, rs), 1):
            sites.append((f'{c}#{k}', f'mkQ {mode} {_fhex(wf)} true {mx} {_fhex(rf)}'))
            info.setdefault(c, []).append({'mode': mode, 'write_factor': wf, 'max': mx, 'read_factor': rf})
    if not sites:
        raise TranslateError('choreo.py: no quantisation site found')
    lines = [
        '(* GENERATED by translate/c20_quant.py from choreo.py (export_binary / parse_binary). Do not edit. *)',
        'From Coq Require Import ZArith List String Floats.', 'Import ListNotations.', 'Open Scope string_scope.', 'Open Scope Z_scope.',
        'From SV Require Import Fmt.ChoreoQuant.',
        'Definition cq_sites : list (string * qsite) := [',
        ';\n'.join(f'  ("{n}", {q})' for n, q in sites), '].',
        'Definition cq_site_ok (s : string * qsite) : bool :=',
        '  qsite_eqb (snd s) site_byte || qsite_eqb (snd s) site_abs || ((q_max (snd s) <=? 4095) && all_stable (snd s)).',
        'Definition cq_all_sites_stable : bool := forallb cq_site_ok cq_sites.',
        'Definition cq_factors_agree : bool := forallb (fun s : string * qsite => PrimFloat.eqb (q_wfactor (snd s)) (q_rfactor (snd s))) cq_sites.',
        f'Definition cq_census_size_ok : bool := Nat.leb 4 (List.length cq_sites).',
        'Definition cq_site (n : string) : qsite :=',
        '  match find (fun s : string * qsite => String.eqb n (fst s)) cq_sites with Some s => snd s | None => mkQ QRound 1%float true 0 1%float end.',
        '',
    ]
    return '\n'.join(lines), {'sites': info, 'n_sites': len(sites)}


GEN = {'QuantSites_gen': translate_quant}
