"""C20 translator `KeyTables_gen` (fail-closed, Python ast): every *keyed table* of the eight secondary-format writers and of their
readers, WITH the comparison the key goes through.

A writer that numbers objects (SMD bones -> node indexes, scene strings -> pool indexes, particle systems -> elements, scenes.image
entries -> deferred slots / data blobs) does it through a dict, a set, `binformat.find_or_insert` or `binformat.DeferredWrites`.  Two
objects whose keys are equal get ONE number; so what the reader finds under the number is the requested object only if the key
tells apart everything the format (= the reader) tells apart.  The key of `dict[Bone, int]` is not visible at the table: it is
`Bone.__eq__` / `Bone.__hash__`.  This module therefore reads from today's source

  * a census of how the objects of every class of the six modules compare and hash: hand-written `__eq__` / `__ne__` / `__hash__`
    (the attributes they read and the str transformation each goes through), attrs `eq=False` (identity), attrs value classes
    (`frozen`: value; plain `define`: unhashable), plain classes (identity);
  * every table in the writer functions (annotated / assigned dict, set, defaultdict, `dict.fromkeys`, comprehension,
    `find_or_insert`, `DeferredWrites`) with all key expressions used on it (subscripts, `in`, get / pop / add / discard / defer /
    set_data, the elements given to `dict.fromkeys`), normalised to a `keyspec` of Fmt/BspDedup.v: identity, value, or a list of
    (attribute, transformation) -- for an object key the attributes its class compares;
  * the key under which each reader stores the objects it returns (`{bone.name: bone ...}`, `systems[elem.name.casefold()] = ...`,
    `scenes[crc] = Entry('', crc, ...)`, `sequences[seq_name] = ...`, the positional `string_pool[i]`): the attributes are what
    identifies an object in the format, the transformations are the ones the format itself identifies names under.

Emitted: `kt_classes`, `kt_tables : list dedup_table` = (name, admitted transformations = the reader's, identifying attributes = the
reader's, keyspec of the writer), `kt_reader_keys`, `kt_mixed` (tables whose store and lookup expressions normalise differently).
Hard-wired: which function is a writer / reader, the class whose objects a str-keyed writer table stands for (WRITER_ITEM), the set of
str methods treated as transformations.  A table, key expression, comparison method or decorator that cannot be classified ->
TranslateError.
"""
from __future__ import annotations

import ast
import re
from typing import Any

from harness.common import TranslateError, src_text

STR_TRANSFORMS = {'casefold', 'lower', 'upper', 'strip', 'rstrip', 'lstrip', 'title', 'capitalize', 'swapcase'}
VALUE = '<value>'
MODULES = ['cmdseq.py', 'smd.py', 'sndscript.py', 'vmt.py', 'particles.py', 'choreo.py']
# (class or None, function); choreo export_text / export_binary methods of every class are added by name
WRITERS = {'cmdseq.py': [(None, 'write')], 'smd.py': [('Mesh', 'export')], 'sndscript.py': [('Sound', 'export')],
           'vmt.py': [('Material', 'export'), ('Material', '_write_block')], 'particles.py': [('Particle', 'export')],
           'choreo.py': [(None, 'save_scenes_image_sync')]}
CHOREO_WRITER_METHODS = ('export_text', 'export_binary')
# reader function -> (result table: local name or '<dictcomp>', class of the stored objects)
READERS = {'cmdseq.py': [(None, 'parse', 'sequences', 'cmdseq.<sequence>')], 'smd.py': [('Mesh', 'parse_smd', '<dictcomp>', 'smd.Bone')],
           'sndscript.py': [('Sound', 'parse', '<dictcomp>', 'sndscript.Sound')],
           'particles.py': [('Particle', 'parse', 'systems', 'particles.Particle')],
           'choreo.py': [(None, 'parse_scenes_image', 'scenes', 'choreo.Entry')]}
# str-keyed / tuple-keyed writer tables: the class of the objects the key stands for
WRITER_ITEM = {'particles.Particle.export:name_to_elem': 'particles.Particle',
               'choreo.save_scenes_image_sync:deferred': 'choreo.Entry',
               'choreo.save_scenes_image_sync:add_to_pool': 'choreo.<pool string>'}
TABLE_CTORS = ('dict', 'set', 'defaultdict', 'collections.defaultdict', 'OrderedDict', 'frozenset', 'dict.fromkeys', 'Counter')
KEY_METHODS = ('get', 'pop', 'setdefault', 'add', 'discard', 'remove', '__getitem__', '__contains__')
DEFER_METHODS = ('defer', 'set_data', 'pos_of')


def coq_s(s: str) -> str:
    return '"' + s.replace('"', "'") + '"'


def coq_pairs(ps: list[tuple[str, str]]) -> str:
    return '[' + '; '.join(f'({coq_s(a)}, {coq_s(t)})' for a, t in ps) + ']'


def coq_strs(ss: list[str]) -> str:
    return '[' + '; '.join(coq_s(s) for s in ss) + ']'


def _fn(tree: ast.Module, cls: str | None, name: str, where: str) -> ast.FunctionDef:
    body: list[ast.stmt] = tree.body
    if cls is not None:
        cs = [n for n in tree.body if isinstance(n, ast.ClassDef) and n.name == cls]
        if len(cs) != 1:
            raise TranslateError(f'{where}: class {cls} not found')
        body = cs[0].body
    fs = [n for n in body if isinstance(n, ast.FunctionDef) and n.name == name
          and not any(ast.unparse(d).endswith('overload') for d in n.decorator_list)]
    if len(fs) != 1:
        raise TranslateError(f'{where}: function {name} not found (or defined {len(fs)} times)')
    return fs[0]


# ------------------------------------------------------------------------------------------------ expressions -> (attribute, transformation)

def _chain(e: ast.AST) -> tuple[ast.AST, list[str]]:
    """Strip `.casefold()`-like calls (and `str.casefold(x)`) from the outside; returns (inner expression, transformations applied
    in order, innermost first)."""
    trs: list[str] = []
    while True:
        if isinstance(e, ast.Call) and isinstance(e.func, ast.Attribute) and e.func.attr in STR_TRANSFORMS and not e.keywords:
            if isinstance(e.func.value, ast.Name) and e.func.value.id == 'str' and len(e.args) == 1:
                trs.append(e.func.attr)
                e = e.args[0]
                continue
            if not e.args:
                trs.append(e.func.attr)
                e = e.func.value
                continue
        break
    trs.reverse()
    return e, trs


def _tr(trs: list[str]) -> str:
    return '+'.join(trs)


def key_expr(e: ast.AST, where: str, var: str | None = None) -> Any:
    """('object', expr text) | ('value', tr) | ('fields', [(attr, tr)]) | ('identity',) for one key expression.
    `var`: the parameter of a key function (then a bare `var` is the item itself)."""
    if isinstance(e, ast.Tuple):
        fs: list[tuple[str, str]] = []
        for el in e.elts:
            if isinstance(el, ast.Constant):
                continue
            k = key_expr(el, where, var)
            if k[0] == 'fields':
                fs += k[1]
            elif k[0] == 'value':
                fs.append((VALUE, k[1]))
            elif k[0] == 'attr':
                fs.append((k[1], ''))
            else:
                raise TranslateError(f'{where}: element {ast.unparse(el)} of a tuple key not classified')
        return ('fields', fs)
    inner, trs = _chain(e)
    if isinstance(inner, ast.Call) and isinstance(inner.func, ast.Name) and inner.func.id == 'id' and len(inner.args) == 1 and not trs:
        return ('identity',)
    if isinstance(inner, ast.Name):
        if trs or var == inner.id:
            return ('value', _tr(trs))
        return ('object', inner.id)
    if isinstance(inner, ast.Attribute) and isinstance(inner.value, (ast.Name, ast.Attribute, ast.Subscript)):
        if trs:
            return ('fields', [(inner.attr, _tr(trs))])
        return ('attr', inner.attr, ast.unparse(inner))
    if isinstance(inner, ast.Subscript) and not trs:
        return ('object', ast.unparse(inner))
    raise TranslateError(f'{where}: key expression {ast.unparse(e)} not classified')


# ------------------------------------------------------------------------------------------------ class census

class Classes:
    def __init__(self, mod: str, tree: ast.Module) -> None:
        self.mod = mod
        self.raw = {n.name: n for n in tree.body if isinstance(n, ast.ClassDef)}

    def _method(self, c: str, name: str) -> ast.FunctionDef | None:
        for s in self.raw[c].body:
            if isinstance(s, ast.FunctionDef) and s.name == name:
                return s
            if isinstance(s, ast.Assign) and any(isinstance(t, ast.Name) and t.id == name for t in s.targets):
                raise TranslateError(f'{self.mod}: class {c}: {name} assigned, not defined: not classified')
        for b in self.raw[c].bases:
            bn = ast.unparse(b)
            if bn in self.raw:
                m = self._method(bn, name)
                if m is not None:
                    return m
        return None

    def _attrs_mode(self, c: str) -> str | None:
        mode = None
        for d in self.raw[c].decorator_list:
            txt = ast.unparse(d.func if isinstance(d, ast.Call) else d)
            if not (txt.startswith('attrs.') or txt.startswith('attr.')):
                continue
            frozen = txt.endswith('frozen')
            eq = True
            if isinstance(d, ast.Call):
                for k in d.keywords:
                    if k.arg in ('eq', 'frozen', 'unsafe_hash', 'hash'):
                        if not isinstance(k.value, ast.Constant):
                            raise TranslateError(f'{self.mod}: class {c}: {k.arg}= is not a literal')
                        if k.arg == 'eq':
                            eq = bool(k.value.value)
                        elif k.arg == 'frozen':
                            frozen = bool(k.value.value)
                        elif k.value.value:
                            frozen = True       # hashable by value
            mode = 'identity' if not eq else ('value' if frozen else 'unhashable')
        return mode

    def fields(self, c: str) -> list[str]:
        out: list[str] = []
        for b in self.raw[c].bases:
            if ast.unparse(b) in self.raw:
                out += self.fields(ast.unparse(b))
        for s in self.raw[c].body:
            if isinstance(s, ast.AnnAssign) and isinstance(s.target, ast.Name) and 'ClassVar' not in ast.unparse(s.annotation):
                if s.target.id not in out:
                    out.append(s.target.id)
        return out

    def _cmp_fields(self, fn: ast.FunctionDef, op: type, c: str) -> list[tuple[str, str]]:
        """The (attribute, transformation) pairs `self.X == other.X` of a comparison method."""
        other = fn.args.args[1].arg if len(fn.args.args) == 2 else None
        if other is None:
            raise TranslateError(f'{self.mod}: {c}.{fn.name}: signature not (self, other)')
        out: list[tuple[str, str]] = []

        def side(e: ast.AST, who: str) -> tuple[str, str] | None:
            inner, trs = _chain(e)
            if isinstance(inner, ast.Attribute) and isinstance(inner.value, ast.Name) and inner.value.id == who:
                return (inner.attr, _tr(trs))
            return None
        for n in ast.walk(fn):
            if isinstance(n, ast.Compare):
                if len(n.ops) != 1:
                    raise TranslateError(f'{self.mod}: {c}.{fn.name}: chained comparison')
                if isinstance(n.ops[0], (ast.Is, ast.IsNot)):
                    continue
                lefts = n.left.elts if isinstance(n.left, ast.Tuple) else [n.left]
                rights = n.comparators[0].elts if isinstance(n.comparators[0], ast.Tuple) else [n.comparators[0]]
                if not isinstance(n.ops[0], op) or len(lefts) != len(rights):
                    raise TranslateError(f'{self.mod}: {c}.{fn.name}: comparison {ast.unparse(n)} not classified')
                for l, r in zip(lefts, rights):
                    a, b = side(l, 'self'), side(r, other)
                    if a is None or b is None:
                        a, b = side(r, 'self'), side(l, other)
                    if a is None or b is None:
                        raise TranslateError(f'{self.mod}: {c}.{fn.name}: comparison {ast.unparse(n)} is not self.x against {other}.x')
                    if a != b:
                        raise TranslateError(f'{self.mod}: {c}.{fn.name}: {ast.unparse(n)} compares different attributes / normalisations')
                    out.append(a)
        # every return is a comparison (or and-combination), True after an identity test, or NotImplemented
        for n in ast.walk(fn):
            if isinstance(n, ast.Return):
                v = n.value
                ok = isinstance(v, (ast.Compare, ast.BoolOp)) or (isinstance(v, ast.Constant) and isinstance(v.value, bool)) \
                    or (isinstance(v, ast.Name) and v.id == 'NotImplemented')
                if isinstance(v, ast.BoolOp) and not all(isinstance(x, ast.Compare) or (
                        isinstance(x, ast.Call) and isinstance(x.func, ast.Name) and x.func.id == 'isinstance') or (
                        isinstance(x, ast.UnaryOp) and isinstance(x.op, ast.Not) and isinstance(x.operand, ast.Call)
                        and isinstance(x.operand.func, ast.Name) and x.operand.func.id == 'isinstance') for x in v.values):
                    ok = False
                if isinstance(v, ast.BoolOp) and not isinstance(v.op, ast.And if op is ast.Eq else ast.Or):
                    ok = False
                if not ok:
                    raise TranslateError(f'{self.mod}: {c}.{fn.name}: return {ast.unparse(v) if v else None} not classified')
        if not out:
            raise TranslateError(f'{self.mod}: {c}.{fn.name}: compares nothing')
        return out

    def _hash_fields(self, fn: ast.FunctionDef, c: str) -> list[tuple[str, str]]:
        rets = [n for n in ast.walk(fn) if isinstance(n, ast.Return)]
        if len(rets) != 1 or not (isinstance(rets[0].value, ast.Call) and isinstance(rets[0].value.func, ast.Name)
                                  and rets[0].value.func.id == 'hash' and len(rets[0].value.args) == 1):
            raise TranslateError(f'{self.mod}: {c}.__hash__ is not `return hash(...)`')
        arg = rets[0].value.args[0]
        out = []
        for el in (arg.elts if isinstance(arg, ast.Tuple) else [arg]):
            if isinstance(el, ast.Constant):
                continue
            inner, trs = _chain(el)
            if not (isinstance(inner, ast.Attribute) and isinstance(inner.value, ast.Name) and inner.value.id == 'self'):
                raise TranslateError(f'{self.mod}: {c}.__hash__: {ast.unparse(el)} is not an attribute of self')
            out.append((inner.attr, _tr(trs)))
        return out

    def mode(self, c: str) -> tuple:
        """('identity',) | ('value', fields) | ('unhashable',) | ('fields', eq, ne, hash)"""
        if c not in self.raw:
            raise TranslateError(f'{self.mod}: class {c} is not defined here: how its objects compare is unknown')
        eq, ne, hs = self._method(c, '__eq__'), self._method(c, '__ne__'), self._method(c, '__hash__')
        if eq is None and hs is None:
            am = self._attrs_mode(c)
            if am == 'value':
                return ('value', self.fields(c))
            if am == 'unhashable':
                return ('unhashable',)
            return ('identity',)
        if eq is None or hs is None:
            # __eq__ without __hash__ makes the class unhashable; __hash__ alone keeps identity comparison
            return ('unhashable',) if hs is None else ('fields-hash-only', self._hash_fields(hs, c))
        eqf = self._cmp_fields(eq, ast.Eq, c)
        nef = self._cmp_fields(ne, ast.NotEq, c) if ne is not None else list(eqf)
        return ('fields', eqf, nef, self._hash_fields(hs, c))


def coq_mode(m: tuple) -> str:
    if m[0] == 'identity':
        return 'CIdentity'
    if m[0] == 'value':
        return f'CValue {coq_strs(m[1])}'
    if m[0] == 'unhashable':
        return 'CUnhashable'
    if m[0] == 'fields-hash-only':
        return f'CHashOnly {coq_pairs(m[1])}'
    return f'CFields {coq_pairs(m[1])} {coq_pairs(m[2])} {coq_pairs(m[3])}'


def spec_of_mode(m: tuple, where: str) -> Any:
    if m[0] in ('identity', 'fields-hash-only'):
        return 'KIdentity'
    if m[0] == 'value':
        return [(f, '') for f in m[1]]
    if m[0] == 'fields':
        return list(m[1])
    raise TranslateError(f'{where}: objects of an unhashable class used as keys')


def coq_spec(spec: Any) -> str:
    if isinstance(spec, str):
        return spec
    return 'KFields ' + coq_pairs(spec)


# ------------------------------------------------------------------------------------------------ tables of one function

def _ann_key_type(ann: ast.AST | None) -> str | None:
    """`dict[K, V]` / `set[K]` / `defaultdict[K, V]` -> text of K; None when the annotation is not a table."""
    if ann is None:
        return None
    if isinstance(ann, ast.Constant) and isinstance(ann.value, str):
        try:
            ann = ast.parse(ann.value, mode='eval').body
        except SyntaxError:
            return None
    if isinstance(ann, ast.Subscript):
        head = ast.unparse(ann.value).split('.')[-1]
        if head in ('dict', 'Dict', 'set', 'Set', 'defaultdict', 'DefaultDict', 'MutableMapping', 'OrderedDict', 'frozenset', 'Counter'):
            sl = ann.slice
            k = sl.elts[0] if isinstance(sl, ast.Tuple) else sl
            return ast.unparse(k).strip('\'"')
    return None


def _is_table_value(v: ast.AST | None) -> str | None:
    if v is None:
        return None
    if isinstance(v, (ast.Dict, ast.DictComp, ast.Set, ast.SetComp)):
        return 'literal'
    if isinstance(v, ast.Call):
        f = ast.unparse(v.func)
        if f in TABLE_CTORS:
            return f
        if f.split('.')[-1] == 'find_or_insert' or f.split('.')[-1] == 'find_or_extend':
            return 'finder'
        if f.split('.')[-1] == 'DeferredWrites':
            return 'deferred'
    return None


class FnTables:
    """The keyed tables local to one function, with their key expressions."""

    def __init__(self, mod: str, qual: str, fn: ast.FunctionDef, cls: Classes, module_fns: dict[str, ast.FunctionDef]) -> None:
        self.mod, self.qual, self.fn, self.cls, self.module_fns = mod, qual, fn, cls, module_fns
        self.tables: dict[str, dict] = {}
        self.params = {a.arg for a in fn.args.args + fn.args.kwonlyargs}
        self._find()
        self._uses()

    def _find(self) -> None:
        for n in ast.walk(self.fn):
            tgt = val = ann = None
            if isinstance(n, ast.AnnAssign) and isinstance(n.target, ast.Name):
                tgt, val, ann = n.target.id, n.value, n.annotation
            elif isinstance(n, ast.Assign) and len(n.targets) == 1 and isinstance(n.targets[0], ast.Name):
                tgt, val = n.targets[0].id, n.value
            elif isinstance(n, ast.Assign) and isinstance(n.value, ast.Name) is False and len(n.targets) > 1:
                # a = b = {} style: classify each plain-name target
                for t in n.targets:
                    if isinstance(t, ast.Name) and _is_table_value(n.value):
                        raise TranslateError(f'{self.qual}: table assigned to several names')
            if tgt is None:
                continue
            kt = _ann_key_type(ann)
            kind = _is_table_value(val)
            if kt is None and kind is None:
                continue
            t = self.tables.setdefault(tgt, {'key_type': None, 'kind': None, 'stores': [], 'loads': [], 'keyfn': None, 'line': n.lineno})
            if kt is not None:
                t['key_type'] = kt
            if kind is not None:
                t['kind'] = kind
            if kind == 'finder':
                assert isinstance(val, ast.Call)
                kf = val.args[1] if len(val.args) > 1 else next((k.value for k in val.keywords if k.arg == 'key_func'), None)
                t['keyfn'] = kf if kf is not None else 'default-id'
            if kind == 'dict.fromkeys' and isinstance(val, ast.Call) and val.args:
                t['stores'].append(('elements', val.args[0]))
            if isinstance(val, (ast.DictComp,)):
                t['stores'].append(('expr', val.key))
            if isinstance(val, ast.SetComp):
                t['stores'].append(('expr', val.elt))
            if isinstance(val, ast.Dict):
                for k in val.keys:
                    if k is not None and not isinstance(k, ast.Constant):
                        t['stores'].append(('expr', k))

    def _uses(self) -> None:
        for n in ast.walk(self.fn):
            if isinstance(n, ast.Subscript) and isinstance(n.value, ast.Name) and n.value.id in self.tables:
                t = self.tables[n.value.id]
                if t['kind'] in ('finder', 'deferred'):
                    raise TranslateError(f'{self.qual}: {n.value.id} subscripted')
                (t['stores'] if isinstance(n.ctx, ast.Store) else t['loads']).append(('expr', n.slice))
            elif isinstance(n, ast.Compare) and len(n.ops) == 1 and isinstance(n.ops[0], (ast.In, ast.NotIn)) \
                    and isinstance(n.comparators[0], ast.Name) and n.comparators[0].id in self.tables:
                self.tables[n.comparators[0].id]['loads'].append(('expr', n.left))
            elif isinstance(n, ast.Call) and isinstance(n.func, ast.Attribute) and isinstance(n.func.value, ast.Name) \
                    and n.func.value.id in self.tables:
                t = self.tables[n.func.value.id]
                m = n.func.attr
                if t['kind'] == 'deferred':
                    if m in DEFER_METHODS and n.args:
                        (t['stores'] if m == 'defer' else t['loads']).append(('expr', n.args[0]))
                    elif m != 'write':
                        raise TranslateError(f'{self.qual}: DeferredWrites.{m} not classified')
                elif m in KEY_METHODS and n.args:
                    (t['stores'] if m in ('add', 'setdefault') else t['loads']).append(('expr', n.args[0]))
                elif m in ('update', 'union', 'intersection', 'difference', 'symmetric_difference', 'difference_update', 'intersection_update'):
                    raise TranslateError(f'{self.qual}: {n.func.value.id}.{m}(...) not classified')
            elif isinstance(n, ast.Call) and isinstance(n.func, ast.Name) and n.func.id in self.tables and self.tables[n.func.id]['kind'] == 'finder':
                pass        # add_to_pool(x): the key function decides

    def _single_assign(self, name: str) -> ast.AST | None:
        """The expression a local is bound to, when it is assigned exactly once by a plain assignment (not a loop variable)."""
        if name in self.params:
            return None
        vals = []
        for n in ast.walk(self.fn):
            if isinstance(n, ast.Assign):
                for t in n.targets:
                    for x in ast.walk(t):
                        if isinstance(x, ast.Name) and x.id == name and isinstance(x.ctx, ast.Store):
                            vals.append(n.value if isinstance(t, ast.Name) else None)
            elif isinstance(n, (ast.AnnAssign, ast.AugAssign)) and isinstance(n.target, ast.Name) and n.target.id == name:
                vals.append(n.value if isinstance(n, ast.AnnAssign) else None)
            elif isinstance(n, (ast.For, ast.comprehension)):
                if any(isinstance(x, ast.Name) and x.id == name for x in ast.walk(n.target)):
                    vals.append(None)
            elif isinstance(n, ast.NamedExpr) and n.target.id == name:
                vals.append(None)
        return vals[0] if len(vals) == 1 and vals[0] is not None else None

    def _inline(self, e: ast.AST, depth: int = 0) -> ast.AST:
        """Replace a bare local by the expression it was assigned once (key = part.name.casefold(); table[key] = ...)."""
        if depth < 4 and isinstance(e, ast.Name) and e.id not in self.tables:
            v = self._single_assign(e.id)
            if v is not None and not isinstance(v, (ast.Constant, ast.Dict, ast.List, ast.Set, ast.Call)) or \
                    (v is not None and isinstance(v, ast.Call) and isinstance(v.func, ast.Attribute) and v.func.attr in STR_TRANSFORMS):
                return self._inline(v, depth + 1)
        return e

    def _attr_class(self, attr: str) -> str | None:
        """The module class an attribute of that name is annotated with (`parent: Optional['Bone']`), if that is unambiguous."""
        found: set[str] = set()
        for c in self.cls.raw.values():
            for st in c.body:
                if isinstance(st, ast.AnnAssign) and isinstance(st.target, ast.Name) and st.target.id == attr:
                    txt = ast.unparse(st.annotation)
                    for cn in self.cls.raw:
                        if re.search(rf'(?<![A-Za-z0-9_]){re.escape(cn)}(?![A-Za-z0-9_])', txt):
                            found.add(cn)
        return found.pop() if len(found) == 1 else None

    def _var_class(self, name: str) -> str | None:
        """Class of a loop / comprehension variable that ranges over a typed table or over `self.attr.values()`."""
        for n in ast.walk(self.fn):
            if isinstance(n, (ast.For, ast.comprehension)) and isinstance(n.target, ast.Name) and n.target.id == name:
                it = n.iter
                while isinstance(it, ast.Call) and isinstance(it.func, ast.Name) and it.func.id in ('list', 'sorted', 'tuple', 'reversed', 'iter') and it.args:
                    it = it.args[0]
                if isinstance(it, ast.Call) and isinstance(it.func, ast.Attribute) and it.func.attr == 'keys' and not it.args:
                    it = it.func.value
                if isinstance(it, ast.Name) and it.id in self.tables and self.tables[it.id]['key_type'] in self.cls.raw:
                    return self.tables[it.id]['key_type']
                c = self._elem_class(it)
                if c is not None and c in self.cls.raw:
                    return c
        return None

    def _expr_class(self, e: ast.AST) -> str | None:
        if isinstance(e, ast.Name):
            return self._var_class(e.id)
        if isinstance(e, ast.Attribute):
            return self._attr_class(e.attr)
        return None

    def _elem_class(self, it: ast.AST) -> str | None:
        """Class of the elements of `self.attr.values()` / `self.attr` from the class-level annotation of attr."""
        e = it
        if isinstance(e, ast.Call) and isinstance(e.func, ast.Attribute) and e.func.attr in ('values', 'keys') and not e.args:
            which = e.func.attr
            e = e.func.value
        else:
            which = 'iter'
        if isinstance(e, ast.Attribute) and isinstance(e.value, ast.Name) and e.value.id == 'self':
            for c in self.cls.raw.values():
                for s in c.body:
                    if isinstance(s, ast.AnnAssign) and isinstance(s.target, ast.Name) and s.target.id == e.attr:
                        ann = s.annotation
                        if isinstance(ann, ast.Subscript):
                            sl = ann.slice
                            if isinstance(sl, ast.Tuple) and len(sl.elts) == 2:
                                return ast.unparse(sl.elts[1] if which == 'values' else sl.elts[0]).strip('\'"')
                            if not isinstance(sl, ast.Tuple) and which == 'iter':
                                return ast.unparse(sl).strip('\'"')
        return None

    def resolve(self) -> tuple[list[tuple[str, Any, str | None]], list[str]]:
        """[(table name, keyspec, item class)], [tables with mixed normalisation]"""
        out: list[tuple[str, Any, str | None]] = []
        mixed: list[str] = []
        # a table without annotation takes the class of the elements it is built from / of the objects stored into it
        for _ in range(2):
            for name, t in self.tables.items():
                if t['key_type'] is None:
                    for how, e in t['stores']:
                        c = self._elem_class(e) if how == 'elements' else self._expr_class(self._inline(e))
                        if c is not None and c in self.cls.raw:
                            t['key_type'] = c
                            break
        for name, t in sorted(self.tables.items()):
            where = f'{self.qual}:{name}'
            kt = t['key_type']
            item: str | None = WRITER_ITEM.get(f'{self.mod[:-3]}.{where}')
            if t['kind'] == 'finder':
                kf = t['keyfn']
                if kf == 'default-id' or (isinstance(kf, ast.Name) and kf.id == 'id'):
                    spec: Any = 'KIdentity'
                elif isinstance(kf, ast.Lambda) and len(kf.args.args) == 1:
                    k = key_expr(kf.body, where, kf.args.args[0].arg)
                    spec = self._spec(k, None, where)
                elif isinstance(kf, ast.Name) and kf.id in self.module_fns and len(self.module_fns[kf.id].body) == 1 \
                        and isinstance(self.module_fns[kf.id].body[0], ast.Return):
                    f = self.module_fns[kf.id]
                    k = key_expr(f.body[0].value, where, f.args.args[0].arg)   # type: ignore[arg-type]
                    spec = self._spec(k, None, where)
                elif isinstance(kf, ast.Attribute) and isinstance(kf.value, ast.Name) and kf.value.id == 'str' and kf.attr in STR_TRANSFORMS:
                    spec = [(VALUE, kf.attr)]
                else:
                    raise TranslateError(f'{where}: key function {ast.unparse(kf) if isinstance(kf, ast.AST) else kf} not classified')
                out.append((where, spec, item))
                continue
            specs: list[Any] = []
            load_trs: set[str] = set()
            store_trs: set[str] = set()
            for ctx, lst in (('store', t['stores']), ('load', t['loads'])):
                for how, e in lst:
                    if how == 'elements':
                        c = self._elem_class(e)
                        if c is None:
                            raise TranslateError(f'{where}: elements of {ast.unparse(e)} not typed')
                        k: Any = ('class', c)
                    elif isinstance(e, ast.Constant):
                        continue            # a fixed slot, not an object
                    else:
                        try:
                            k = key_expr(self._inline(e), where)
                        except TranslateError:
                            if ctx == 'load' and kt is not None and self._is_class(kt):
                                load_trs.add('obj')     # some object expression looked up in an object-keyed table
                                continue
                            raise
                    s = self._spec(k, kt, where)
                    trs = 'obj' if isinstance(s, str) or k[0] in ('object', 'attr', 'class') else '|'.join(x[1] for x in s)
                    (store_trs if ctx == 'store' else load_trs).add(trs)
                    if ctx == 'store':
                        specs.append(s)
            if not specs:
                if not t['loads']:
                    continue           # a table nothing is looked up in by key (iterated only)
                raise TranslateError(f'{where}: looked up but never filled by a classified expression')
            if any(s != specs[0] for s in specs):
                mixed.append(where)
            if load_trs - store_trs:
                mixed.append(where)
            if kt is not None and self._is_class(kt) and item is None:
                item = f'{self.mod[:-3]}.{kt}'
            out.append((where, specs[0], item))
        return out, sorted(set(mixed))

    def _is_class(self, kt: str) -> bool:
        return kt in self.cls.raw

    def _spec(self, k: Any, kt: str | None, where: str) -> Any:
        if k[0] == 'identity':
            return 'KIdentity'
        if k[0] == 'value':
            return 'KValue' if k[1] == '' else [(VALUE, k[1])]
        if k[0] == 'fields':
            return list(k[1])
        if k[0] == 'class':
            return spec_of_mode(self.cls.mode(k[1]), where)
        # a bare object / attribute expression: the declared key type decides
        if kt is None:
            raise TranslateError(f'{where}: key {k[-1]} of a table without a key type annotation')
        if self._is_class(kt):
            return spec_of_mode(self.cls.mode(kt), where)
        if kt in ('str', 'int', 'bytes', 'float', 'CRC', 'Hashable'):
            if k[0] == 'attr':
                return [(k[1], '')]
            return 'KValue'
        raise TranslateError(f'{where}: key type {kt} not classified')


# ------------------------------------------------------------------------------------------------ reader keys

def reader_key(mod: str, tree: ast.Module, cls_name: str | None, fn_name: str, table: str, cls: Classes) -> list[tuple[str, str]]:
    fn = _fn(tree, cls_name, fn_name, mod)
    qual = f'{cls_name + "." if cls_name else ""}{fn_name}'
    found: list[tuple[ast.AST, ast.AST | None]] = []
    if table == '<dictcomp>':
        comps = [n for n in ast.walk(fn) if isinstance(n, ast.DictComp)]
        if len(comps) != 1:
            raise TranslateError(f'{mod}: {qual}: expected exactly one dict comprehension building the result')
        found.append((comps[0].key, comps[0].value))
    else:
        for n in ast.walk(fn):
            if isinstance(n, ast.Assign) and len(n.targets) == 1 and isinstance(n.targets[0], ast.Subscript) \
                    and isinstance(n.targets[0].value, ast.Name) and n.targets[0].value.id == table:
                found.append((n.targets[0].slice, n.value))
        if not found:
            raise TranslateError(f'{mod}: {qual}: no store into {table}[...]')
    keys = []
    for kexp, val in found:
        k = key_expr(kexp, f'{mod}: {qual}')
        if k[0] == 'fields':
            keys.append(list(k[1]))
        elif k[0] == 'attr':
            keys.append([(k[1], '')])
        elif k[0] == 'value':
            keys.append([(VALUE, k[1])])
        elif k[0] == 'object':
            # a local: the constructor argument it is also passed as names the attribute
            attr = None
            if isinstance(val, ast.Call) and isinstance(val.func, ast.Name) and val.func.id in cls.raw:
                fields = [f.lstrip('_') for f in cls.fields(val.func.id)]
                for i, a in enumerate(val.args):
                    if isinstance(a, ast.Name) and a.id == k[1] and i < len(fields):
                        attr = fields[i]
                for kw in val.keywords:
                    if isinstance(kw.value, ast.Name) and kw.value.id == k[1]:
                        attr = kw.arg
            keys.append([(attr or VALUE, '')])
        else:
            raise TranslateError(f'{mod}: {qual}: reader key {ast.unparse(kexp)} not classified')
    if any(k != keys[0] for k in keys):
        raise TranslateError(f'{mod}: {qual}: the result table is filled under different keys')
    return keys[0]


# ------------------------------------------------------------------------------------------------ main

def translate_keytables() -> tuple[str, dict]:
    classes_out: list[tuple[str, tuple]] = []
    tables_out: list[tuple[str, list[str], list[str], Any]] = []
    reader_out: list[tuple[str, list[tuple[str, str]]]] = []
    mixed_out: list[str] = []
    eqhash_census: list[str] = []
    reader_keys: dict[str, list[tuple[str, str]]] = {'choreo.<pool string>': [(VALUE, '')]}   # string_pool[i]: positional, no normalisation
    per_mod: dict[str, tuple[ast.Module, Classes]] = {}
    for mod in MODULES:
        tree = ast.parse(src_text(mod))
        per_mod[mod] = (tree, Classes(mod, tree))
    # the pool reader really is positional
    ch_tree = per_mod['choreo.py'][0]
    rd = _fn(ch_tree, None, 'parse_scenes_image', 'choreo.py')
    if not any(isinstance(n, ast.Subscript) and isinstance(n.value, ast.Name) and n.value.id == 'string_pool' for n in ast.walk(rd)):
        raise TranslateError('choreo.py: parse_scenes_image no longer indexes string_pool[i]')
    for mod in MODULES:
        tree, cls = per_mod[mod]
        for c in cls.raw:
            if any(cls._method(c, m) is not None and any(isinstance(s, ast.FunctionDef) and s.name == m for s in cls.raw[c].body)
                   for m in ('__eq__', '__ne__', '__hash__')):
                eqhash_census.append(f'{mod[:-3]}.{c}')
        for (cn, fnn, table, item) in READERS.get(mod, []):
            rk = reader_key(mod, tree, cn, fnn, table, cls)
            reader_keys[item] = rk
            reader_out.append((f'{mod[:-3]}.{cn + "." if cn else ""}{fnn}:{table} -> {item}', rk))
    used_classes: dict[str, tuple] = {}
    for mod in MODULES:
        tree, cls = per_mod[mod]
        module_fns = {n.name: n for n in tree.body if isinstance(n, ast.FunctionDef)}
        writers = list(WRITERS.get(mod, []))
        if mod == 'choreo.py':
            for c in cls.raw.values():
                for s in c.body:
                    if isinstance(s, ast.FunctionDef) and s.name in CHOREO_WRITER_METHODS:
                        writers.append((c.name, s.name))
        for cn, fnn in writers:
            if cn is not None and cn not in cls.raw:
                raise TranslateError(f'{mod}: class {cn} not found')
            if cn is not None and not any(isinstance(s, ast.FunctionDef) and s.name == fnn for s in cls.raw[cn].body):
                if (cn, fnn) == ('Material', '_write_block'):
                    continue
                raise TranslateError(f'{mod}: {cn}.{fnn} not found')
            fn = _fn(tree, cn, fnn, mod)
            qual = f'{cn + "." if cn else ""}{fnn}'
            ft = FnTables(mod, qual, fn, cls, module_fns)
            res, mixed = ft.resolve()
            mixed_out += [f'{mod[:-3]}.{m}' for m in mixed]
            for where, spec, item in res:
                full = f'{mod[:-3]}.{where}'
                if item is None:
                    raise TranslateError(f'{full}: a keyed table of a writer whose objects are not classified (add it to WRITER_ITEM)')
                if item not in reader_keys:
                    raise TranslateError(f'{full}: no reader key known for {item}')
                rk = reader_keys[item]
                tables_out.append((full, sorted({t for _, t in rk if t}), [a for a, _ in rk], spec))
                icls = item.split('.', 1)[1]
                if item.split('.')[0] + '.py' == mod and icls in cls.raw:
                    used_classes[item] = cls.mode(icls)
    # classes that define __eq__/__hash__ by hand are listed whether or not a table uses them today
    for q in eqhash_census:
        m, c = q.split('.', 1)
        used_classes.setdefault(q, per_mod[m + '.py'][1].mode(c))
    classes_out = sorted(used_classes.items())
    tables_out.sort()
    lines = [
        '(* GENERATED by translate/c20_keytables.py from cmdseq.py, smd.py, sndscript.py, vmt.py, particles.py, choreo.py. Do not edit. *)',
        'From Coq Require Import List String NArith Bool.', 'Import ListNotations.', 'Open Scope string_scope.',
        'From SV Require Import Fmt.BspDedup Fmt.C20KeyTables.',
        '(* how the objects used as dict keys / set members compare and hash (and every class with hand-written __eq__/__hash__) *)',
        'Definition kt_classes : list kclass := [',
        ';\n'.join(f'  ({coq_s(n)}, {coq_mode(m)})' for n, m in classes_out), '].',
        '(* the keyed tables of the writers: name, transformations the reader itself keys under, identifying attributes, key *)',
        'Definition kt_tables : list dedup_table := [',
        ';\n'.join(f'  ({coq_s(n)}, {coq_strs(adm)}, {coq_strs(fields)}, {coq_spec(spec)})' for n, adm, fields, spec in tables_out), '].',
        '(* the key under which each reader stores what it returns *)',
        'Definition kt_reader_keys : list (string * list (string * string)) := [',
        ';\n'.join(f'  ({coq_s(n)}, {coq_pairs(k)})' for n, k in reader_out), '].',
        f'Definition kt_mixed : list string := {coq_strs(sorted(set(mixed_out)))}.',
        '(* the named booleans of the check (defined here so that the check needs no string literals of its own) *)',
    ]
    ob_defs: dict[str, str] = {}

    def ident(q: str) -> str:
        return re.sub(r'[^A-Za-z0-9]+', '_', q).strip('_')
    for n, _, _, _ in tables_out:
        ob_defs[f'table:{n}'] = f'kt_ok_table_{ident(n)}'
        lines.append(f'Definition kt_ok_table_{ident(n)} : bool := dedup_ok_named kt_tables {coq_s(n)} && negb (existsb (String.eqb {coq_s(n)}) kt_mixed).')
    for n, _ in classes_out:
        ob_defs[f'class:{n}'] = f'kt_ok_class_{ident(n)}'
        lines.append(f'Definition kt_ok_class_{ident(n)} : bool := class_ok_named kt_classes {coq_s(n)}.')
    lines += [
        'Definition kt_ok_bone_tables_present : bool := has_table kt_tables "smd.Mesh.export:bone_indexes" && has_class kt_classes "smd.Bone".',
        'Definition kt_ok_bone_eq_is_name : bool := class_eq_is kt_classes "smd.Bone" key_name_exact.',
        'Definition kt_ok_smd_reader_key : bool := reader_key_is kt_reader_keys "smd.Mesh.parse_smd" key_name_exact.',
        'Definition kt_ok_cmdseq_reader_key : bool := reader_key_is kt_reader_keys "cmdseq.parse" key_value_exact.',
        'Definition kt_ok_pool_table_present : bool := has_table kt_tables "choreo.save_scenes_image_sync:add_to_pool".',
        '',
    ]
    side = {'obligation_defs': ob_defs, 'classes': {n: coq_mode(m) for n, m in classes_out}, 'tables': {n: coq_spec(s) for n, _, _, s in tables_out},
            'reader_keys': {n: k for n, k in reader_out}, 'mixed': mixed_out, 'classes_with_hand_written_eq_or_hash': eqhash_census}
    return '\n'.join(lines), side


GEN = {'KeyTables_gen': translate_keytables}
