"""C16 translator: fgd.py / _engine_db.py / tokenizer.py / const.py -> Gen/FgdConsts_gen.v.

Extracted (fail-closed, Python ast):
  * tokenizer.ESCAPES (symbol -> character) and the characters escape_text() leaves alone (ESCAPE_RE filter);
  * fgd._fgd_escape: which function the extended branch calls, the replace() chain of the plain branch;
  * fgd._write_longstring: LIMIT, the `> 128` threshold, the rfind needles/offsets, the loop and threshold
    comparison operators, the joiner, the quoting f-strings, and the two decisive branches:
      - what is appended after the loop (`if remaining:` = nothing for empty text / `if remaining or not sections:`),
      - whether the hard cut steps back from an odd run of backslashes;
  * _engine_db: VALUE_TYPE_ORDER / FILE_TYPE_ORDER against the members of ValueTypes / FileType, EntFlags members,
    EntityTypes members (ENTITY_TYPE_2_FLAG is `EntFlags['TYPE_' + kind.name]`), struct formats, SHARED_STRINGS,
    STRING_SEP, and every `| 128`, `& 127`, `& 128` bit operation in kv/ent (un)serialise with its role.
Local variable names are irrelevant (matched positionally / by role); comments and docstrings are invisible to ast.
"""
from __future__ import annotations

import ast
import re
from typing import Any, Optional

from harness.common import TranslateError, ast_digest, src_text


def _is(node: ast.AST, src: str) -> bool:
    """Structural equality of an ast node with the parse of `src` (expression or single statement)."""
    try:
        if isinstance(node, ast.expr):
            ref: ast.AST = ast.parse(src, mode='eval').body
        else:
            ref = ast.parse(src).body[0]
    except SyntaxError:
        return False
    return ast.dump(node) == ast.dump(ref)


def _fn(tree: ast.Module, name: str) -> ast.FunctionDef:
    for n in tree.body:
        if isinstance(n, ast.FunctionDef) and n.name == name:
            return n
    raise TranslateError(f'function {name} not found')


def _cls(tree: ast.Module, name: str) -> ast.ClassDef:
    for n in tree.body:
        if isinstance(n, ast.ClassDef) and n.name == name:
            return n
    raise TranslateError(f'class {name} not found')


def _body(fn: ast.FunctionDef) -> list[ast.stmt]:
    b = list(fn.body)
    if b and isinstance(b[0], ast.Expr) and isinstance(b[0].value, ast.Constant) and isinstance(b[0].value.value, str):
        b = b[1:]
    return b


def _const(node: ast.AST, typ: type, what: str) -> Any:
    if isinstance(node, ast.Constant) and isinstance(node.value, typ) and not (typ is int and isinstance(node.value, bool)):
        return node.value
    if typ is int and isinstance(node, ast.UnaryOp) and isinstance(node.op, ast.USub) and isinstance(node.operand, ast.Constant):
        return -node.operand.value
    raise TranslateError(f'{what}: expected a {typ.__name__} literal at line {getattr(node, "lineno", "?")}, got {ast.dump(node)[:80]}')


def _int_expr(node: ast.AST, what: str) -> int:
    """Integer literal or a +/- combination of integer literals (the source writes `-1 + 1`)."""
    if isinstance(node, ast.BinOp) and isinstance(node.op, (ast.Add, ast.Sub)):
        a, b = _int_expr(node.left, what), _int_expr(node.right, what)
        return a + b if isinstance(node.op, ast.Add) else a - b
    return _const(node, int, what)


def enum_members(cls: ast.ClassDef) -> tuple[list[tuple[str, Any]], dict[str, str]]:
    """Canonical members (name, value) in declaration order, and aliases name -> canonical name."""
    members: list[tuple[str, Any]] = []
    alias: dict[str, str] = {}
    by_val: dict[Any, str] = {}
    for st in cls.body:
        if isinstance(st, ast.Assign):
            names = []
            for t in st.targets:
                if not isinstance(t, ast.Name):
                    raise TranslateError(f'{cls.name}: odd assignment target line {st.lineno}')
                names.append(t.id)
            if isinstance(st.value, ast.Name):
                tgt = alias.get(st.value.id, st.value.id)
                if tgt not in dict(members):
                    raise TranslateError(f'{cls.name}: alias of unknown member {st.value.id}')
                for n in names:
                    alias[n] = tgt
                continue
            val = _const(st.value, (int, str), f'{cls.name}.{names[0]}')  # type: ignore[arg-type]
            key = (type(val).__name__, val)
            if key in by_val:
                for n in names:
                    alias[n] = by_val[key]
                continue
            by_val[key] = names[0]
            members.append((names[0], val))
            for n in names[1:]:
                alias[n] = names[0]
        elif isinstance(st, (ast.FunctionDef, ast.Expr, ast.AnnAssign, ast.Pass)):
            if isinstance(st, ast.AnnAssign):
                raise TranslateError(f'{cls.name}: annotated member line {st.lineno} not supported')
            continue
        else:
            raise TranslateError(f'{cls.name}: unexpected statement {type(st).__name__} line {st.lineno}')
    return members, alias


def _attr_list(node: ast.AST, owner: str, what: str) -> list[str]:
    if not isinstance(node, ast.List):
        raise TranslateError(f'{what} is not a list literal')
    out = []
    for e in node.elts:
        if isinstance(e, ast.Attribute) and isinstance(e.value, ast.Name) and e.value.id == owner:
            out.append(e.attr)
        else:
            raise TranslateError(f'{what}: element is not {owner}.X at line {e.lineno}')
    return out


def _module_assign(tree: ast.Module, name: str) -> ast.AST:
    for st in tree.body:
        if isinstance(st, ast.Assign) and len(st.targets) == 1 and isinstance(st.targets[0], ast.Name) and st.targets[0].id == name:
            return st.value
        if isinstance(st, ast.AnnAssign) and isinstance(st.target, ast.Name) and st.target.id == name and st.value is not None:
            return st.value
    raise TranslateError(f'module constant {name} not found')


# ------------------------------------------------------------------------------------------ normalisation
_PURE_FUNCS = {'len', 'abs', 'min', 'max', 'int', 'bool', 'str'}
_PURE_METHODS = {'rstrip', 'lstrip', 'strip', 'rfind', 'find', 'count', 'startswith', 'endswith', 'casefold', 'lower', 'upper'}


def _is_pure(e: ast.AST | None) -> bool:
    """Expressions without side effects whose value depends only on the values of the names in them (strings and integers)."""
    if e is None:
        return True
    if isinstance(e, (ast.Name, ast.Constant)):
        return True
    if isinstance(e, ast.Subscript):
        return _is_pure(e.value) and _is_pure(e.slice)
    if isinstance(e, ast.Slice):
        return _is_pure(e.lower) and _is_pure(e.upper) and _is_pure(e.step)
    if isinstance(e, ast.BinOp):
        return _is_pure(e.left) and _is_pure(e.right)
    if isinstance(e, ast.UnaryOp):
        return _is_pure(e.operand)
    if isinstance(e, ast.Compare):
        return _is_pure(e.left) and all(_is_pure(c) for c in e.comparators)
    if isinstance(e, (ast.BoolOp, ast.Tuple)):
        return all(_is_pure(v) for v in (e.values if isinstance(e, ast.BoolOp) else e.elts))
    if isinstance(e, ast.Call) and not e.keywords:
        if isinstance(e.func, ast.Name) and e.func.id in _PURE_FUNCS:
            return all(_is_pure(a) for a in e.args)
        if isinstance(e.func, ast.Attribute) and e.func.attr in _PURE_METHODS:
            return _is_pure(e.func.value) and all(_is_pure(a) for a in e.args)
    return False


_STABLE_METHODS = {'casefold', 'lower', 'upper', 'strip', 'lstrip', 'rstrip', 'title'}


def _is_stable(e: ast.AST, attr_stores: set[str]) -> bool:
    """Expressions whose evaluation has no effect and cannot fail, and whose value stays the same for as long as the names in them are
    not re-bound: names, literals, loads of attributes that are not assigned in the region looked at (assumption: attribute loads are
    plain field reads and callees do not re-assign the fields of their arguments), str methods without effects on such values,
    comparisons and boolean combinations of them."""
    if isinstance(e, (ast.Name, ast.Constant)):
        return True
    if isinstance(e, ast.Attribute):
        return e.attr not in attr_stores and _is_stable(e.value, attr_stores)
    if isinstance(e, ast.Call) and not e.keywords and isinstance(e.func, ast.Attribute) and e.func.attr in _STABLE_METHODS:
        return _is_stable(e.func.value, attr_stores) and all(_is_stable(x, attr_stores) for x in e.args)
    if isinstance(e, ast.Compare):
        return (all(isinstance(o, (ast.Eq, ast.NotEq, ast.Is, ast.IsNot)) for o in e.ops) and _is_stable(e.left, attr_stores)
                and all(_is_stable(c, attr_stores) for c in e.comparators))
    if isinstance(e, ast.BoolOp):
        return all(_is_stable(v, attr_stores) for v in e.values)
    if isinstance(e, ast.Tuple):
        return all(_is_stable(v, attr_stores) for v in e.elts)
    if isinstance(e, ast.UnaryOp) and isinstance(e.op, ast.Not):
        return _is_stable(e.operand, attr_stores)
    return False


def _attr_stores(nodes: list[ast.stmt]) -> set[str]:
    return {n.attr for x in nodes for n in ast.walk(x) if isinstance(n, ast.Attribute) and isinstance(n.ctx, (ast.Store, ast.Del))}


def _stores(node: ast.AST) -> set[str]:
    return {n.id for n in ast.walk(node) if isinstance(n, ast.Name) and isinstance(n.ctx, (ast.Store, ast.Del))}


def _loads(node: ast.AST, name: str) -> int:
    return sum(1 for n in ast.walk(node) if isinstance(n, ast.Name) and isinstance(n.ctx, ast.Load) and n.id == name)


def _subst(node: ast.AST, name: str, value: ast.AST) -> ast.AST:
    import copy

    class R(ast.NodeTransformer):
        def visit_Name(self, n: ast.Name) -> ast.AST:   # noqa: N802
            return copy.deepcopy(value) if isinstance(n.ctx, ast.Load) and n.id == name else n
    return R().visit(node)


def _module_literals(tree: ast.Module) -> dict[str, ast.Constant]:
    """Module-level names bound exactly once in the whole module, to an int/str literal (`LIMIT = 1000`, `LIMIT: Final = 1000`)."""
    count: dict[str, int] = {}
    for n in ast.walk(tree):
        if isinstance(n, ast.Name) and isinstance(n.ctx, (ast.Store, ast.Del)):
            count[n.id] = count.get(n.id, 0) + 1
        elif isinstance(n, (ast.Global, ast.Nonlocal)):
            for nm in n.names:
                count[nm] = count.get(nm, 0) + 2
        elif isinstance(n, ast.arg):
            count[n.arg] = count.get(n.arg, 0) + 2        # shadowed somewhere: do not touch
    out = {}
    for st in tree.body:
        tgt, val = None, None
        if isinstance(st, ast.Assign) and len(st.targets) == 1 and isinstance(st.targets[0], ast.Name):
            tgt, val = st.targets[0].id, st.value
        elif isinstance(st, ast.AnnAssign) and isinstance(st.target, ast.Name) and st.value is not None:
            tgt, val = st.target.id, st.value
        if tgt and count.get(tgt) == 1 and isinstance(val, ast.Constant) and isinstance(val.value, (int, str)) and not isinstance(val.value, bool):
            out[tgt] = val
    return out


def _branch_normal_form(stmts: list[ast.stmt]) -> list[ast.stmt]:
    """`if c: ...; return/raise/continue/break` followed by more statements = `if c: ... else: <the rest>`; `if not c: A else: B` =
    `if c: B else: A`.  Applied bottom-up to a statement list (returns a new list; the statements are modified in place)."""
    out: list[ast.stmt] = []
    for k, st in enumerate(stmts):
        for fld in ('body', 'orelse', 'finalbody'):
            sub = getattr(st, fld, None)
            if isinstance(sub, list) and sub and isinstance(sub[0], ast.stmt):
                setattr(st, fld, _branch_normal_form(sub))
        if (isinstance(st, ast.If) and not st.orelse and st.body and isinstance(st.body[-1], (ast.Return, ast.Raise, ast.Continue, ast.Break))
                and stmts[k + 1:]):
            st.orelse = _branch_normal_form(stmts[k + 1:])
            stmts = stmts[:k + 1]
        if isinstance(st, ast.If) and st.orelse and isinstance(st.test, ast.UnaryOp) and isinstance(st.test.op, ast.Not):
            st.test, st.body, st.orelse = st.test.operand, st.orelse, st.body
        out.append(st)
        if len(stmts) == k + 1:
            break
    return out


def _normalise(fn: ast.FunctionDef, tree: ast.Module, branches: bool = False) -> ast.FunctionDef:
    """An equivalent function in which
      * module-level literal constants and function-level literal constants (`LIMIT = 1000` as a top-level statement of the body, bound
        once) are replaced by their values,
      * locals that are bound once to a stable expression (see _is_stable: names, literals, attribute loads, str methods, == / is tests)
        and used only later in the same block, where none of the names in the expression is re-bound and none of the attributes in it
        is assigned, are replaced by that expression (`key = classname.casefold()`, `ents = fgd.entities`, `defined = self.x != ()`),
      * locals that are bound once to a pure expression and used only in the statements right after the binding (nothing in between
        but other such bindings; the names in the expression not re-bound before the last use, except inside the body of an `if` whose
        test holds the last use) are replaced by that expression.
    Renaming, hoisting a constant and naming a sub-expression therefore all lead to the same tree."""
    import copy
    fn = copy.deepcopy(fn)
    params = {a.arg for a in ast.walk(fn.args) if isinstance(a, ast.arg)}
    nstores: dict[str, int] = {}
    for n in ast.walk(fn):
        if isinstance(n, ast.Name) and isinstance(n.ctx, (ast.Store, ast.Del)):
            nstores[n.id] = nstores.get(n.id, 0) + 1
    local = set(nstores) | params
    for nm, val in _module_literals(tree).items():
        if nm not in local:
            _subst(fn, nm, val)
    # function-level literal constants
    for st in list(fn.body):
        if (isinstance(st, ast.Assign) and len(st.targets) == 1 and isinstance(st.targets[0], ast.Name) and isinstance(st.value, ast.Constant)
                and isinstance(st.value.value, (int, str)) and nstores.get(st.targets[0].id) == 1 and st.targets[0].id not in params):
            nm = st.targets[0].id
            before = fn.body[:fn.body.index(st)]
            if any(_loads(x, nm) for x in before):
                continue
            fn.body.remove(st)
            _subst(fn, nm, st.value)

    def block(stmts: list[ast.stmt]) -> bool:
        for i, st in enumerate(stmts):
            if isinstance(st, ast.AnnAssign) and isinstance(st.target, ast.Name) and st.value is not None and st.simple:
                st = ast.copy_location(ast.Assign(targets=[st.target], value=st.value), st)
            if not (isinstance(st, ast.Assign) and len(st.targets) == 1 and isinstance(st.targets[0], ast.Name)):
                continue
            v = st.targets[0].id
            if nstores.get(v) != 1 or v in params:
                continue
            free = {n.id for n in ast.walk(st.value) if isinstance(n, ast.Name)} | {v}
            total = _loads(fn, v)
            after = stmts[i + 1:]
            if total == 0 or sum(_loads(x, v) for x in after) != total:
                continue
            # a stable value may be used anywhere later in the same block, as long as the names in it are not re-bound there
            if _is_stable(st.value, _attr_stores(after)) and not any(_stores(x) & free for x in after):
                del stmts[i]
                for x in after:
                    _subst(x, v, st.value)
                return True
            if not _is_pure(st.value):
                continue
            j = max(k for k, x in enumerate(after) if _loads(x, v))
            between, last = after[:j], after[j]
            if not all(isinstance(x, ast.Assign) and len(x.targets) == 1 and isinstance(x.targets[0], ast.Name) and _is_pure(x.value)
                       and not (_stores(x) & free) for x in between):
                continue
            if _stores(last) & free:
                if not (isinstance(last, ast.If) and _loads(last.test, v) == _loads(last, v) and not _stores(last.test)):
                    continue
            del stmts[i]
            for x in stmts[i:i + j + 1]:
                _subst(x, v, st.value)
            return True
        for st in stmts:
            for fld in ('body', 'orelse', 'finalbody'):
                sub = getattr(st, fld, None)
                if isinstance(sub, list) and sub and isinstance(sub[0], ast.stmt) and block(sub):
                    return True
        return False
    for _ in range(200):
        if not block(fn.body):
            break
    if branches:
        doc = fn.body[:1] if (fn.body and isinstance(fn.body[0], ast.Expr) and isinstance(fn.body[0].value, ast.Constant)
                              and isinstance(fn.body[0].value.value, str)) else []
        fn.body = doc + _branch_normal_form(fn.body[len(doc):])
    return ast.fix_missing_locations(fn)


# ------------------------------------------------------------------------------------------ tokenizer
def _inline_helper_calls(tree: ast.Module, node: ast.AST, depth: int = 0) -> ast.AST:
    """`node` with every call of a module-level helper whose body is a single `return <expr>` (after the docstring; positional or
    keyword arguments, defaults, no *args) replaced by that expression with the parameters substituted:
    `ESCAPE_RE = _build_escape_re('?/')` reads like the expression the helper returns."""
    import copy
    helpers = {}
    for st in tree.body:
        if isinstance(st, ast.FunctionDef) and not st.decorator_list:
            b = _body(st)
            a = st.args
            if len(b) == 1 and isinstance(b[0], ast.Return) and b[0].value is not None and not a.vararg and not a.kwarg and not a.posonlyargs and not a.kwonlyargs:
                helpers[st.name] = st

    class R(ast.NodeTransformer):
        def visit_Call(self, n: ast.Call) -> ast.AST:   # noqa: N802
            self.generic_visit(n)
            if not (isinstance(n.func, ast.Name) and n.func.id in helpers) or depth > 4:
                return n
            fn = helpers[n.func.id]
            params = [x.arg for x in fn.args.args]
            if any(isinstance(x, ast.Starred) for x in n.args) or any(k.arg is None for k in n.keywords) or len(n.args) > len(params):
                return n
            bound: dict[str, ast.AST] = dict(zip(params, n.args))
            for k in n.keywords:
                if k.arg not in params or k.arg in bound:
                    return n
                bound[k.arg] = k.value   # type: ignore[index]
            defaults = dict(zip(params[len(params) - len(fn.args.defaults):], fn.args.defaults))
            for prm in params:
                if prm not in bound:
                    if prm not in defaults:
                        return n
                    bound[prm] = defaults[prm]
            # the arguments must be usable several times: literals and names only
            if not all(isinstance(v, (ast.Constant, ast.Name)) for v in bound.values()):
                return n
            expr = copy.deepcopy(_body(fn)[0].value)   # type: ignore[attr-defined]
            if _stores(expr) & set(params):
                return n
            for prm, v in bound.items():
                expr = _subst(expr, prm, v)
            return _inline_helper_calls(tree, expr, depth + 1)
    return R().visit(copy.deepcopy(node))


def _tokenizer_tables() -> tuple[list[tuple[int, int]], list[int], dict]:
    tree = ast.parse(src_text('tokenizer.py'))
    esc = _module_assign(tree, 'ESCAPES')
    if not isinstance(esc, ast.Dict):
        raise TranslateError('tokenizer.ESCAPES is not a dict literal')
    pairs = []
    for k, v in zip(esc.keys, esc.values):
        ks, vs = _const(k, str, 'ESCAPES key'), _const(v, str, 'ESCAPES value')
        if len(ks) != 1 or len(vs) != 1:
            raise TranslateError('ESCAPES entries must be single characters')
        pairs.append((ord(ks), ord(vs)))
    # ESCAPES_INV = {char: f'\\{sym}' for sym, char in ESCAPES.items()}
    inv = _module_assign(tree, 'ESCAPES_INV')
    if not _is(inv, "{char: f'\\\\{sym}' for sym, char in ESCAPES.items()}"):
        raise TranslateError('ESCAPES_INV is not the inverse of ESCAPES: ' + ast.unparse(inv))
    # ESCAPE_RE = re.compile('|'.join(re.escape(c) for c in ESCAPES_INV if c not in '?/'))
    ere = _inline_helper_calls(tree, _module_assign(tree, 'ESCAPE_RE'))
    excl = None
    for n in ast.walk(ere):
        if isinstance(n, ast.Compare) and len(n.ops) == 1 and isinstance(n.ops[0], ast.NotIn):
            excl = _const(n.comparators[0], str, 'ESCAPE_RE exclusion')
    src = ast.unparse(ere)
    if excl is None or not _is(ere, f"re.compile('|'.join(re.escape(c) for c in ESCAPES_INV if c not in {excl!r}))"):
        raise TranslateError('ESCAPE_RE not recognised: ' + src)
    # escape_text: `return (ESCAPE_MULTILINE_RE if multiline else ESCAPE_RE).sub(_escape_matcher, text)` and
    # _escape_matcher returns ESCAPES_INV[match.group()]
    et = _body(_fn(tree, 'escape_text'))
    if not et or not _is(et[-1], 'return (ESCAPE_MULTILINE_RE if multiline else ESCAPE_RE).sub(_escape_matcher, text)'):
        raise TranslateError('escape_text body not recognised')
    em = _body(_fn(tree, '_escape_matcher'))
    if len(em) != 1 or not _is(em[0], 'return ESCAPES_INV[match.group()]'):
        raise TranslateError('_escape_matcher not recognised')
    hs = None
    for n in ast.walk(tree):
        if isinstance(n, ast.FunctionDef) and n.name == '_handle_string':
            hs = ast_digest(n)
    if hs is None:
        raise TranslateError('Tokenizer._handle_string not found')
    return pairs, [ord(c) for c in excl], {'handle_string_digest': hs, 'escapes': len(pairs)}


# ------------------------------------------------------------------------------------------ fgd.py
def _is_call_method(node: ast.AST, meth: str) -> bool:
    return isinstance(node, ast.Call) and isinstance(node.func, ast.Attribute) and node.func.attr == meth


def _quoted_fstring(node: ast.AST) -> ast.AST:
    """f'"{X}"' -> X"""
    if isinstance(node, ast.JoinedStr) and len(node.values) == 3:
        a, b, c = node.values
        if (isinstance(a, ast.Constant) and a.value == '"' and isinstance(c, ast.Constant) and c.value == '"'
                and isinstance(b, ast.FormattedValue) and b.conversion == -1 and b.format_spec is None):
            return b.value
    raise TranslateError(f'section is not written as f\'"{{...}}"\' at line {getattr(node, "lineno", "?")}')


def _append_arg(st: ast.stmt, lst: str) -> ast.AST:
    if (isinstance(st, ast.Expr) and _is_call_method(st.value, 'append') and isinstance(st.value.func.value, ast.Name)  # type: ignore[attr-defined]
            and st.value.func.value.id == lst and len(st.value.args) == 1):  # type: ignore[attr-defined]
        return st.value.args[0]  # type: ignore[attr-defined]
    raise TranslateError(f'expected {lst}.append(...) at line {st.lineno}')


def _rfind_assign(st: ast.stmt, rem: str, limit_name: str) -> tuple[str, str, int]:
    """`pos = rem.rfind(NEEDLE, 0, LIMIT) + K` -> (pos, NEEDLE, K)"""
    if not (isinstance(st, ast.Assign) and len(st.targets) == 1 and isinstance(st.targets[0], ast.Name)
            and isinstance(st.value, ast.BinOp) and isinstance(st.value.op, ast.Add)):
        raise TranslateError(f'_write_longstring: expected `pos = x.rfind(..) + k` at line {st.lineno}')
    call, k = st.value.left, _const(st.value.right, int, 'rfind offset')
    if not (_is_call_method(call, 'rfind') and isinstance(call.func.value, ast.Name) and call.func.value.id == rem  # type: ignore[attr-defined]
            and len(call.args) == 3 and not call.keywords):  # type: ignore[attr-defined]
        raise TranslateError(f'_write_longstring: rfind call not recognised at line {st.lineno}')
    needle = _const(call.args[0], str, 'rfind needle')  # type: ignore[attr-defined]
    if _const(call.args[1], int, 'rfind start') != 0:  # type: ignore[attr-defined]
        raise TranslateError('rfind start is not 0')
    if not (isinstance(call.args[2], ast.Name) and call.args[2].id == limit_name):  # type: ignore[attr-defined]
        raise TranslateError('rfind end is not LIMIT')
    return st.targets[0].id, needle, k


def _slice_emit(sts: list[ast.stmt], secs: str, rem: str, pos: str, where: str) -> None:
    """sections.append(f'"{rem[:pos]}"'); rem = rem[pos:]"""
    if len(sts) < 2:
        raise TranslateError(f'{where}: emit/advance pair missing')
    v = _quoted_fstring(_append_arg(sts[0], secs))
    if not _is(v, f'{rem}[:{pos}]'):
        raise TranslateError(f'{where}: emitted section is {ast.unparse(v)}, expected {rem}[:{pos}]')
    if not _is(sts[1], f'{rem} = {rem}[{pos}:]'):
        raise TranslateError(f'{where}: remaining text is advanced by {ast.unparse(sts[1])}')


def _int_lit(node: ast.AST, what: str) -> int:
    return _int_expr(node, what)


def _write_longstring(tree: ast.Module) -> dict:
    raw = _fn(tree, '_write_longstring')
    args = [a.arg for a in raw.args.args] + [a.arg for a in raw.args.kwonlyargs]
    if args != ['file', 'extended', 'text', 'indent']:
        raise TranslateError(f'_write_longstring signature changed: {args}')
    fn = _normalise(raw, tree)          # LIMIT (local or module constant) is now a literal, named sub-expressions are inlined
    b = _body(fn)
    if len(b) != 5:
        raise TranslateError(f'_write_longstring: expected 5 top-level statements after normalisation, found {len(b)}: '
                             + ' | '.join(ast.unparse(x)[:40] for x in b))
    s_secs, s_rem, s_while, s_last, s_write = b
    # sections = []
    if not (isinstance(s_secs, ast.Assign) and isinstance(s_secs.targets[0], ast.Name) and _is(s_secs.value, '[]')):
        raise TranslateError('sections initialisation not recognised')
    secs = s_secs.targets[0].id
    # remaining = _fgd_escape(extended, text)
    if not (isinstance(s_rem, ast.Assign) and isinstance(s_rem.targets[0], ast.Name)
            and _is(s_rem.value, '_fgd_escape(extended, text)')):
        raise TranslateError('remaining = _fgd_escape(extended, text) not recognised')
    rem = s_rem.targets[0].id
    # while len(remaining) > LIMIT:
    if not (isinstance(s_while, ast.While) and not s_while.orelse and isinstance(s_while.test, ast.Compare)
            and len(s_while.test.ops) == 1 and _is(s_while.test.left, f'len({rem})')):
        raise TranslateError('while len(remaining) <op> LIMIT not recognised')
    limit = _int_lit(s_while.test.comparators[0], 'LIMIT in the loop test')
    loop_op = type(s_while.test.ops[0]).__name__
    wb = s_while.body
    if len(wb) != 6:
        raise TranslateError(f'_write_longstring loop: expected 6 statements, found {len(wb)}')

    def rfind_assign(st: ast.stmt) -> tuple[str, str, int]:
        """`pos = rem.rfind(NEEDLE, 0, LIMIT) + K` -> (pos, NEEDLE, K)"""
        if not (isinstance(st, ast.Assign) and len(st.targets) == 1 and isinstance(st.targets[0], ast.Name)
                and isinstance(st.value, ast.BinOp) and isinstance(st.value.op, ast.Add)):
            raise TranslateError(f'_write_longstring: expected `pos = x.rfind(..) + k` at line {st.lineno}')
        call, k = st.value.left, _int_lit(st.value.right, 'rfind offset')
        if isinstance(call, ast.Constant):          # k + x.rfind(..)
            call, k = st.value.right, _int_lit(st.value.left, 'rfind offset')
        if not (_is_call_method(call, 'rfind') and isinstance(call.func.value, ast.Name) and call.func.value.id == rem  # type: ignore[attr-defined]
                and len(call.args) == 3 and not call.keywords):  # type: ignore[attr-defined]
            raise TranslateError(f'_write_longstring: rfind call not recognised at line {st.lineno}')
        needle = _const(call.args[0], str, 'rfind needle')  # type: ignore[attr-defined]
        if _int_lit(call.args[1], 'rfind start') != 0:  # type: ignore[attr-defined]
            raise TranslateError('rfind start is not 0')
        if _int_lit(call.args[2], 'rfind end') != limit:  # type: ignore[attr-defined]
            raise TranslateError('rfind end is not LIMIT')
        return st.targets[0].id, needle, k
    pos1, needle1, off1 = rfind_assign(wb[0])
    # if split_pos > 128: emit; continue
    if1 = wb[1]
    if not (isinstance(if1, ast.If) and not if1.orelse and isinstance(if1.test, ast.Compare) and len(if1.test.ops) == 1
            and _is(if1.test.left, pos1) and len(if1.body) == 3 and isinstance(if1.body[2], ast.Continue)):
        raise TranslateError('newline-split branch not recognised')
    nl_op, min_nl = type(if1.test.ops[0]).__name__, _int_lit(if1.test.comparators[0], 'newline threshold')
    _slice_emit(if1.body[:2], secs, rem, pos1, 'newline-split branch')
    pos2, needle2, off2 = rfind_assign(wb[2])
    if pos2 != pos1:
        raise TranslateError('second rfind assigns a different variable')
    # if split_pos == (-1 + 1): split_pos = LIMIT [guard]
    if2 = wb[3]
    if not (isinstance(if2, ast.If) and not if2.orelse and isinstance(if2.test, ast.Compare) and len(if2.test.ops) == 1
            and isinstance(if2.test.ops[0], ast.Eq) and _is(if2.test.left, pos1)):
        raise TranslateError('not-found test of the space split not recognised')
    notfound = _int_lit(if2.test.comparators[0], 'not-found value')
    if not (if2.body and isinstance(if2.body[0], ast.Assign) and isinstance(if2.body[0].targets[0], ast.Name) and if2.body[0].targets[0].id == pos1
            and isinstance(if2.body[0].value, (ast.Constant, ast.BinOp, ast.UnaryOp)) and _int_lit(if2.body[0].value, 'hard cut position') == limit):
        raise TranslateError('hard cut does not start with split_pos = LIMIT')
    guard_src = [ast.unparse(s) for s in if2.body[1:]]
    if not guard_src:
        cut_guard = False
    elif len(if2.body) == 2 and isinstance(if2.body[1], ast.If) and not if2.body[1].orelse:
        g = if2.body[1]
        head = f'{rem}[:{pos1}]'
        cnt = f"(len({head}) - len({head}.rstrip('\\\\')))"
        ok_test = any(_is(g.test, x) for x in (f'{cnt} % 2 == 1', f'{cnt} % 2', f'{cnt} % 2 != 0', f'1 == {cnt} % 2', f'{cnt} & 1', f'{cnt} & 1 == 1'))
        ok_step = len(g.body) == 1 and any(_is(g.body[0], x) for x in (f'{pos1} -= 1', f'{pos1} = {pos1} - 1'))
        if not (ok_test and ok_step):
            raise TranslateError('hard-cut guard not recognised: ' + ' ; '.join(guard_src))
        cut_guard = True
    else:
        raise TranslateError('hard-cut guard not recognised: ' + ' ; '.join(guard_src))
    _slice_emit(wb[3 + 1:], secs, rem, pos1, 'space/hard split')
    # if remaining [or not sections]: sections.append(f'"{remaining}"')
    if not (isinstance(s_last, ast.If) and not s_last.orelse and len(s_last.body) == 1):
        raise TranslateError('final append not recognised')
    if not _is(_quoted_fstring(_append_arg(s_last.body[0], secs)), rem):
        raise TranslateError('final append does not write the remaining text')
    t = ast.unparse(s_last.test)
    if _is(s_last.test, rem):
        empty_quotes = False
    elif _is(s_last.test, f'{rem} or not {secs}') or _is(s_last.test, f'not {secs} or {rem}'):
        empty_quotes = True
    else:
        raise TranslateError(f'final append condition not recognised: {t}')
    # file.write((' +\n' + indent).join(sections))
    w = s_write
    if not (isinstance(w, ast.Expr) and _is_call_method(w.value, 'write') and len(w.value.args) == 1  # type: ignore[attr-defined]
            and _is_call_method(w.value.args[0], 'join')):  # type: ignore[attr-defined]
        raise TranslateError('final file.write(...join(sections)) not recognised')
    j = w.value.args[0]  # type: ignore[attr-defined]
    sep = j.func.value
    if not (_is(j.args[0], secs) and isinstance(sep, ast.BinOp) and isinstance(sep.op, ast.Add)
            and _is(sep.right, 'indent')):
        raise TranslateError('joiner expression not recognised')
    joiner = _const(sep.left, str, 'joiner')
    return dict(limit=limit, loop_op=loop_op, needle1=needle1, off1=off1, nl_op=nl_op, min_nl=min_nl, needle2=needle2,
                off2=off2, notfound=notfound, cut_guard=cut_guard, empty_quotes=empty_quotes, joiner=joiner,
                digest=ast_digest(raw), line=raw.lineno)


def _fgd_escape(tree: ast.Module) -> dict:
    fn = _normalise(_fn(tree, '_fgd_escape'), tree, branches=True)      # early return = if/else, `if not c` swapped
    b = _body(fn)
    if [a.arg for a in fn.args.args] != ['extended', 'text'] or len(b) != 1 or not isinstance(b[0], ast.If):
        raise TranslateError('_fgd_escape shape changed')
    if not (_is(b[0].test, 'extended') and len(b[0].body) == 1 and _is(b[0].body[0], 'return escape_text(text)')):
        raise TranslateError('_fgd_escape extended branch: ' + ast.unparse(b[0])[:120])
    if not (len(b[0].orelse) == 1 and isinstance(b[0].orelse[0], ast.Return) and b[0].orelse[0].value is not None):
        raise TranslateError('_fgd_escape plain branch is not a return')
    repl = []
    node = b[0].orelse[0].value
    while _is_call_method(node, 'replace'):
        a0, a1 = node.args  # type: ignore[union-attr]
        repl.append((_const(a0, str, 'replace from'), _const(a1, str, 'replace to')))
        node = node.func.value  # type: ignore[union-attr]
    if not (isinstance(node, ast.Name) and node.id == 'text'):
        raise TranslateError('_fgd_escape plain branch is not a replace() chain on text')
    repl.reverse()
    return dict(std_repl=repl)


# ------------------------------------------------------------------------------------------ _engine_db.py
def _bit_ops(fn: ast.FunctionDef) -> list[tuple[str, int, int]]:
    """(operator, literal, line) of every |, |=, & with an integer literal operand inside fn."""
    out = []
    for n in ast.walk(fn):
        if isinstance(n, ast.BinOp) and isinstance(n.op, (ast.BitOr, ast.BitAnd)):
            for side in (n.left, n.right):
                if isinstance(side, ast.Constant) and isinstance(side.value, int):
                    out.append(('or' if isinstance(n.op, ast.BitOr) else 'and', side.value, n.lineno))
        if isinstance(n, ast.AugAssign) and isinstance(n.op, (ast.BitOr, ast.BitAnd)) and isinstance(n.value, ast.Constant):
            out.append(('or' if isinstance(n.op, ast.BitOr) else 'and', n.value.value, n.lineno))
    return sorted(out, key=lambda x: (x[2], x[0], x[1]))


def _engine_db() -> dict:
    tree = ast.parse(src_text('_engine_db.py'))
    fgd_tree = ast.parse(src_text('fgd.py'))
    const_tree = ast.parse(src_text('const.py'))
    vt_members, vt_alias = enum_members(_cls(fgd_tree, 'ValueTypes'))
    et_members, _ = enum_members(_cls(fgd_tree, 'EntityTypes'))
    ft_members, ft_alias = enum_members(_cls(const_tree, 'FileType'))
    ef_members, ef_alias = enum_members(_cls(tree, 'EntFlags'))
    # IntFlag: a name with the value of an earlier member is an alias of it (MASK_TYPE == TYPE_EXTEND); keep every name
    ef_members = ef_members + [(a, dict(ef_members)[c]) for a, c in ef_alias.items()]
    vt_order = [vt_alias.get(n, n) for n in _attr_list(_module_assign(tree, 'VALUE_TYPE_ORDER'), 'ValueTypes', 'VALUE_TYPE_ORDER')]
    ft_order = [ft_alias.get(n, n) for n in _attr_list(_module_assign(tree, 'FILE_TYPE_ORDER'), 'FileType', 'FILE_TYPE_ORDER')]
    e2f = _module_assign(tree, 'ENTITY_TYPE_2_FLAG')
    if not _is(e2f, "{kind: EntFlags['TYPE_' + kind.name] for kind in EntityTypes}"):
        raise TranslateError('ENTITY_TYPE_2_FLAG not recognised: ' + ast.unparse(e2f))
    for nm, expect in (('VALUE_TYPE_INDEX', '{val: ind for ind, val in enumerate(VALUE_TYPE_ORDER)}'),
                       ('FILE_TYPE_INDEX', '{val: ind for ind, val in enumerate(FILE_TYPE_ORDER)}'),
                       ('ENTITY_FLAG_2_TYPE', '{flag: kind for kind, flag in ENTITY_TYPE_2_FLAG.items()}')):
        if not _is(_module_assign(tree, nm), expect):
            raise TranslateError(f'{nm} not recognised')
    structs = {}
    for nm in ('_fmt_8bit', '_fmt_16bit', '_fmt_32bit', '_fmt_header', '_fmt_ent_header', '_fmt_block_pos'):
        v = _module_assign(tree, nm)
        if not (isinstance(v, ast.Call) and _is(v.func, 'Struct') and len(v.args) == 1):
            raise TranslateError(f'{nm} is not Struct(...)')
        structs[nm] = _const(v.args[0], str, nm)
    consts = {nm: _const(_module_assign(tree, nm), typ, nm) for nm, typ in
              (('BIN_FORMAT_VERSION', int), ('MAX_BLOCK_SIZE', int), ('STRING_SEP', str), ('SHARED_STRINGS', int))}
    bits = {nm: _bit_ops(_fn(tree, nm)) for nm in ('kv_serialise', 'kv_unserialise', 'ent_serialise', 'ent_unserialise')}
    # BinStrDict.__call__: base_dict index raw, own index + SHARED_STRINGS
    bsd = _cls(tree, 'BinStrDict')
    call = [n for n in bsd.body if isinstance(n, ast.FunctionDef) and n.name == '__call__']
    import copy
    if not call or not _is(_branch_normal_form(_body(copy.deepcopy(call[0])))[0], 'if string in self.base_dict:\n    return _fmt_16bit.pack(self.base_dict[string])\n'
                                              'else:\n    return _fmt_16bit.pack(SHARED_STRINGS + self._dict[string])'):
        raise TranslateError('BinStrDict.__call__ not recognised')
    uns = [n for n in bsd.body if isinstance(n, ast.FunctionDef) and n.name == 'unserialise']
    if not uns or not _is(uns[0].body[-1], 'return inv_list, make_lookup(file, base + inv_list)'):
        raise TranslateError('BinStrDict.unserialise lookup list not recognised')
    digests = {}
    edb: dict[str, ast.FunctionDef] = {}
    for n in ast.walk(tree):
        if isinstance(n, ast.ClassDef) and n.name == 'EngineDB':
            for f in n.body:
                if isinstance(f, ast.FunctionDef) and f.name in ('get_ent', '_parse_block', 'get_fgd'):
                    digests[f.name] = ast_digest(f)
                    edb[f.name] = _normalise(f, tree)
    if set(digests) != {'get_ent', '_parse_block', 'get_fgd'}:
        raise TranslateError('EngineDB.get_ent/_parse_block/get_fgd not found')
    lazy = _lazy_db(edb)
    bb = _build_blocks(tree)
    layouts = _record_layouts(tree)
    kvw = layouts['kv_serialise']
    special = {}
    for i, ev in enumerate(kvw[:-1]):
        m = re.fullmatch(r'if\(_\.type is ValueTypes\.(\w+)\)\{', ev)
        if m:
            special['choices' if kvw[i + 1] == 'raise' else 'list'] = vt_alias.get(m.group(1), m.group(1))
    if set(special) != {'list', 'choices'}:
        raise TranslateError(f'kv_serialise: the SPAWNFLAGS / CHOICES branches were not recognised: {kvw}')
    return dict(lazy=lazy, build_blocks=bb, layouts=layouts, special_types=special, vt_members=vt_members, vt_order=vt_order, et_members=et_members, ft_members=ft_members, ft_order=ft_order,
                ef_members=ef_members, structs=structs, consts=consts, bits=bits, digests=digests)


# ------------------------------------------------------------------------------------------ text writers
class _TextSkeleton:
    """The write skeleton of a text exporter: every `file.write(expr)`, `_write_longstring(file, ext, text, indent=..)` and
    nested `.export(file, ...)` call in program order with the branches/loops around them.  Parameter and local
    variable names are rendered as `_` (attribute names, literals, module-level names stay)."""

    def __init__(self, fn: ast.FunctionDef) -> None:
        self.fn = fn
        self.file = fn.args.args[1].arg
        self.locals = {a.arg for a in fn.args.args} | {n.id for n in ast.walk(fn) if isinstance(n, ast.Name) and isinstance(n.ctx, ast.Store)}

    def show(self, node: ast.AST) -> str:
        import copy
        loc = self.locals

        class R(ast.NodeTransformer):
            def visit_Name(self, n: ast.Name) -> ast.AST:   # noqa: N802
                return ast.Name(id='_', ctx=n.ctx) if n.id in loc else n
        return ast.unparse(R().visit(copy.deepcopy(node)))

    def uses_file(self, node: ast.AST) -> bool:
        return any(isinstance(n, ast.Name) and n.id == self.file for n in ast.walk(node))

    def stmt(self, st: ast.stmt) -> list[str]:
        if isinstance(st, ast.Expr) and isinstance(st.value, ast.Call):
            c = st.value
            if isinstance(c.func, ast.Attribute) and isinstance(c.func.value, ast.Name) and c.func.value.id == self.file and c.func.attr == 'write':
                return ['w:' + self.show(c.args[0])]
            if isinstance(c.func, ast.Name) and c.func.id == '_write_longstring':
                kw = {k.arg: k.value for k in c.keywords}
                if len(c.args) != 3 or set(kw) != {'indent'} or not _is(c.args[0], self.file):
                    raise TranslateError(f'{self.fn.name}: _write_longstring call not recognised (line {c.lineno})')
                return [f'ls:{self.show(c.args[1])},{self.show(c.args[2])},{self.show(kw["indent"])}']
            if isinstance(c.func, ast.Attribute) and c.func.attr == 'export' and self.uses_file(c):
                return ['export:' + ','.join(self.show(a) for a in c.args)]
            if self.uses_file(c):
                raise TranslateError(f'{self.fn.name}: the file is used by {ast.unparse(c)[:60]} (line {c.lineno})')
            return []
        if isinstance(st, ast.If):
            body = [e for x in st.body for e in self.stmt(x)]
            orelse = [e for x in st.orelse for e in self.stmt(x)]
            if not body and not orelse:
                return []
            return [f'if({self.show(st.test)}){{'] + body + (['}else{'] + orelse if orelse else []) + ['}']
        if isinstance(st, (ast.For, ast.While)):
            body = [e for x in st.body for e in self.stmt(x)]
            if st.orelse:
                raise TranslateError(f'{self.fn.name}: loop with else')
            if not body:
                return []
            return [f'loop({self.show(st.iter) if isinstance(st, ast.For) else self.show(st.test)}){{'] + body + ['}']
        if isinstance(st, ast.Try):
            # `try: float(value) except ValueError: value = ...` of the choices writer: no write inside
            if any(self.uses_file(x) for x in ast.walk(st)):
                raise TranslateError(f'{self.fn.name}: try statement touches the file')
            return []
        if isinstance(st, ast.Raise):
            return ['raise']
        if isinstance(st, (ast.With, ast.FunctionDef)):
            raise TranslateError(f'{self.fn.name}: {type(st).__name__} statement not supported')
        if self.uses_file(st):
            raise TranslateError(f'{self.fn.name}: statement not recognised: {ast.unparse(st)[:80]}')
        return []

    def run(self) -> list[str]:
        return [e for st in _body(self.fn) for e in self.stmt(st)]


def _method(tree: ast.Module, cls: str, name: str) -> ast.FunctionDef:
    c = _cls(tree, cls)
    fns = [n for n in c.body if isinstance(n, ast.FunctionDef) and n.name == name and not any(
        _is(d, 'overload') for d in n.decorator_list)]
    if len(fns) != 1:
        raise TranslateError(f'{cls}.{name} not found')
    return fns[0]


def _only_colons(lit: ast.AST, what: str) -> int:
    v = _const(lit, str, what)
    if v.strip(' :') != '' or ':' not in v:
        raise TranslateError(f'{what}: separator {v!r} is not made of colons and blanks')
    return v.count(':')


def _kv_default_desc_paths(fn: ast.FunctionDef, body: list[ast.stmt], dvar: str) -> tuple[int, int]:
    """What KVDef.export writes between the display name and the value list, read off EVERY PATH through that part of the function
    instead of one spelling of its `if`s: the part starts after the last binding of the local that holds the default and ends before
    the first statement that contains a loop.  A path is a choice for every test (`not` stripped; conditional expressions that are the
    argument of a write are branches too); the truth of `default` (D) and of `self.desc` (S) is tracked, the same test gets the same
    answer along a path.  Required on all paths:
        D false, S false : nothing is written;          D false, S true : separators made of colons and blanks, then the description;
        D true,  S false : the default (any write that is not a bare separator), nothing after it;
        D true,  S true  : the default, separators, the description.
    Returns the number of colons in the separators (after a default, without a default); everything else fails closed."""
    file = fn.args.args[1].arg
    last_store = max((i for i, st in enumerate(body) if dvar in _stores(st)), default=None)
    if last_store is None:
        raise TranslateError('KVDef.export: the local holding the default is never bound')
    end = next((i for i, st in enumerate(body) if i > last_store and any(isinstance(n, (ast.For, ast.While)) for n in ast.walk(st))), len(body))
    region = body[last_store + 1:end]
    if end == len(body) and region:
        region = region[:-1]            # the final newline write
    rebound = set().union(*[_stores(st) for st in region]) if region else set()
    Event = tuple   # ('w', expr) | ('ls', text expr) | ('stop',)

    def atom(test: ast.AST) -> tuple[str, bool]:
        pol = True
        while isinstance(test, ast.UnaryOp) and isinstance(test.op, ast.Not):
            pol, test = not pol, test.operand
        if isinstance(test, ast.Call) and _is(test.func, 'bool') and len(test.args) == 1 and not test.keywords:
            test = test.args[0]
        return ast.unparse(test), pol

    def choose(test: ast.AST, env: dict[str, bool]) -> list[tuple[bool, dict[str, bool]]]:
        key, pol = atom(test)
        names = {n.id for n in ast.walk(test) if isinstance(n, ast.Name)}
        if key in env:
            return [(env[key] == pol, env)]
        if names & rebound:             # may change between two evaluations: not remembered
            return [(True, env), (False, env)]
        return [(pol, {**env, key: True}), (not pol, {**env, key: False})]

    def expr_paths(e: ast.AST, env: dict[str, bool]) -> list[tuple[ast.AST, dict[str, bool]]]:
        if isinstance(e, ast.IfExp):
            out = []
            for val, env2 in choose(e.test, env):
                out += expr_paths(e.body if val else e.orelse, env2)
            return out
        return [(e, env)]

    def run(sts: list[ast.stmt], env: dict[str, bool], evs: list[Event]) -> list[tuple[dict[str, bool], list[Event]]]:
        if not sts:
            return [(env, evs)]
        st, rest = sts[0], sts[1:]
        if isinstance(st, ast.If):
            out = []
            for val, env2 in choose(st.test, env):
                for env3, evs3 in run(list(st.body if val else st.orelse), env2, evs):
                    if evs3 and evs3[-1] == ('stop',):
                        out.append((env3, evs3))
                    else:
                        out += run(rest, env3, evs3)
            return out
        if isinstance(st, (ast.Return, ast.Raise)):
            return [(env, evs + [('stop',)])]
        uses = any(isinstance(n, ast.Name) and n.id == file for n in ast.walk(st))
        if isinstance(st, ast.Expr) and isinstance(st.value, ast.Call) and uses:
            c = st.value
            if _is_call_method(c, 'write') and _is(c.func.value, file) and len(c.args) == 1 and not c.keywords:  # type: ignore[attr-defined]
                out = []
                for e, env2 in expr_paths(c.args[0], env):
                    out += run(rest, env2, evs + [('w', e)])
                return out
            if _is(c.func, '_write_longstring') and len(c.args) == 3 and _is(c.args[0], file):
                return run(rest, env, evs + [('ls', c.args[2])])
        if uses or isinstance(st, (ast.For, ast.While, ast.Try, ast.With, ast.Match, ast.FunctionDef)):
            raise TranslateError(f'KVDef.export: statement between default and value list not recognised: {ast.unparse(st)[:80]}')
        return run(rest, env, evs)

    def is_sep(e: ast.AST) -> bool:
        return isinstance(e, ast.Constant) and isinstance(e.value, str) and e.value.strip(' :') == '' and ':' in e.value

    with_d: set[int] = set()
    without_d: set[int] = set()
    paths = run(region, {}, [])
    if len(paths) > 4096:
        raise TranslateError('KVDef.export: too many paths between default and value list')
    for env, evs in paths:
        d, sd = env.get(dvar), env.get('self.desc')
        evs = [e for e in evs if e != ('stop',)]
        descs = [i for i, e in enumerate(evs) if e[0] == 'ls']
        if any(not _is(evs[i][1], 'self.desc') for i in descs):
            raise TranslateError('KVDef.export: a long string other than the description is written after the default')
        where = f'(default {"present" if d else "absent" if d is not None else "not tested"}, description ' \
                f'{"present" if sd else "absent" if sd is not None else "not tested"})'
        if d is None and evs:
            raise TranslateError(f'KVDef.export: something is written without a test of the default {where}')
        if (len(descs) == 1) != bool(sd) or len(descs) > 1:
            raise TranslateError(f'KVDef.export: the description is not written exactly when it is non-empty {where}')
        if descs and descs[0] != len(evs) - 1:
            raise TranslateError(f'KVDef.export: something is written after the description {where}')
        head = evs[:-1] if descs else evs
        k = len(head)
        while k > 0 and is_sep(head[k - 1][1]):
            k -= 1
        dflt, seps = head[:k], head[k:]
        if any(is_sep(e[1]) for e in dflt):
            raise TranslateError(f'KVDef.export: separator before the default {where}')
        if bool(dflt) != bool(d):
            raise TranslateError(f'KVDef.export: the default is not written exactly when it is non-empty {where}')
        if seps and not descs:
            raise TranslateError(f'KVDef.export: a separator is written without a description {where}')
        if descs:
            (with_d if d else without_d).add(sum(e[1].value.count(':') for e in seps))
    if len(with_d) != 1 or len(without_d) != 1:
        raise TranslateError(f'KVDef.export: the separators before the description differ between paths: {sorted(with_d)} / {sorted(without_d)}')
    return with_d.pop(), without_d.pop()


class _TryIntAsIf(ast.NodeTransformer):
    """`try: int(X) / except ValueError: A / else: B` (or B as the rest of the try body) is a TEST of X: rewritten to
    `if __int_accepts__(X): B else: A`, so that the path analysis, the write skeleton and _bare_default_test see a branch whose test
    is `int() accepts X` instead of failing closed on the try statement."""

    def visit_Try(self, node: ast.Try) -> ast.AST:
        self.generic_visit(node)
        b = node.body
        if (b and isinstance(b[0], ast.Expr) and isinstance(b[0].value, ast.Call) and _is(b[0].value.func, 'int') and len(b[0].value.args) == 1
                and not b[0].value.keywords and len(node.handlers) == 1 and node.handlers[0].type is not None
                and any(_is(node.handlers[0].type, t) for t in ('ValueError', '(ValueError, TypeError)', '(TypeError, ValueError)'))
                and not node.finalbody and (len(b) > 1) != bool(node.orelse)):
            test = ast.Call(func=ast.Name('__int_accepts__', ast.Load()), args=[b[0].value.args[0]], keywords=[])
            new = ast.If(test=test, body=list(b[1:]) + list(node.orelse), orelse=list(node.handlers[0].body))
            return ast.fix_missing_locations(ast.copy_location(new, node))
        return node


def _bare_default_test(fn: ast.FunctionDef) -> tuple[str, str]:
    """The test under which KVDef.export writes the default WITHOUT quotes (Fmt/FgdBare.v [bare_test]): every `file.write(<colons and
    blanks> + W)` / f'<colons and blanks>{W}' and the innermost test around it.  Recognised: `all(c in '<chars>' for c in W)`,
    `set(W) <= set('<chars>')`, `set(W).issubset('<chars>')` -> ('chars', chars); `int()` accepting W (see _TryIntAsIf) -> ('int', '');
    no such write -> ('chars', ''): nothing is written bare.  Anything else (isdigit, regular expressions, ...) fails closed."""
    file = fn.args.args[1].arg
    found: list[tuple[ast.AST, list[tuple[ast.AST, bool]]]] = []

    def is_sep(e: ast.AST) -> bool:
        return isinstance(e, ast.Constant) and isinstance(e.value, str) and e.value.strip(' :') == '' and ':' in e.value

    def walk(sts: list[ast.stmt], guards: list[tuple[ast.AST, bool]]) -> None:
        for st in sts:
            if isinstance(st, ast.If):
                walk(st.body, guards + [(st.test, True)])
                walk(st.orelse, guards + [(st.test, False)])
                continue
            if isinstance(st, (ast.For, ast.While, ast.With, ast.Try)):
                for f in ('body', 'orelse', 'finalbody'):
                    walk(getattr(st, f, []), guards)
                for h in getattr(st, 'handlers', []):
                    walk(h.body, guards)
                continue
            if isinstance(st, ast.Expr) and _is_call_method(st.value, 'write') and _is(st.value.func.value, file) and len(st.value.args) == 1:  # type: ignore[attr-defined]
                a = st.value.args[0]  # type: ignore[attr-defined]
                if isinstance(a, ast.BinOp) and isinstance(a.op, ast.Add) and is_sep(a.left) and not isinstance(a.right, ast.Constant):
                    found.append((a.right, guards))
                elif isinstance(a, ast.JoinedStr) and len(a.values) == 2 and is_sep(a.values[0]) and isinstance(a.values[1], ast.FormattedValue):
                    found.append((a.values[1].value, guards))

    walk(_body(fn), [])
    out: set[tuple[str, str]] = set()
    for w, guards in found:
        if not guards:
            raise TranslateError('KVDef.export: a default is written without quotes unconditionally')
        test, pol = guards[-1]
        while isinstance(test, ast.UnaryOp) and isinstance(test.op, ast.Not):
            pol, test = not pol, test.operand
        wd = ast.dump(w)
        kind: Optional[tuple[str, str]] = None
        if isinstance(test, ast.Call) and _is(test.func, '__int_accepts__') and ast.dump(test.args[0]) == wd:
            kind = ('int', '')
        elif (isinstance(test, ast.Call) and _is(test.func, 'all') and len(test.args) == 1 and isinstance(test.args[0], (ast.GeneratorExp, ast.ListComp))
              and len(test.args[0].generators) == 1 and not test.args[0].generators[0].ifs and ast.dump(test.args[0].generators[0].iter) == wd):
            g = test.args[0]
            e, v = g.elt, g.generators[0].target
            if (isinstance(e, ast.Compare) and len(e.ops) == 1 and isinstance(e.ops[0], ast.In) and isinstance(v, ast.Name) and _is(e.left, v.id)
                    and isinstance(e.comparators[0], ast.Constant) and isinstance(e.comparators[0].value, str)):
                kind = ('chars', e.comparators[0].value)
        elif (isinstance(test, ast.Compare) and len(test.ops) == 1 and isinstance(test.ops[0], ast.LtE) and isinstance(test.left, ast.Call)
              and _is(test.left.func, 'set') and len(test.left.args) == 1 and ast.dump(test.left.args[0]) == wd):
            c = test.comparators[0]
            if isinstance(c, ast.Call) and _is(c.func, 'set') and len(c.args) == 1 and isinstance(c.args[0], ast.Constant) and isinstance(c.args[0].value, str):
                kind = ('chars', c.args[0].value)
        elif (_is_call_method(test, 'issubset') and isinstance(test.func.value, ast.Call) and _is(test.func.value.func, 'set')  # type: ignore[attr-defined]
              and len(test.func.value.args) == 1 and ast.dump(test.func.value.args[0]) == wd and len(test.args) == 1  # type: ignore[attr-defined]
              and isinstance(test.args[0], ast.Constant) and isinstance(test.args[0].value, str)):  # type: ignore[attr-defined]
            kind = ('chars', test.args[0].value)  # type: ignore[attr-defined]
        if kind is None or not pol:
            raise TranslateError('KVDef.export: the test under which a default is written without quotes is not recognised: ' + ast.unparse(guards[-1][0])[:100])
        out.add((kind[0], ''.join(sorted(set(kind[1]), key=kind[1].index))))
    if len(out) > 1:
        raise TranslateError(f'KVDef.export: defaults are written without quotes under different tests: {sorted(out)}')
    return out.pop() if out else ('chars', '')


def _text_writers(tree: ast.Module) -> dict:
    """Decisive branches of KVDef.export / EntityDef.export (the model is Fmt/FgdLine.v [line_cfg]) and the write
    skeletons of KVDef.export, IODef.export and EntityDef.export."""
    import copy as _copy
    kve = _normalise(_TryIntAsIf().visit(_copy.deepcopy(_method(tree, 'KVDef', 'export'))), tree)
    bare_test = _bare_default_test(kve)
    ioe = _normalise(_method(tree, 'IODef', 'export'), tree)
    ente = _normalise(_method(tree, 'EntityDef', 'export'), tree)
    body = _body(kve)
    # `default = self.default` ... `if not default and self.type is ValueTypes.BOOL: default = '0'` ... `if default: ... else: ...`
    dvar = None
    for st in body:
        if isinstance(st, ast.Assign) and isinstance(st.targets[0], ast.Name) and _is(st.value, 'self.default'):
            dvar = st.targets[0].id
    if dvar is None:
        raise TranslateError('KVDef.export: `default = self.default` not found')
    fills = [st for st in body if isinstance(st, ast.If) and any(
        isinstance(x, ast.Assign) and isinstance(x.targets[0], ast.Name) and x.targets[0].id == dvar for x in st.body)]
    if not fills:
        bool_fill = False
    elif len(fills) == 1 and (_is(fills[0].test, f'not {dvar} and self.type is ValueTypes.BOOL')
                              or _is(fills[0].test, f'not {dvar} and self._type is ValueTypes.BOOL')
                              or _is(fills[0].test, f'self.type is ValueTypes.BOOL and not {dvar}')) \
            and len(fills[0].body) == 1 and _is(fills[0].body[0], f"{dvar} = '0'") and not fills[0].orelse:
        bool_fill = True
    else:
        raise TranslateError('KVDef.export: the BOOL default fill is not recognised: ' + ' ; '.join(ast.unparse(f)[:80] for f in fills))
    colons_with, colons_without = _kv_default_desc_paths(kve, body, dvar)
    # EntityDef.export: when is the @resources block written
    res_ifs = [st for st in ast.walk(ente) if isinstance(st, ast.If) and any(
        isinstance(n, ast.Constant) and isinstance(n.value, str) and '@resources' in n.value for x in st.body for n in ast.walk(x))]
    if len(res_ifs) != 1:
        raise TranslateError('EntityDef.export: the `if` that writes the @resources block was not found exactly once')
    t = res_ifs[0].test
    if not (isinstance(t, ast.BoolOp) and isinstance(t.op, ast.And) and len(t.values) == 2 and any(_is(v, 'custom_syntax') for v in t.values)):
        raise TranslateError('EntityDef.export: @resources condition is not `custom_syntax and ...`: ' + ast.unparse(t))
    cond = [v for v in t.values if not _is(v, 'custom_syntax')][0]
    defined = ('self.resources != ()', '() != self.resources', 'self.resources_defined()', 'not self.resources == ()')
    nonempty = ('self.resources', 'len(self.resources) > 0', 'len(self.resources) != 0', 'len(self.resources)', 'bool(self.resources)',
                'self.resources != () and self.resources', 'len(self.resources) >= 1')
    if any(_is(cond, x) for x in defined):
        res_defined = True
    elif any(_is(cond, x) for x in nonempty):
        res_defined = False
    else:
        raise TranslateError('EntityDef.export: @resources condition not recognised: ' + ast.unparse(cond))
    sk = {'KVDef.export': _TextSkeleton(kve).run(), 'IODef.export': _TextSkeleton(ioe).run(), 'EntityDef.export': _TextSkeleton(ente).run()}

    def has_run(lst: list[str], run: list[str]) -> bool:
        return any(lst[i:i + len(run)] == run for i in range(len(lst)))
    # spawnflags keyvalues write no display name, everything else writes `: "display name"`
    if not has_run(sk['KVDef.export'], ['if(_._type is not ValueTypes.SPAWNFLAGS){', "w:': '", "ls:_,_.disp_name,'\\t'", '}']):
        raise TranslateError('KVDef.export: `if self._type is not ValueTypes.SPAWNFLAGS: ": " + display name` not recognised')
    if not has_run(sk['IODef.export'], ['if(_.desc){', "w:' : '", "ls:_,_.desc,'\\t'", '}', "w:'\\n'"]):
        raise TranslateError('IODef.export: `if self.desc: " : " + description` then newline not recognised')
    return dict(bare_test=bare_test, bool_fill=bool_fill, colons_with_default=colons_with, colons_without_default=colons_without, res_if_defined=res_defined,
                skeletons=sk)


# ------------------------------------------------------------------------------------------ record layouts
class _Skeleton:
    """The I/O skeleton of one (un)serialiser: the primitive reads/writes in program order with the loops and
    branches that contain them.  Local variable and parameter names do not appear (rendered as `_`, or as `#k` when the
    variable holds the k-th value read so far / the k-th header field); attribute names, module-level names and
    literals do.  Anything that touches the file in a way not listed here fails closed."""

    def __init__(self, fn: ast.FunctionDef, file_arg: str, dict_arg: str) -> None:
        self.fn, self.file, self.dic = fn, file_arg, dict_arg
        self.locals = {a.arg for a in fn.args.args} | {n.id for n in ast.walk(fn) if isinstance(n, ast.Name) and isinstance(n.ctx, ast.Store)}
        self.bound: dict[str, str] = {}     # local name -> '#k'
        self.nread = 0
        self.out: list[str] = []

    # -- rendering of tests / iterables
    def show(self, node: ast.AST) -> str:
        bound, loc = self.bound, self.locals

        class R(ast.NodeTransformer):
            def visit_Name(self, n: ast.Name) -> ast.AST:   # noqa: N802
                if n.id in bound:
                    return ast.Name(id=bound[n.id].replace('#', 'R'), ctx=n.ctx)
                return ast.Name(id='_', ctx=n.ctx) if n.id in loc else n
        import copy
        return ast.unparse(R().visit(copy.deepcopy(node))).replace('R', '#') if False else ast.unparse(R().visit(copy.deepcopy(node)))

    def touches_file(self, node: ast.AST) -> bool:
        return any(isinstance(n, ast.Name) and n.id in (self.file, self.dic) for n in ast.walk(node))

    @staticmethod
    def items(evs: list[str]) -> list[tuple[str, ...]]:
        """Split a list of events into its top-level items (single events and whole `if`/`loop` blocks)."""
        out: list[tuple[str, ...]] = []
        cur: list[str] = []
        depth = 0
        for e in evs:
            cur.append(e)
            if e == '}else{':
                continue
            if e.endswith('{'):
                depth += 1
            elif e == '}':
                depth -= 1
            if depth == 0:
                out.append(tuple(cur))
                cur = []
        return out + ([tuple(cur)] if cur else [])

    @classmethod
    def branches(cls, test: str, body: list[str], orelse: list[str]) -> list[str]:
        """Events of a two-way choice in normal form: what both branches do first / last is done before / after the choice (the
        conditions never read the file, and which VALUE is written is not part of the skeleton), a branch without events is left
        out, a choice without events disappears.  `if c: w(a); t() else: w(b)` and `w(a if c else b); if c: t()` are the same."""
        if not any(e != 'return' for e in body + orelse):
            return []
        b, o = cls.items(body), cls.items(orelse)
        pre: list[tuple[str, ...]] = []
        while b and o and b[0] == o[0] and b[0] != ('return',):
            pre.append(b.pop(0))
            o.pop(0)
        post: list[tuple[str, ...]] = []
        while b and o and b[-1] == o[-1] and b[-1] != ('return',):
            post.insert(0, b.pop())
            o.pop()
        flat = lambda xs: [e for it in xs for e in it]   # noqa: E731
        mid: list[str] = []
        if b or o:
            if not b:       # only the else branch does something: keep the shape `if(c){}else{..}` explicit
                mid = [f'if({test}){{', '}else{'] + flat(o) + ['}']
            else:
                mid = [f'if({test}){{'] + flat(b) + (['}else{'] + flat(o) if o else []) + ['}']
        return flat(pre) + mid + flat(post)

    # -- one primitive expression
    def prim_write(self, call: ast.Call) -> str:
        """file.write(ARG)"""
        (arg,) = call.args
        if isinstance(arg, ast.Call) and isinstance(arg.func, ast.Name) and arg.func.id == self.dic and len(arg.args) == 1:
            return 'str'
        if isinstance(arg, ast.Call) and _is(arg.func, '_fmt_8bit.pack') and len(arg.args) == 1:
            return 'u8'
        if isinstance(arg, ast.Call) and _is(arg.func, '_fmt_ent_header.pack'):
            return 'hdr:' + ','.join(self.show(a) for a in arg.args)
        raise TranslateError(f'{self.fn.name}: write of {ast.unparse(arg)[:60]} not recognised (line {call.lineno})')

    def events_of_expr(self, node: ast.AST) -> list[str]:
        """Primitive events of one expression, in evaluation order (arguments before the call)."""
        ev: list[str] = []
        if isinstance(node, ast.IfExp):
            # `A if c else B` is the expression form of `if c: A else: B`: same events, same rendering
            if self.events_of_expr(node.test):
                raise TranslateError(f'{self.fn.name}: the file is read inside a condition (line {node.lineno})')
            return self.branches(self.show(node.test), self.events_of_expr(node.body), self.events_of_expr(node.orelse))
        for ch in ast.iter_child_nodes(node):
            if not (isinstance(node, ast.Call) and ch is node.func):
                ev += self.events_of_expr(ch)
        if isinstance(node, ast.Call):
            f = node.func
            if isinstance(f, ast.Attribute) and isinstance(f.value, ast.Name) and f.value.id == self.file:
                if f.attr == 'write':
                    inner = self.prim_write(node)
                    return [e for e in ev if e != 'str'] + [inner] if inner == 'str' else ev + [inner]
                if f.attr == 'read':
                    return ev + ['read:' + self.show(node.args[0])]
                raise TranslateError(f'{self.fn.name}: file.{f.attr} not recognised')
            if isinstance(f, ast.Name) and f.id == self.dic:
                return ev + ['str']
            if _is(f, 'BinStrDict.write_tags') or _is(f, 'BinStrDict.read_tags'):
                return ev + ['tags']
            if isinstance(f, ast.Name) and f.id in ('kv_serialise', 'kv_unserialise'):
                return ev + ['kv']
            if isinstance(f, ast.Name) and f.id in ('iodef_serialise', 'iodef_unserialise'):
                return ev + ['io']
            if any(isinstance(a, ast.Name) and a.id in (self.file, self.dic) for a in node.args) and not (
                    _is(f, '_fmt_8bit.pack') or _is(f, '_fmt_ent_header.pack') or _is(f, '_fmt_ent_header.unpack')):
                raise TranslateError(f'{self.fn.name}: the file is passed to {ast.unparse(f)} (line {node.lineno})')
        return ev

    def stmt(self, st: ast.stmt) -> list[str]:
        if isinstance(st, (ast.Assign, ast.AnnAssign, ast.AugAssign, ast.Expr, ast.Return, ast.Assert)):
            val = getattr(st, 'value', None) if not isinstance(st, ast.Assert) else None
            ev = self.events_of_expr(val) if val is not None else []
            out: list[str] = []
            for e in ev:
                if e.startswith('read:'):
                    what = e[5:]
                    if what == '1':
                        out.append('u8')
                    elif what == '_fmt_ent_header.size':
                        out.append('hdr')
                    else:
                        raise TranslateError(f'{self.fn.name}: file.read({what}) not recognised')
                else:
                    out.append(e)
            # bind the targets of a read to #k
            if isinstance(st, ast.Assign) and out and out[-1] in ('u8', 'str', 'hdr') and len(out) == 1:
                tgt = st.targets[0]
                names = [tgt.id] if isinstance(tgt, ast.Name) else (
                    [e.id for e in tgt.elts if isinstance(e, ast.Name)] if isinstance(tgt, (ast.List, ast.Tuple)) else [])
                if out[0] == 'hdr':
                    for k, nm in enumerate(names):
                        self.bound[nm] = f'h{k}'
                    out = [f'hdr{len(names)}']
                else:
                    for nm in names:
                        self.bound[nm] = f'r{self.nread}'
                    self.nread += 1
            elif any(e in ('u8', 'str') for e in out):
                self.nread += sum(1 for e in out if e in ('u8', 'str'))
            if isinstance(st, ast.Return) and self.depth:
                out.append('return')
            return out
        if isinstance(st, ast.If):
            if self.events_of_expr(st.test):
                raise TranslateError(f'{self.fn.name}: the file is read inside a condition (line {st.lineno})')
            test = self.show(st.test)
            self.depth += 1
            n0 = self.nread
            body = [e for x in st.body for e in self.stmt(x)]
            n1, self.nread = self.nread, n0
            orelse = [e for x in st.orelse for e in self.stmt(x)]
            self.nread = max(n1, self.nread)          # the values read so far are counted along one path, not along both
            self.depth -= 1
            return self.branches(test, body, orelse)
        if isinstance(st, (ast.For, ast.While)):
            if self.events_of_expr(st.iter if isinstance(st, ast.For) else st.test):
                raise TranslateError(f'{self.fn.name}: the file is read in a loop header (line {st.lineno})')
            self.depth += 1
            body = [e for x in st.body for e in self.stmt(x)]
            self.depth -= 1
            if st.orelse:
                raise TranslateError(f'{self.fn.name}: loop with else')
            if not any(e != 'return' for e in body):
                return []
            head = self.show(st.iter) if isinstance(st, ast.For) else self.show(st.test)
            return [f'loop({head}){{'] + body + ['}']
        if isinstance(st, ast.Raise):
            return ['raise']
        if isinstance(st, (ast.Continue, ast.Pass, ast.Break)):
            return []
        if isinstance(st, (ast.With, ast.Try, ast.FunctionDef, ast.Match if hasattr(ast, 'Match') else ast.With)):
            raise TranslateError(f'{self.fn.name}: {type(st).__name__} statement not supported')
        if self.touches_file(st):
            raise TranslateError(f'{self.fn.name}: statement not recognised: {ast.unparse(st)[:80]}')
        return []

    def run(self) -> list[str]:
        self.depth = 0
        return [e for st in _body(self.fn) for e in self.stmt(st)]


def _record_layouts(tree: ast.Module) -> dict[str, list[str]]:
    out = {}
    for nm, (fi, di) in {'kv_serialise': (1, 2), 'kv_unserialise': (0, 1), 'iodef_serialise': (1, 2), 'iodef_unserialise': (0, 1),
                         'ent_serialise': (1, 2), 'ent_unserialise': (0, 2)}.items():
        fn = _fn(tree, nm)
        args = [a.arg for a in fn.args.args]
        if len(args) != 3 and not (nm.endswith('unserialise') and nm != 'ent_unserialise' and len(args) == 2):
            raise TranslateError(f'{nm} signature changed: {args}')
        out[nm] = _Skeleton(fn, args[fi], args[di]).run()
    return out


def _self_attr(node: ast.AST, attr: str) -> bool:
    return isinstance(node, ast.Attribute) and node.attr == attr and isinstance(node.value, ast.Name) and node.value.id == 'self'


def _self_call(node: ast.AST, meth: str) -> bool:
    return isinstance(node, ast.Call) and _self_attr(node.func, meth)


def _lazy_db(edb: dict[str, ast.FunctionDef]) -> dict:
    """The decisive shapes of EngineDB.get_ent / _parse_block / get_fgd (the model is SM/LazyDb.v):
      * get_ent: look the (casefolded) name up in ent_map, return a decoded entry at once, otherwise
        _parse_block(<that entry>) and look the name up again;
      * _parse_block: returns at once for an emptied block; the block is marked as decoded (`self.unparsed[index] = ...`)
        before or after the loop that replaces the stored base names (mark_before_resolve), and that loop resolves
        each name through self.get_ent (decoding the block of the base on demand) or by looking at self.ent_map only
        (via_get_ent);
      * get_fgd: calls _parse_block for every block index of enumerate(self.unparsed)."""
    # ---- get_ent
    ge = edb['get_ent']
    gargs = [a.arg for a in ge.args.args]
    if len(gargs) != 2:
        raise TranslateError(f'EngineDB.get_ent signature changed: {gargs}')
    cn = gargs[1]
    look = f'self.ent_map[{cn}.casefold()]'
    gb = [st for st in _body(ge) if not isinstance(st, ast.Assert)]
    ok = (len(gb) == 5 and isinstance(gb[0], ast.Assign) and isinstance(gb[0].targets[0], ast.Name) and _is(gb[0].value, look)
          and isinstance(gb[1], ast.If) and not gb[1].orelse and len(gb[1].body) == 1 and isinstance(gb[1].body[0], ast.Return)
          and isinstance(gb[3], ast.Assign) and isinstance(gb[3].targets[0], ast.Name) and _is(gb[3].value, look)
          and isinstance(gb[4], ast.Return))
    if ok:
        v0, v1 = gb[0].targets[0].id, gb[3].targets[0].id  # type: ignore[attr-defined]
        ok = (_is(gb[1].test, f'isinstance({v0}, EntityDef)') and _is(gb[1].body[0], f'return {v0}')  # type: ignore[attr-defined]
              and _is(gb[2], f'self._parse_block({v0})') and _is(gb[4], f'return {v1}'))
    if not ok:
        raise TranslateError('EngineDB.get_ent: look-up / isinstance / _parse_block / second look-up not recognised')
    # ---- _parse_block
    pb = edb['_parse_block']
    pargs = [a.arg for a in pb.args.args]
    if len(pargs) != 2:
        raise TranslateError(f'EngineDB._parse_block signature changed: {pargs}')
    idx = pargs[1]
    body = _body(pb)
    if not (body and isinstance(body[0], ast.Assign) and _is(body[0].value, f'self.unparsed[{idx}]')
            and isinstance(body[0].targets[0], ast.Tuple) and len(body[0].targets[0].elts) == 2
            and all(isinstance(e, ast.Name) for e in body[0].targets[0].elts)):
        raise TranslateError('_parse_block does not start with `classes, data = self.unparsed[index]`')
    classes, data = (e.id for e in body[0].targets[0].elts)  # type: ignore[attr-defined]
    if not (len(body) > 1 and _is(body[1], f'if not {data}:\n    return')):
        raise TranslateError('_parse_block: `if not data: return` not recognised')
    mark = [i for i, st in enumerate(body) if isinstance(st, ast.Assign) and len(st.targets) == 1
            and ast.unparse(st.targets[0]) == f'self.unparsed[{idx}]']
    if len(mark) != 1 or not _is(body[mark[0]].value, "((), b'')"):  # type: ignore[attr-defined]
        raise TranslateError("_parse_block: the statement `self.unparsed[index] = ((), b'')` was not found exactly once")
    loops = [i for i, st in enumerate(body) if isinstance(st, ast.For)]
    if len(loops) != 2:
        raise TranslateError(f'_parse_block: expected the decoding loop and the bases loop, found {len(loops)} loops')
    dec, app = body[loops[0]], body[loops[1]]
    if not _is(dec.iter, classes):  # type: ignore[attr-defined]
        raise TranslateError('_parse_block: the first loop does not run over the class names of the block')
    stores = [n for n in ast.walk(dec) if isinstance(n, ast.Assign) and any(
        isinstance(t, ast.Subscript) and _self_attr(t.value, 'ent_map') for t in n.targets)]
    if len(stores) != 1 or not (isinstance(stores[0].value, ast.Call) and _is(stores[0].value.func, 'ent_unserialise')):
        raise TranslateError('_parse_block: `self.ent_map[...] = ent_unserialise(...)` not recognised in the decoding loop')
    # which list collects the definitions with stored bases
    appends = [n for n in ast.walk(dec) if isinstance(n, ast.Call) and _is_call_method(n, 'append')
               and isinstance(n.func.value, ast.Name)]  # type: ignore[attr-defined]
    pend = {n.func.value.id for n in appends}  # type: ignore[attr-defined]
    if not (isinstance(app.iter, ast.Name) and app.iter.id in pend and not app.orelse):  # type: ignore[attr-defined]
        raise TranslateError('_parse_block: the second loop does not run over the list filled by the decoding loop')
    get_calls = [n for n in ast.walk(app) if _self_call(n, 'get_ent')]
    map_reads = [n for n in ast.walk(app) if _self_attr(n, 'ent_map')]
    other_self = [n for n in ast.walk(app) if isinstance(n, ast.Attribute) and isinstance(n.value, ast.Name) and n.value.id == 'self'
                  and n.attr not in ('get_ent', 'ent_map')]
    writes_bases = any(isinstance(n, (ast.Assign, ast.AugAssign)) and any(
        (isinstance(t, ast.Attribute) and t.attr == 'bases') or
        (isinstance(t, ast.Subscript) and isinstance(t.value, ast.Attribute) and t.value.attr == 'bases')
        for t in (n.targets if isinstance(n, ast.Assign) else [n.target])) for n in ast.walk(app))
    if other_self or not writes_bases:
        raise TranslateError('_parse_block: bases loop not recognised: ' + ast.unparse(app)[:200])
    if get_calls and not map_reads:
        if not all(len(c.args) == 1 and not c.keywords for c in get_calls):
            raise TranslateError('_parse_block: get_ent call in the bases loop not recognised')
        via_get_ent = True
    elif map_reads and not get_calls:
        via_get_ent = False
    else:
        raise TranslateError('_parse_block: the bases loop neither calls self.get_ent nor reads self.ent_map (or does both): '
                             + ast.unparse(app)[:200])
    # ---- get_fgd
    gf = edb['get_fgd']
    found = False
    for n in ast.walk(gf):
        if not isinstance(n, ast.For) or n.orelse:
            continue
        # every block index: `for i, .. in enumerate(self.unparsed)` or `for i in range(len(self.unparsed))`
        if _is(n.iter, 'enumerate(self.unparsed)') and isinstance(n.target, ast.Tuple) and isinstance(n.target.elts[0], ast.Name):
            i = n.target.elts[0].id
        elif (_is(n.iter, 'range(len(self.unparsed))') or _is(n.iter, 'range(0, len(self.unparsed))')) and isinstance(n.target, ast.Name):
            i = n.target.id
        else:
            continue
        # the call is made for every index, or skipped only for blocks without data (what _parse_block itself tests first)
        for st in n.body:
            data_names = set([e.id for e in ast.walk(n.target) if isinstance(e, ast.Name)][-1:]) - {i}   # the last name of `i, (classes, data)`
            guard_ok = isinstance(st, ast.If) and not st.orelse and (
                (isinstance(st.test, ast.Name) and st.test.id in data_names) or _is(st.test, f'self.unparsed[{i}][1]'))
            calls = st.body if guard_ok else [st]      # type: ignore[attr-defined]
            if len(calls) == 1 and _is(calls[0], f'self._parse_block({i})') and not any(
                    isinstance(x, (ast.Break, ast.Return)) for x in ast.walk(n)):
                found = True
    if not found:
        raise TranslateError('get_fgd: `for i, ... in enumerate(self.unparsed): ... self._parse_block(i)` not recognised')
    # every return of get_fgd hands out deepcopy(<something>) (then what FGD.engine_dbase receives is already the caller's own)
    gf_rets = [n for n in ast.walk(gf) if isinstance(n, ast.Return)]
    gf_deep = bool(gf_rets) and all(n.value is not None and _is_deepcopy(n.value) is not None for n in gf_rets)
    return dict(via_get_ent=via_get_ent, mark_before_resolve=mark[0] < loops[1], mark_after_decode=mark[0] > loops[0],
                fgd_applies_bases=any(_is_call_method(n, 'apply_bases') for n in ast.walk(gf)), get_fgd_returns_deepcopy=gf_deep)


# ------------------------------------------------------------------------------------------ several databases
def _single_assignments(fn: ast.FunctionDef) -> dict[str, ast.AST]:
    """Locals of fn that are bound exactly once, by a plain `name = value` / `name: T = value`: name -> value."""
    stores: dict[str, int] = {}
    for n in ast.walk(fn):
        if isinstance(n, ast.Name) and isinstance(n.ctx, (ast.Store, ast.Del)):
            stores[n.id] = stores.get(n.id, 0) + 1
    for a in list(fn.args.args) + list(fn.args.kwonlyargs) + list(fn.args.posonlyargs):
        stores[a.arg] = stores.get(a.arg, 0) + 1
    env: dict[str, ast.AST] = {}
    for n in ast.walk(fn):
        if isinstance(n, ast.Assign) and len(n.targets) == 1 and isinstance(n.targets[0], ast.Name) and stores.get(n.targets[0].id) == 1:
            env[n.targets[0].id] = n.value
        elif isinstance(n, ast.AnnAssign) and isinstance(n.target, ast.Name) and n.value is not None and stores.get(n.target.id) == 1:
            env[n.target.id] = n.value
    return env


def _deref(node: ast.AST, env: dict[str, ast.AST], skip: frozenset = frozenset()) -> ast.AST:
    """node with every load of a single-assignment local replaced by the value it was bound to (recursively)."""
    import copy

    class R(ast.NodeTransformer):
        def visit_Name(self, n: ast.Name) -> ast.AST:   # noqa: N802
            if isinstance(n.ctx, ast.Load) and n.id in env and n.id not in skip:
                return _deref(env[n.id], env, skip | {n.id})
            return n
    return R().visit(copy.deepcopy(node))


def _norm_membership(test: ast.AST) -> tuple[str, ast.AST, ast.AST] | None:
    """`k in d`, `k in d.keys()`, `not k in d`, `k not in d`, `not (k not in d)` -> ('in' | 'notin', k, d)."""
    neg = False
    while isinstance(test, ast.UnaryOp) and isinstance(test.op, ast.Not):
        neg, test = not neg, test.operand
    if not (isinstance(test, ast.Compare) and len(test.ops) == 1 and isinstance(test.ops[0], (ast.In, ast.NotIn))):
        return None
    if isinstance(test.ops[0], ast.NotIn):
        neg = not neg
    d = test.comparators[0]
    if _is_call_method(d, 'keys') and not d.args and not d.keywords:  # type: ignore[attr-defined]
        d = d.func.value  # type: ignore[attr-defined]
    return ('notin' if neg else 'in', test.left, d)


def _same(a: ast.AST, b: ast.AST) -> bool:
    return ast.dump(a) == ast.dump(b)


def _iter_direction(it: ast.AST, what: str) -> tuple[ast.AST, bool]:
    """The iterable of a `for` over the list of databases: (list expression, forward?)."""
    if isinstance(it, ast.Call) and _is(it.func, 'reversed') and len(it.args) == 1 and not it.keywords:
        inner, fwd = _iter_direction(it.args[0], what)
        return inner, not fwd
    if isinstance(it, ast.Subscript) and isinstance(it.slice, ast.Slice):
        sl = it.slice
        if sl.lower is None and sl.upper is None and sl.step is not None and _int_expr(sl.step, what) == -1:
            inner, fwd = _iter_direction(it.value, what)
            return inner, not fwd
        if sl.lower is None and sl.upper is None and (sl.step is None or _int_expr(sl.step, what) == 1):
            return _iter_direction(it.value, what)
        raise TranslateError(f'{what}: slice of the database list not recognised: {ast.unparse(it)}')
    if isinstance(it, ast.Call) and isinstance(it.func, ast.Name) and it.func.id in ('list', 'tuple', 'iter') and len(it.args) == 1 and not it.keywords:
        return _iter_direction(it.args[0], what)
    return it, True


def _is_deepcopy(node: ast.AST) -> ast.AST | None:
    if isinstance(node, ast.Call) and (_is(node.func, 'deepcopy') or _is(node.func, 'copy.deepcopy')) and len(node.args) == 1 and not node.keywords:
        return node.args[0]
    return None


def _multi_db(tree: ast.Module) -> dict:
    """How the LIST of engine databases is used (the model is SM/LazyDbMulti.v):
      * EntityDef.engine_def: a loop over `_load_engine_db()` that returns `dbase.get_ent(classname)` (deep-copied) of the first
        database that does not raise KeyError, KeyError after the loop  -> first_hit (False when the loop runs backwards);
      * FGD.engine_dbase: a loop over `_load_engine_db()` that merges `dbase.get_fgd().entities` into the `entities` of a fresh FGD;
        what happens to a class name that is already present decides: kept (`if k not in d: d[k] = v`, `if k in d: continue`,
        `d.setdefault(k, v)`) or overwritten (`d[k] = v`, `d.update(..)`, `d |= ..`); a loop that runs backwards swaps the two.
        An optional shortcut for a single database (`if len(databases) == 1: return deepcopy(databases[0].get_fgd())`) is accepted;
      * add_engine_database: where the new database is put (insert(0, ..) = front / append = back) — information."""
    # ---- EntityDef.engine_def
    ed_raw = _method(tree, 'EntityDef', 'engine_def')
    ed = _normalise(ed_raw, tree)
    args = [a.arg for a in ed.args.args]
    if len(args) != 2:
        raise TranslateError(f'EntityDef.engine_def signature changed: {args}')
    cn = args[1]
    env = _single_assignments(ed)
    body = [st for st in _body(ed) if not (isinstance(st, (ast.Assign, ast.AnnAssign)) and isinstance(
        st.targets[0] if isinstance(st, ast.Assign) else st.target, ast.Name) and (
        st.targets[0] if isinstance(st, ast.Assign) else st.target).id in env)]   # type: ignore[union-attr]
    if not (len(body) == 2 and isinstance(body[0], ast.For) and not body[0].orelse and isinstance(body[0].target, ast.Name)
            and isinstance(body[1], ast.Raise) and body[1].exc is not None and (_is(body[1].exc, f'KeyError({cn})') or _is(body[1].exc, 'KeyError'))):
        raise TranslateError('EntityDef.engine_def: `for dbase in <databases>: ...` followed by `raise KeyError(classname)` not recognised')
    loop = body[0]
    lst, fwd = _iter_direction(_deref(loop.iter, env), 'EntityDef.engine_def')
    if not _is(lst, '_load_engine_db()'):
        raise TranslateError('EntityDef.engine_def: the loop does not run over _load_engine_db(): ' + ast.unparse(lst))
    dv = loop.target.id  # type: ignore[attr-defined]
    lb = loop.body
    ok = False
    ed_deep = True
    if lb and isinstance(lb[0], ast.Try) and not lb[0].finalbody and len(lb[0].handlers) == 1:
        tr = lb[0]
        h = tr.handlers[0]
        quiet = all(isinstance(x, (ast.Pass, ast.Continue)) for x in h.body)
        # statements after the try belong to the no-exception path only when the handler leaves the iteration
        if lb[1:] and not (h.body and isinstance(h.body[-1], ast.Continue)):
            quiet = False
        sts = list(tr.body) + list(tr.orelse) + list(lb[1:])
        # `return deepcopy(dbase.get_ent(c))`, possibly through a local: `ent = dbase.get_ent(c)` ... `return deepcopy(ent)`
        env2 = _single_assignments(ed)
        rets = [x for x in sts if isinstance(x, ast.Return)]
        others = [x for x in sts if not isinstance(x, ast.Return) and not (
            isinstance(x, ast.Assign) and len(x.targets) == 1 and isinstance(x.targets[0], ast.Name) and x.targets[0].id in env2)]
        if (h.type is not None and _is(h.type, 'KeyError') and quiet and len(rets) == 1 and not others and rets[0].value is not None):
            val = _deref(rets[0].value, env2)
            inner = _is_deepcopy(val)
            if inner is None:                   # the cached definition itself is handed out: a shape with a meaning (CShare), not an error
                inner, ed_deep = val, False
            if _is(inner, f'{dv}.get_ent({cn})'):
                ok = True
    if not ok and len(lb) == 1 and isinstance(lb[0], ast.If) and not lb[0].orelse:
        # the membership test instead of the exception: `if classname.casefold() in dbase.get_classnames(): return deepcopy(dbase.get_ent(classname))`
        # (get_ent raises KeyError exactly for names that are not keys of ent_map; the model does not distinguish the two)
        m = _norm_membership(_deref(lb[0].test, _single_assignments(ed)))
        env2 = _single_assignments(ed)
        sts = [x for x in lb[0].body if not (isinstance(x, ast.Assign) and len(x.targets) == 1 and isinstance(x.targets[0], ast.Name)
                                             and x.targets[0].id in env2)]
        if (m and m[0] == 'in' and _is(m[1], f'{cn}.casefold()') and (_is(m[2], f'{dv}.get_classnames()') or _is(m[2], f'{dv}.ent_map'))
                and len(sts) == 1 and isinstance(sts[0], ast.Return) and sts[0].value is not None):
            val = _deref(sts[0].value, env2)
            inner = _is_deepcopy(val)
            if inner is None:
                inner, ed_deep = val, False
            ok = _is(inner, f'{dv}.get_ent({cn})')
    if not ok:
        raise TranslateError('EntityDef.engine_def: loop body is not `try: return deepcopy(dbase.get_ent(classname)) except KeyError: pass`: '
                             + ast.unparse(loop)[:200])
    # ---- FGD.engine_dbase
    eb_raw = _method(tree, 'FGD', 'engine_dbase')
    eb = _normalise(eb_raw, tree)
    env = _single_assignments(eb)

    def is_local_def(st: ast.stmt) -> bool:
        if isinstance(st, ast.Assign) and len(st.targets) == 1 and isinstance(st.targets[0], ast.Name):
            return st.targets[0].id in env
        return isinstance(st, ast.AnnAssign) and isinstance(st.target, ast.Name) and st.target.id in env
    body = [st for st in _body(eb) if not is_local_def(st)]
    shortcut = False
    short_deep = True
    if body and isinstance(body[0], ast.If):
        t = _deref(body[0].test, env)
        sc = body[0]
        if not ((_is(t, 'len(_load_engine_db()) == 1') or _is(t, '1 == len(_load_engine_db())')) and not sc.orelse and len(sc.body) == 1
                and isinstance(sc.body[0], ast.Return) and sc.body[0].value is not None):
            raise TranslateError('FGD.engine_dbase: the leading `if` is not the single-database shortcut: ' + ast.unparse(sc)[:160])
        val = _deref(sc.body[0].value, env)
        inner = _is_deepcopy(val)
        if inner is None:
            inner, short_deep = val, False
        if not (_is(inner, '_load_engine_db()[0].get_fgd()') or _is(inner, '_load_engine_db()[-1].get_fgd()')):
            raise TranslateError('FGD.engine_dbase: the single-database shortcut does not return deepcopy(databases[0].get_fgd())')
        shortcut = True
        body = body[1:]
    loops = [st for st in body if isinstance(st, ast.For)]
    if len(loops) != 1 or loops[0].orelse or not isinstance(loops[0].target, ast.Name):
        raise TranslateError(f'FGD.engine_dbase: expected one loop over the databases, found {len(loops)}')
    loop = loops[0]
    lst, fwd_all = _iter_direction(_deref(loop.iter, env), 'FGD.engine_dbase')
    if not _is(lst, '_load_engine_db()'):
        raise TranslateError('FGD.engine_dbase: the loop does not run over _load_engine_db(): ' + ast.unparse(lst))
    dv = loop.target.id
    rest = [st for st in body if st is not loop]
    applies_bases = False
    ret = None
    for st in rest:
        if isinstance(st, ast.Expr) and _is_call_method(st.value, 'apply_bases') and not st.value.args:  # type: ignore[attr-defined]
            applies_bases = True
        elif isinstance(st, ast.Return) and st.value is not None:
            ret = st.value
        else:
            raise TranslateError('FGD.engine_dbase: statement not recognised: ' + ast.unparse(st)[:120])
    if ret is None or body[-1] is not [st for st in rest if isinstance(st, ast.Return)][-1]:
        raise TranslateError('FGD.engine_dbase: does not end with a return')
    # the merged FGD: a local bound once to FGD() / cls()
    tgt_names = [k for k, v in env.items() if _is(v, 'FGD()') or _is(v, 'cls()')]
    if len(tgt_names) != 1:
        raise TranslateError('FGD.engine_dbase: the fresh FGD that receives the entities was not found')
    tname = tgt_names[0]
    env_m = {k: v for k, v in env.items() if k != tname}     # the merged FGD stays a name
    rv = _is_deepcopy(ret)
    if not ((rv is not None and _is(rv, tname)) or _is(ret, tname)):
        raise TranslateError('FGD.engine_dbase: does not return the merged FGD: ' + ast.unparse(ret))
    t_ents = ast.parse(f'{tname}.entities', mode='eval').body
    src_ents = ast.parse(f'{dv}.get_fgd().entities', mode='eval').body
    lbody = [st for st in loop.body if not is_local_def(st)]

    def classify_items(sts: list[ast.stmt], k: ast.AST, v: ast.AST) -> str:
        """Body of `for k, v in src.entities.items()`."""
        store = ast.parse(f'{tname}.entities[{ast.unparse(k)}] = {ast.unparse(v)}').body[0]
        if len(sts) == 1 and _same(sts[0], store):
            return 'last'
        if len(sts) == 1 and isinstance(sts[0], ast.If) and not sts[0].orelse and len(sts[0].body) == 1 and _same(sts[0].body[0], store):
            m = _norm_membership(_deref(sts[0].test, env_m))
            if m and m[0] == 'notin' and _same(m[1], k) and _same(m[2], t_ents):
                return 'first'
        if (len(sts) == 2 and isinstance(sts[0], ast.If) and not sts[0].orelse and len(sts[0].body) == 1
                and isinstance(sts[0].body[0], ast.Continue) and _same(sts[1], store)):
            m = _norm_membership(_deref(sts[0].test, env_m))
            if m and m[0] == 'in' and _same(m[1], k) and _same(m[2], t_ents):
                return 'first'
        if len(sts) == 1 and isinstance(sts[0], ast.Expr) and _same(sts[0].value, ast.parse(
                f'{tname}.entities.setdefault({ast.unparse(k)}, {ast.unparse(v)})', mode='eval').body):
            return 'first'
        raise TranslateError('FGD.engine_dbase: the merge of one (classname, entity) item is not recognised: '
                             + ' ; '.join(ast.unparse(x)[:100] for x in sts))
    mode = None
    if len(lbody) == 1 and isinstance(lbody[0], ast.For) and not lbody[0].orelse:
        inner_loop = lbody[0]
        it = _deref(inner_loop.iter, env_m)
        if (_is_call_method(it, 'items') and not it.args and _same(it.func.value, src_ents)  # type: ignore[attr-defined]
                and isinstance(inner_loop.target, ast.Tuple) and len(inner_loop.target.elts) == 2
                and all(isinstance(e, ast.Name) for e in inner_loop.target.elts)):
            k, v = inner_loop.target.elts
            mode = classify_items([st for st in inner_loop.body if not is_local_def(st)],
                                  ast.Name(id=k.id, ctx=ast.Load()), ast.Name(id=v.id, ctx=ast.Load()))  # type: ignore[attr-defined]
    elif len(lbody) == 1 and isinstance(lbody[0], ast.Expr) and _is_call_method(lbody[0].value, 'update'):
        c = _deref(lbody[0].value, env_m)
        if _same(c.func.value, t_ents) and len(c.args) == 1 and not c.keywords and _same(c.args[0], src_ents):  # type: ignore[attr-defined]
            mode = 'last'
    elif len(lbody) == 1 and isinstance(lbody[0], ast.AugAssign) and isinstance(lbody[0].op, ast.BitOr):
        if ast.unparse(lbody[0].target) == f'{tname}.entities' and _same(_deref(lbody[0].value, env_m), src_ents):
            mode = 'last'
    if mode is None:
        raise TranslateError('FGD.engine_dbase: the body of the loop over the databases is not a recognised merge: '
                             + ' ; '.join(ast.unparse(x)[:120] for x in lbody))
    effective_first = (mode == 'first') == fwd_all
    # ---- add_engine_database (information)
    ad = _fn(tree, 'add_engine_database')
    where = None
    for n in ast.walk(ad):
        if _is_call_method(n, 'insert') and len(n.args) == 2:  # type: ignore[attr-defined]
            try:
                where = 'front' if _int_expr(n.args[0], 'insert position') == 0 else 'other'  # type: ignore[attr-defined]
            except TranslateError:
                where = 'other'
        elif _is_call_method(n, 'append'):
            where = 'back'
    return dict(first_hit=fwd, merge=mode, merge_loop_forward=fwd_all, effective_first=effective_first, single_shortcut=shortcut,
                applies_bases=applies_bases, added_database_goes=where,
                answers_deep=[('engine_def', ed_deep)] + ([('engine_dbase_single', short_deep)] if shortcut else []) + [('engine_dbase_merged', rv is not None)],
                digests={'engine_def': ast_digest(ed_raw), 'engine_dbase': ast_digest(eb_raw), 'add_engine_database': ast_digest(ad)})


# ------------------------------------------------------------------------------------------ type text of keyvalue / IO lines
def _value_type_lookup(tree: ast.Module) -> tuple[list[tuple[str, str]], dict[str, str]]:
    """VALUE_TYPE_LOOKUP as the module builds it: [(key, ValueTypes.value of the member)] in look-up order (a later assignment to a
    key wins, so the explicit `VALUE_TYPE_LOOKUP['bool'] = ...` entries come first), and member name (aliases resolved) -> value."""
    members, alias = enum_members(_cls(tree, 'ValueTypes'))
    value_of = {n: v for n, v in members}
    for a, c in alias.items():
        value_of[a] = value_of[c]
    if not all(isinstance(v, str) for v in value_of.values()):
        raise TranslateError('ValueTypes: a member value is not a string')
    comp = _module_assign(tree, 'VALUE_TYPE_LOOKUP')
    ok = (isinstance(comp, ast.DictComp) and len(comp.generators) == 1 and not comp.generators[0].ifs and not comp.generators[0].is_async
          and isinstance(comp.generators[0].target, ast.Name) and _is(comp.generators[0].iter, 'ValueTypes'))
    if ok:
        v = comp.generators[0].target.id   # type: ignore[union-attr]
        ok = _is(comp.key, f'{v}.value') and _is(comp.value, v)   # type: ignore[union-attr]
    if not ok:
        raise TranslateError('VALUE_TYPE_LOOKUP is not `{typ.value: typ for typ in ValueTypes}`')
    extras: list[tuple[str, str]] = []
    defined = False
    for st in tree.body:
        names = {n.id for n in ast.walk(st) if isinstance(n, ast.Name)}
        if 'VALUE_TYPE_LOOKUP' not in names:
            continue
        if isinstance(st, (ast.Assign, ast.AnnAssign)) and not defined and (st.value is comp):
            defined = True
            continue
        if isinstance(st, (ast.FunctionDef, ast.ClassDef)):
            for n in ast.walk(st):
                if isinstance(n, ast.Name) and n.id == 'VALUE_TYPE_LOOKUP' and not isinstance(n.ctx, ast.Load):
                    raise TranslateError(f'VALUE_TYPE_LOOKUP re-bound at line {n.lineno}')
                if isinstance(n, ast.Subscript) and _is(n.value, 'VALUE_TYPE_LOOKUP') and not isinstance(n.ctx, ast.Load):
                    raise TranslateError(f'VALUE_TYPE_LOOKUP modified at line {n.lineno}')
                if isinstance(n, ast.Attribute) and _is(n.value, 'VALUE_TYPE_LOOKUP') and n.attr not in ('get', 'keys', 'values', 'items'):
                    raise TranslateError(f'VALUE_TYPE_LOOKUP.{n.attr} at line {n.lineno} not supported')
            continue
        if (defined and isinstance(st, ast.Assign) and len(st.targets) == 1 and isinstance(st.targets[0], ast.Subscript)
                and _is(st.targets[0].value, 'VALUE_TYPE_LOOKUP') and isinstance(st.value, ast.Attribute) and _is(st.value.value, 'ValueTypes')
                and st.value.attr in value_of):
            extras.append((_const(st.targets[0].slice, str, 'VALUE_TYPE_LOOKUP key'), value_of[st.value.attr]))
            continue
        raise TranslateError(f'module statement about VALUE_TYPE_LOOKUP not recognised at line {st.lineno}: {ast.unparse(st)[:80]}')
    table: list[tuple[str, str]] = []
    for k, v in reversed(extras):
        if k not in dict(table):
            table.append((k, v))
    for _, v in members:
        if v not in dict(table):
            table.append((v, v))
    return table, value_of


def _ctor_arg(fn: ast.FunctionDef, keyword: str, position: int) -> str:
    """The local passed as `keyword` (or at `position`) to the constructor call in the returned `(tags, Cls(...))` tuple."""
    rets = [n for n in ast.walk(fn) if isinstance(n, ast.Return)]
    if len(rets) != 1 or not (isinstance(rets[0].value, ast.Tuple) and len(rets[0].value.elts) == 2 and isinstance(rets[0].value.elts[1], ast.Call)):
        raise TranslateError(f'{fn.name}: the single `return tags, Cls(...)` was not found')
    call = rets[0].value.elts[1]
    for kw in call.keywords:
        if kw.arg == keyword:
            arg: ast.AST = kw.value
            break
    else:
        if len(call.args) <= position or any(isinstance(a, ast.Starred) for a in call.args):
            raise TranslateError(f'{fn.name}: constructor argument `{keyword}` not found')
        arg = call.args[position]
    if not isinstance(arg, ast.Name):
        raise TranslateError(f'{fn.name}: constructor argument `{keyword}` is not a local')
    return arg.id


def _type_prog(fn: ast.FunctionDef, value_of: dict[str, str], what: str, flag_kw: tuple[str, int] | None) -> tuple[str, dict]:
    """Symbolic execution of the part of KVDef._parse / IODef._parse that turns the text of the PAREN_ARGS token into the type: every
    string compared, looked up or stored becomes an expression over the raw token text (strip / casefold / [1:]); the result is a
    Fmt/FgdTypeText.tprog.  Fail-closed on every statement that touches the tracked names in another way."""
    tvar = _ctor_arg(fn, 'type', 1)
    fvar = _ctor_arg(fn, *flag_kw) if flag_kw else None
    params = {a.arg for a in ast.walk(fn.args) if isinstance(a, ast.arg)}
    body = _body(fn)
    raw = None
    start = 0
    for i, st in enumerate(body):
        if (isinstance(st, ast.Assign) and len(st.targets) == 1 and isinstance(st.targets[0], ast.Tuple) and len(st.targets[0].elts) == 2
                and all(isinstance(e, ast.Name) for e in st.targets[0].elts) and isinstance(st.value, ast.Call) and not st.value.args):
            raw, start = st.targets[0].elts[1].id, i + 1   # type: ignore[attr-defined]
            break
    if raw is None:
        raise TranslateError(f'{what}: `token, text = tok()` not found')
    consumed: set[int] = set()

    def sx(node: ast.AST, env: dict[str, str]) -> str | None:
        if isinstance(node, ast.Name):
            return env.get(node.id)
        if isinstance(node, ast.Call) and isinstance(node.func, ast.Attribute) and not node.args and not node.keywords:
            inner = sx(node.func.value, env)
            if inner is None:
                return None
            if node.func.attr == 'strip':
                return f'(SStrip {inner})'
            if node.func.attr in ('casefold', 'lower'):
                return f'(SFold {inner})'
            raise TranslateError(f'{what}: str method .{node.func.attr}() on the type text not supported')
        if isinstance(node, ast.Subscript):
            inner = sx(node.value, env)
            if inner is None:
                return None
            if isinstance(node.slice, ast.Slice) and node.slice.upper is None and node.slice.step is None and _is(node.slice.lower, '1'):
                return f'(STail {inner})'
            raise TranslateError(f'{what}: subscript of the type text not supported: {ast.unparse(node)}')
        return None

    def member(node: ast.AST) -> str:
        if isinstance(node, ast.Attribute) and _is(node.value, 'ValueTypes') and node.attr in value_of:
            return value_of[node.attr]
        raise TranslateError(f'{what}: {ast.unparse(node)} is not a ValueTypes member')

    def assigns_type(st: ast.stmt) -> ast.AST | None:
        if isinstance(st, ast.Assign) and len(st.targets) == 1 and isinstance(st.targets[0], ast.Name) and st.targets[0].id == tvar:
            consumed.add(id(st))
            return st.value
        return None

    def lookup(st: ast.Try, env: dict[str, str]) -> str:
        if len(st.body) != 1 or st.orelse or st.finalbody or len(st.handlers) != 1 or not _is(st.handlers[0].type, 'KeyError'):
            raise TranslateError(f'{what}: try statement at line {st.lineno} not recognised')
        val = assigns_type(st.body[0])
        if not (isinstance(val, ast.Subscript) and _is(val.value, 'VALUE_TYPE_LOOKUP')):
            raise TranslateError(f'{what}: the try body is not `T = VALUE_TYPE_LOOKUP[key]`')
        key = sx(val.slice, env)
        if key is None:
            raise TranslateError(f'{what}: look-up key {ast.unparse(val.slice)} is not an expression over the type text')
        fallback = None
        for h in st.handlers[0].body:
            if isinstance(h, ast.If) and isinstance(h.test, ast.Name) and h.test.id in params:
                if not h.orelse or not all(isinstance(x, ast.Raise) for x in h.orelse):
                    raise TranslateError(f'{what}: the strict branch of the unknown-type handler does not raise')
                for x in h.body:
                    v = assigns_type(x)
                    if v is not None:
                        if fallback is not None:
                            raise TranslateError(f'{what}: two fall-back assignments')
                        fallback = sx(v, env)
                        if fallback is None:
                            raise TranslateError(f'{what}: fall-back {ast.unparse(v)} is not an expression over the type text')
                    elif _stores(x) & (set(env) | {tvar}) or not isinstance(x, ast.Expr):
                        raise TranslateError(f'{what}: statement in the unknown-type handler not recognised: {ast.unparse(x)[:60]}')
            elif _stores(h) & (set(env) | {tvar}) or not isinstance(h, (ast.Assign, ast.Expr)):
                raise TranslateError(f'{what}: statement in the unknown-type handler not recognised: {ast.unparse(h)[:60]}')
        if fallback is None:
            raise TranslateError(f'{what}: no `if ignore_unknown_valuetype: T = <text>` in the KeyError handler')
        return f'(PLookup {key} {fallback})'

    def run(stmts: list[ast.stmt], env: dict[str, str]) -> str:
        for i, st in enumerate(stmts):
            rest = stmts[i + 1:]
            if isinstance(st, ast.Try):
                return lookup(st, env)
            if isinstance(st, ast.AnnAssign) and st.value is None:
                continue
            if isinstance(st, ast.AnnAssign) and isinstance(st.target, ast.Name) and st.simple:
                st = ast.copy_location(ast.Assign(targets=[st.target], value=st.value), st)
            if isinstance(st, ast.If):
                t = st.test
                # `x[:1] == '*'` is `x.startswith('*')`
                if (isinstance(t, ast.Compare) and len(t.ops) == 1 and isinstance(t.ops[0], ast.Eq) and isinstance(t.left, ast.Subscript)
                        and isinstance(t.left.slice, ast.Slice) and t.left.slice.lower is None and t.left.slice.step is None
                        and _is(t.left.slice.upper, '1') and _is(t.comparators[0], "'*'") and sx(t.left.value, env) is not None):
                    t = ast.Call(func=ast.Attribute(value=t.left.value, attr='startswith', ctx=ast.Load()), args=[t.comparators[0]], keywords=[])
                if (isinstance(t, ast.Call) and isinstance(t.func, ast.Attribute) and t.func.attr == 'startswith' and len(t.args) == 1
                        and not t.keywords and sx(t.func.value, env) is not None):
                    if _const(t.args[0], str, f'{what}: startswith argument') != '*' or fvar is None:
                        raise TranslateError(f'{what}: prefix test at line {st.lineno} not recognised')
                    env3 = dict(env)
                    for x in st.orelse:      # the other branch may only name expressions over the type text
                        v = sx(x.value, env3) if isinstance(x, ast.Assign) and len(x.targets) == 1 and isinstance(x.targets[0], ast.Name) else None
                        if v is None or x.targets[0].id == fvar:   # type: ignore[attr-defined]
                            raise TranslateError(f'{what}: statement in the else branch of the `*` test not recognised: {ast.unparse(x)[:60]}')
                        env3[x.targets[0].id] = v   # type: ignore[attr-defined]
                    env2 = dict(env)
                    flagged = False
                    for x in st.body:
                        if isinstance(x, ast.Assign) and len(x.targets) == 1 and isinstance(x.targets[0], ast.Name):
                            if x.targets[0].id == fvar and _is(x.value, 'True'):
                                flagged = True
                                continue
                            v = sx(x.value, env2)
                            if v is not None:
                                env2[x.targets[0].id] = v
                                continue
                        raise TranslateError(f'{what}: statement under the `*` test not recognised: {ast.unparse(x)[:60]}')
                    if not flagged:
                        raise TranslateError(f'{what}: the `*` branch does not set the reportable flag')
                    return f'(PIfStar {sx(t.func.value, env)} {run(rest, env2)} {run(rest, env3)})'
                if isinstance(t, ast.Compare) and len(t.ops) == 1 and isinstance(t.ops[0], ast.Eq):
                    a, b = t.left, t.comparators[0]
                    if sx(b, env) is not None:
                        a, b = b, a
                    e = sx(a, env)
                    if e is not None:
                        lit = _const(b, str, f'{what}: literal compared with the type text')
                        if len(st.body) != 1 or assigns_type(st.body[0]) is None:
                            raise TranslateError(f'{what}: body of `if <text> == {lit!r}` is not one assignment of the type')
                        return f'(PIfEq {e} {_cstr(lit)} {_cstr(member(st.body[0].value))} {run(list(st.orelse) + rest, env)})'   # type: ignore[attr-defined]
            if isinstance(st, ast.Assign) and len(st.targets) == 1 and isinstance(st.targets[0], ast.Name):
                v = sx(st.value, env)
                if v is not None:
                    env = {**env, st.targets[0].id: v}
                    continue
            hit = _stores(st) & (set(env) | {tvar})
            if hit:
                # the only other way the tracked names may be bound: a fresh `token, text = tok()` (after the tags)
                for n in ast.walk(st):
                    if isinstance(n, (ast.Assign, ast.AugAssign, ast.AnnAssign, ast.NamedExpr, ast.For, ast.With)) and _stores(n) & hit:
                        if not (isinstance(n, ast.Assign) and len(n.targets) == 1 and isinstance(n.targets[0], ast.Tuple)
                                and isinstance(n.value, ast.Call) and not n.value.args and _stores(n) & hit == {raw}):
                            if isinstance(n, (ast.For, ast.With)) and not (_stores(n) & hit):
                                continue
                            if isinstance(n, ast.Assign) and not any(_stores(t) & hit for t in n.targets):
                                continue
                            raise TranslateError(f'{what}: the type text is re-bound at line {n.lineno}: {ast.unparse(n)[:60]}')
                env = {raw: 'SRaw'}
        raise TranslateError(f'{what}: no VALUE_TYPE_LOOKUP look-up found')

    prog = run(body[start:], {raw: 'SRaw'})
    total = sum(1 for n in ast.walk(fn) if isinstance(n, ast.Name) and n.id == tvar and isinstance(n.ctx, (ast.Store, ast.Del)))
    total -= sum(1 for n in ast.walk(fn) if isinstance(n, ast.AnnAssign) and n.value is None and isinstance(n.target, ast.Name) and n.target.id == tvar)
    if total != len(consumed):
        raise TranslateError(f'{what}: the type local {tvar} is bound {total} times, the recognised program accounts for {len(consumed)}')
    return prog, {'raw': raw, 'type_local': tvar, 'flag_local': fvar, 'program': prog}


def _io_decay(tree: ast.Module, value_of: dict[str, str]) -> dict:
    """VALUE_TO_IO_DECAY as the module builds it (`{typ: typ if typ.valid_for_io else ValueTypes.STRING for typ in ValueTypes}` with the
    set literal of ValueTypes.valid_for_io, then the explicit assignments) as canonical text -> canonical text, and the type branch of
    IODef.export: members written as a literal (`(bool)`), every other member as VALUE_TO_IO_DECAY[member].value."""
    members, alias = enum_members(_cls(tree, 'ValueTypes'))
    comp = _module_assign(tree, 'VALUE_TO_IO_DECAY')
    ok = (isinstance(comp, ast.DictComp) and len(comp.generators) == 1 and not comp.generators[0].ifs and isinstance(comp.generators[0].target, ast.Name)
          and _is(comp.generators[0].iter, 'ValueTypes'))
    dflt = None
    if ok:
        v = comp.generators[0].target.id   # type: ignore[union-attr]
        val = comp.value                   # type: ignore[union-attr]
        ok = _is(comp.key, v) and isinstance(val, ast.IfExp) and _is(val.test, f'{v}.valid_for_io') and _is(val.body, v) and isinstance(
            val.orelse, ast.Attribute) and _is(val.orelse.value, 'ValueTypes') and val.orelse.attr in value_of   # type: ignore[union-attr]
        if ok:
            dflt = value_of[val.orelse.attr]   # type: ignore[union-attr]
    if not ok or dflt is None:
        raise TranslateError('VALUE_TO_IO_DECAY is not `{typ: typ if typ.valid_for_io else ValueTypes.X for typ in ValueTypes}`')
    prop = [n for n in _cls(tree, 'ValueTypes').body if isinstance(n, ast.FunctionDef) and n.name == 'valid_for_io']
    pb = _body(prop[0]) if len(prop) == 1 else []
    if not (len(pb) == 1 and isinstance(pb[0], ast.Return) and isinstance(pb[0].value, ast.Compare) and _is(pb[0].value.left, 'self.value')
            and len(pb[0].value.ops) == 1 and isinstance(pb[0].value.ops[0], ast.In) and isinstance(pb[0].value.comparators[0], (ast.Set, ast.Tuple, ast.List))):
        raise TranslateError('ValueTypes.valid_for_io is not `return self.value in {...}`')
    valid = {_const(e, str, 'valid_for_io member') for e in pb[0].value.comparators[0].elts}
    decay = {v: (v if v in valid else dflt) for _, v in members}
    seen_def = False
    for st in tree.body:
        if not any(isinstance(n, ast.Name) and n.id == 'VALUE_TO_IO_DECAY' for n in ast.walk(st)):
            continue
        if isinstance(st, (ast.Assign, ast.AnnAssign)) and st.value is comp:
            seen_def = True
            continue
        if isinstance(st, (ast.FunctionDef, ast.ClassDef)):
            for n in ast.walk(st):
                if isinstance(n, ast.Subscript) and _is(n.value, 'VALUE_TO_IO_DECAY') and not isinstance(n.ctx, ast.Load):
                    raise TranslateError(f'VALUE_TO_IO_DECAY modified at line {n.lineno}')
                if isinstance(n, ast.Attribute) and _is(n.value, 'VALUE_TO_IO_DECAY') and n.attr not in ('get', 'keys', 'values', 'items'):
                    raise TranslateError(f'VALUE_TO_IO_DECAY.{n.attr} at line {n.lineno} not supported')
            continue
        if (seen_def and isinstance(st, ast.Assign) and len(st.targets) == 1 and isinstance(st.targets[0], ast.Subscript) and _is(st.targets[0].value, 'VALUE_TO_IO_DECAY')
                and isinstance(st.targets[0].slice, ast.Attribute) and _is(st.targets[0].slice.value, 'ValueTypes') and st.targets[0].slice.attr in value_of
                and isinstance(st.value, ast.Attribute) and _is(st.value.value, 'ValueTypes') and st.value.attr in value_of):
            decay[value_of[st.targets[0].slice.attr]] = value_of[st.value.attr]
            continue
        raise TranslateError(f'module statement about VALUE_TO_IO_DECAY not recognised at line {st.lineno}: {ast.unparse(st)[:80]}')
    # IODef.export: if self._type is ValueTypes.X: write('(lit)') ... elif isinstance(self._type, ValueTypes): write(f'({VALUE_TO_IO_DECAY[self._type].value})') else: custom
    exp = _method(tree, 'IODef', 'export')
    chain = [st for st in _body(exp) if isinstance(st, ast.If) and any(isinstance(n, ast.Name) and n.id == 'VALUE_TO_IO_DECAY' for n in ast.walk(st))]
    if len(chain) != 1:
        raise TranslateError('IODef.export: the type branch was not found')
    node: ast.stmt = chain[0]
    special: list[tuple[str, str]] = []
    general = False
    while isinstance(node, ast.If):
        t = node.test
        if (isinstance(t, ast.Compare) and _is(t.left, 'self._type') and len(t.ops) == 1 and isinstance(t.ops[0], ast.Is)
                and isinstance(t.comparators[0], ast.Attribute) and _is(t.comparators[0].value, 'ValueTypes') and t.comparators[0].attr in value_of and not general):
            if not (len(node.body) == 1 and isinstance(node.body[0], ast.Expr) and isinstance(node.body[0].value, ast.Call) and _is(node.body[0].value.func, 'file.write')
                    and len(node.body[0].value.args) == 1):
                raise TranslateError('IODef.export: a special type branch is not one write')
            lit = _const(node.body[0].value.args[0], str, 'IODef.export literal type text')
            if not (lit.startswith('(') and lit.endswith(')')):
                raise TranslateError(f'IODef.export: literal type text {lit!r} is not parenthesised')
            special.append((value_of[t.comparators[0].attr], lit[1:-1]))
        elif _is(t, 'isinstance(self._type, ValueTypes)') and not general:
            if not (len(node.body) == 1 and _is(node.body[0], "file.write(f'({VALUE_TO_IO_DECAY[self._type].value})')")):
                raise TranslateError('IODef.export: the member branch does not write `({VALUE_TO_IO_DECAY[self._type].value})`')
            general = True
        else:
            raise TranslateError(f'IODef.export: type test not recognised: {ast.unparse(t)[:60]}')
        if len(node.orelse) == 1 and isinstance(node.orelse[0], ast.If):
            node = node.orelse[0]
        else:
            break
    if not general:
        raise TranslateError('IODef.export: no branch for ValueTypes members')
    return {'decay': [(v, decay[v]) for _, v in members], 'special': special, 'valid_for_io': sorted(valid), 'default': dflt}



def _type_text(tree: ast.Module) -> dict:
    table, value_of = _value_type_lookup(tree)
    kv_prog, kv_side = _type_prog(_method(tree, 'KVDef', '_parse'), value_of, 'KVDef._parse', ('reportable', 7))
    io_prog, io_side = _type_prog(_method(tree, 'IODef', '_parse'), value_of, 'IODef._parse', None)
    # writers: the custom branch writes the stored text itself
    for cls in ('KVDef', 'IODef'):
        fn = _method(tree, cls, 'export')
        custom = [n for n in ast.walk(fn) if isinstance(n, ast.JoinedStr) and any(
            isinstance(v, ast.FormattedValue) and _is(v.value, 'self._type') for v in n.values)]
        vals = custom[0].values if len(custom) == 1 else []
        if not (len(vals) == 3 and isinstance(vals[0], ast.Constant) and vals[0].value == '(' and isinstance(vals[1], ast.FormattedValue)
                and vals[1].conversion == -1 and vals[1].format_spec is None and isinstance(vals[2], ast.Constant)
                and isinstance(vals[2].value, str) and vals[2].value.strip() == ')'):
            raise TranslateError(f'{cls}.export: the custom type is not written as `({{self._type}})`')
    return {'table': table, 'kv_prog': kv_prog, 'io_prog': io_prog, 'kv': kv_side, 'io': io_side, 'io_decay': _io_decay(tree, value_of)}



# ------------------------------------------------------------------------------------------ build_blocks / serialise
_CMP_FN = {'Lt': 'N.ltb', 'LtE': 'N.leb', 'Gt': '(fun a b => N.ltb b a)', 'GtE': '(fun a b => N.leb b a)'}


def _build_blocks(tree: ast.Module) -> dict:
    """The decisive shape of _engine_db.build_blocks (SM/FgdBlocks.v): the three size comparisons, and where blocks without entities
    are dropped from the list that is returned - before the entities that no pair placed are distributed (then the first overflow
    block is filled after it left the list: they are never written) and/or afterwards.  serialise(): both loops (class-name table,
    block data) run over the list build_blocks returned and the data loop writes every entity of the block."""
    fn = _normalise(_fn(tree, 'build_blocks'), tree)
    body = [st for st in _body(fn) if not isinstance(st, ast.ClassDef)]
    if len([st for st in _body(fn) if isinstance(st, ast.ClassDef)]) != 1:
        raise TranslateError('build_blocks: the local block class was not found')
    loops = [i for i, st in enumerate(body) if isinstance(st, ast.For)]
    if len(loops) < 2:
        raise TranslateError('build_blocks: pair loop and leftover loop not found')
    i_pair, i_left = loops[0], loops[1]
    pair, left = body[i_pair], body[i_left]
    # the list that is returned, the overflow block, the set of unplaced entities
    lst = None
    for st in body[:i_pair]:
        if isinstance(st, (ast.Assign, ast.AnnAssign)) and isinstance(st.value, ast.List) and len(st.value.elts) == 1 and isinstance(st.value.elts[0], ast.Name):
            tgt = st.targets[0] if isinstance(st, ast.Assign) else st.target
            if isinstance(tgt, ast.Name):
                lst, ovf = tgt.id, st.value.elts[0].id
    if lst is None:
        raise TranslateError('build_blocks: `all_blocks = [overflow_block]` not found')
    # pair loop: operators by role, and a census of what it does with the list
    cmps = [n for n in ast.walk(pair) if isinstance(n, ast.Compare) and len(n.ops) == 1 and type(n.ops[0]).__name__ in _CMP_FN
            and any(isinstance(x, ast.Name) and x.id == 'MAX_BLOCK_SIZE' or isinstance(x, ast.Constant) and isinstance(x.value, int)
                    for x in ast.walk(n.comparators[0]))]
    merge_ops = [type(n.ops[0]).__name__ for n in cmps if sum(1 for x in ast.walk(n.left) if isinstance(x, ast.Attribute) and x.attr == 'bytesize') == 2]
    add_ops = [type(n.ops[0]).__name__ for n in cmps if sum(1 for x in ast.walk(n.left) if isinstance(x, ast.Attribute) and x.attr == 'bytesize') == 1]
    if len(merge_ops) != 1 or len(add_ops) != 2 or len(set(add_ops)) != 1 or len(cmps) != 3:
        raise TranslateError(f'build_blocks: size tests of the pair loop not recognised (merge {merge_ops}, add {add_ops})')
    calls = [n for n in ast.walk(pair) if isinstance(n, ast.Call) and isinstance(n.func, ast.Attribute)]
    census = {'add_ent': sum(1 for c in calls if c.func.attr == 'add_ent'),
              'remove': sum(1 for c in calls if c.func.attr == 'remove' and _is(c.func.value, lst)),
              'append': sum(1 for c in calls if c.func.attr == 'append' and _is(c.func.value, lst))}
    if census != {'add_ent': 5, 'remove': 1, 'append': 1} or _stores(pair) & {lst, ovf}:
        raise TranslateError(f'build_blocks: pair loop not recognised (calls {census})')
    # between the loops / after the leftover loop: where are blocks dropped from the list?

    def drops(stmts: list[ast.stmt]) -> bool:
        found = False
        for st in stmts:
            touches = any(isinstance(n, ast.Name) and n.id == lst for n in ast.walk(st))
            if not touches:
                continue
            if _is(st, f'if not {ovf}.ents:\n    {lst}.remove({ovf})') or _is(st, f'if len({ovf}.ents) == 0:\n    {lst}.remove({ovf})'):
                found = True
            elif (isinstance(st, ast.Assign) and len(st.targets) == 1 and isinstance(st.targets[0], ast.Name) and st.targets[0].id == lst and isinstance(st.value, ast.ListComp)
                  and len(st.value.generators) == 1 and _is(st.value.generators[0].iter, lst) and isinstance(st.value.generators[0].target, ast.Name)
                  and _is(st.value.elt, st.value.generators[0].target.id) and len(st.value.generators[0].ifs) == 1
                  and any(_is(st.value.generators[0].ifs[0], form.format(b=st.value.generators[0].target.id))
                          for form in ('{b}.ents', 'len({b}.ents) > 0', 'len({b}.ents)', '{b}.ents != []', 'len({b}.ents) != 0', 'len({b}.ents) >= 1'))):
                found = True
            elif isinstance(st, ast.Expr) and isinstance(st.value, ast.Call) and _is(st.value.func, f'{lst}.sort'):
                continue
            elif isinstance(st, (ast.For, ast.Return)) and not (_stores(st) & {lst}) and not any(
                    isinstance(n, ast.Call) and isinstance(n.func, ast.Attribute) and _is(n.func.value, lst) for n in ast.walk(st)):
                continue       # reads only (statistics, the returned list)
            elif isinstance(st, ast.Expr) and isinstance(st.value, ast.Call) and _is(st.value.func, 'print'):
                continue
            else:
                raise TranslateError(f'build_blocks: statement about {lst} not recognised at line {st.lineno}: {ast.unparse(st)[:70]}')
        return found
    before = drops(body[i_pair + 1:i_left])
    after = drops(body[i_left + 1:])
    # leftover loop
    lb = left.body
    ok = (_is(left.iter, 'list(todo)') or _is(left.iter, 'todo') or _is(left.iter, 'sorted(todo)') or _is(left.iter, 'tuple(todo)')) and isinstance(left.target, ast.Name)
    e = left.target.id if ok else ''
    ok = ok and len(lb) == 2 and _is(lb[0], f'{ovf}.add_ent({e})') and isinstance(lb[1], ast.If) and not lb[1].orelse
    if ok:
        t = lb[1].test
        ok = (isinstance(t, ast.Compare) and len(t.ops) == 1 and type(t.ops[0]).__name__ in _CMP_FN and _is(t.left, f'{ovf}.bytesize')
              and (_is(t.comparators[0], 'MAX_BLOCK_SIZE') or isinstance(t.comparators[0], ast.Constant)))
        stm = sorted(ast.unparse(x) for x in lb[1].body)
        ok = ok and len(stm) == 2 and stm[0] == f'{lst}.append({ovf})' and stm[1].startswith(f'{ovf} = ') and stm[1].endswith('()')
    if not ok:
        raise TranslateError('build_blocks: leftover loop not recognised')
    ovf_op = type(lb[1].test.ops[0]).__name__   # type: ignore[attr-defined]
    # serialise: header loop and data loop over the returned list; the data loop writes every entity
    ser = _fn(tree, 'serialise')
    res = [st.targets[0].id for st in _body(ser) if isinstance(st, ast.Assign) and len(st.targets) == 1 and isinstance(st.targets[0], ast.Name)
           and isinstance(st.value, ast.Call) and _is(st.value.func, 'build_blocks')]
    if len(res) != 1:
        raise TranslateError('serialise: `blocks = build_blocks(...)` not found')
    loops = [st for st in _body(ser) if isinstance(st, ast.For) and _is(st.iter, res[0])]
    writes_all = False
    names_all = False
    for lp in loops:
        if not (isinstance(lp.target, ast.Tuple) and len(lp.target.elts) == 2 and isinstance(lp.target.elts[0], ast.Name)):
            continue
        be = lp.target.elts[0].id
        for n in ast.walk(lp):
            if isinstance(n, ast.For) and _is(n.iter, be) and isinstance(n.target, ast.Name) and any(
                    isinstance(c, ast.Call) and _is(c.func, 'ent_serialise') and c.args and _is(c.args[0], n.target.id) for c in ast.walk(n)):
                writes_all = True
            if isinstance(n, ast.GeneratorExp) and len(n.generators) == 1 and _is(n.generators[0].iter, be) and not n.generators[0].ifs and isinstance(
                    n.generators[0].target, ast.Name) and _is(n.elt, f'{n.generators[0].target.id}.classname'):
                names_all = True
    return {'merge_op': merge_ops[0], 'add_op': add_ops[0], 'ovf_op': ovf_op, 'drop_before': before, 'drop_after': after,
            'serialise_loops': len(loops), 'serialise_writes_every_entity': writes_all and names_all and len(loops) == 2}



# ------------------------------------------------------------------------------------------ entity keyword / top-level dispatch
def _kind_keyword(tree: ast.Module) -> dict:
    """FGD.parse_file: how a top-level STRING token is normalised, the directive keywords in program order, the final look-up
    `EntityTypes(token[1:])` for every other '@' token; EntityDef.export: the chain of str methods applied to `self.type.value`
    after the '@' (Fmt/FgdKindKw.v)."""
    exp = _method(tree, 'EntityDef', 'export')
    ops: list[str] | None = None
    for st in _body(exp):
        if isinstance(st, ast.Expr) and isinstance(st.value, ast.Call) and _is(st.value.func, 'file.write') and len(st.value.args) == 1:
            a = st.value.args[0]
            if not (isinstance(a, ast.JoinedStr) and len(a.values) == 3 and isinstance(a.values[0], ast.Constant) and a.values[0].value == '@'
                    and isinstance(a.values[1], ast.FormattedValue) and a.values[1].conversion == -1 and a.values[1].format_spec is None
                    and isinstance(a.values[2], ast.Constant) and a.values[2].value == ' '):
                raise TranslateError('EntityDef.export: the first write is not `@<kind keyword> `')
            ops = []
            e = a.values[1].value
            while not _is(e, 'self.type.value'):
                if not (isinstance(e, ast.Call) and isinstance(e.func, ast.Attribute) and not e.keywords):
                    raise TranslateError(f'EntityDef.export: kind keyword expression not recognised: {ast.unparse(a.values[1].value)}')
                m = e.func.attr
                if m == 'title' and not e.args:
                    ops.append('WTitle')
                elif m in ('lower', 'casefold') and not e.args:
                    ops.append('WLower')
                elif m == 'upper' and not e.args:
                    ops.append('WUpper')
                elif m == 'replace' and len(e.args) == 2:
                    ops.append(f'(WReplace {_cstr(_const(e.args[0], str, "replace"))} {_cstr(_const(e.args[1], str, "replace"))})')
                else:
                    raise TranslateError(f'EntityDef.export: str method .{m}() on the kind keyword not supported')
                e = e.func.value
            ops.reverse()
            break
    if ops is None:
        raise TranslateError('EntityDef.export: no write of the kind keyword found')
    pf = _method(tree, 'FGD', 'parse_file')
    loops = [n for n in ast.walk(pf) if isinstance(n, ast.For) and isinstance(n.target, ast.Tuple) and len(n.target.elts) == 2
             and all(isinstance(x, ast.Name) for x in n.target.elts) and isinstance(n.iter, ast.Name)]
    top = [n for n in loops if any(isinstance(x, ast.Call) and _is(x.func, 'EntityDef.parse') for x in ast.walk(n))]
    if len(top) < 1:
        raise TranslateError('FGD.parse_file: top-level token loop not found')
    loop = top[0]
    tokv = loop.target.elts[1].id   # type: ignore[attr-defined]
    folded = False
    chain: ast.If | None = None
    for st in loop.body:
        if isinstance(st, ast.Assign) and len(st.targets) == 1 and isinstance(st.targets[0], ast.Name) and st.targets[0].id == tokv:
            if _is(st.value, f'{tokv}.casefold()') or _is(st.value, f'{tokv}.lower()'):
                folded = True
                continue
            raise TranslateError(f'FGD.parse_file: the token text is re-bound: {ast.unparse(st)[:60]}')
        if isinstance(st, ast.If) and isinstance(st.test, ast.Compare) and _is(st.test.left, tokv) and len(st.test.ops) == 1 and isinstance(
                st.test.ops[0], ast.Eq) and isinstance(st.test.comparators[0], ast.Constant) and isinstance(st.test.comparators[0].value, str):
            chain = st
            break
        if _stores(st) & {tokv}:
            raise TranslateError(f'FGD.parse_file: the token text is re-bound: {ast.unparse(st)[:60]}')
    if chain is None:
        raise TranslateError('FGD.parse_file: keyword dispatch chain not found')
    directives: list[str] = []
    node: ast.stmt = chain
    final_ok = False
    while True:
        assert isinstance(node, ast.If)
        t = node.test
        if (isinstance(t, ast.Compare) and _is(t.left, tokv) and len(t.ops) == 1 and isinstance(t.ops[0], ast.Eq)
                and isinstance(t.comparators[0], ast.Constant) and isinstance(t.comparators[0].value, str)):
            directives.append(t.comparators[0].value)
        elif _is(t, f"{tokv}[:1] == '@'") or _is(t, f"{tokv}.startswith('@')"):
            look = [x for x in ast.walk(node) if isinstance(x, ast.Call) and _is(x.func, 'EntityTypes')]
            ok = len(look) == 1 and len(look[0].args) == 1 and _is(look[0].args[0], f'{tokv}[1:]')
            ok = ok and len(node.orelse) >= 1 and all(isinstance(x, ast.Raise) for x in node.orelse)
            if not ok:
                raise TranslateError('FGD.parse_file: the entity keyword branch is not `EntityTypes(token[1:])` with an error branch after it')
            final_ok = True
            break
        else:
            raise TranslateError(f'FGD.parse_file: dispatch test not recognised: {ast.unparse(t)[:60]}')
        if len(node.orelse) == 1 and isinstance(node.orelse[0], ast.If):
            node = node.orelse[0]
        else:
            break
    if not final_ok:
        raise TranslateError('FGD.parse_file: no entity keyword branch at the end of the dispatch chain')
    et_members, _ = enum_members(_cls(tree, 'EntityTypes'))
    if not all(isinstance(v, str) for _, v in et_members):
        raise TranslateError('EntityTypes: a member value is not a string')
    return {'folded': folded, 'directives': directives, 'writer_ops': ops, 'kinds': [v for _, v in et_members]}


# ------------------------------------------------------------------------------------------ helper argument lists (round 5)
def _blank_test(test: ast.AST, var: str) -> str | None:
    """A comprehension / loop condition on the piece `var`: 'stripped' = the piece is kept when it is non-blank after strip,
    'raw' = when it is non-empty as it is.  None = not such a test."""
    if isinstance(test, ast.Compare) and len(test.ops) == 1 and isinstance(test.comparators[0], ast.Constant) and test.comparators[0].value == '' \
            and isinstance(test.ops[0], ast.NotEq):
        test = test.left
    elif (isinstance(test, ast.Compare) and len(test.ops) == 1 and isinstance(test.ops[0], (ast.Gt, ast.NotEq)) and isinstance(test.comparators[0], ast.Constant)
          and test.comparators[0].value == 0 and isinstance(test.left, ast.Call) and _is(test.left.func, 'len') and len(test.left.args) == 1):
        test = test.left.args[0]
    if _is(test, var):
        return 'raw'
    if _is(test, f'{var}.strip()'):
        return 'stripped'
    return None


def _split_source(it: ast.AST, tokv: str) -> str:
    """`<tokv>.split(<sep>)` -> sep (one character)."""
    if not (isinstance(it, ast.Call) and isinstance(it.func, ast.Attribute) and it.func.attr == 'split' and _is(it.func.value, tokv)
            and len(it.args) == 1 and not it.keywords):
        raise TranslateError(f'EntityDef.parse: helper arguments are not taken from {tokv}.split(<sep>): {ast.unparse(it)[:60]}')
    sep = _const(it.args[0], str, 'split separator')
    if len(sep) != 1:
        raise TranslateError('EntityDef.parse: split separator is not one character')
    return sep


def _helper_args(tree: ast.Module) -> dict:
    """EntityDef.parse, the `token is Token.PAREN_ARGS` branch: how the text between the parentheses becomes the argument list
    (Fmt/FgdHead.v, paren_args_with): the separator, whether each piece is stripped, the FILTER of the comprehension / loop (none,
    blank after strip, empty before it), whether `['']` is cleared afterwards; and that the list then reaches UnknownHelper(..),
    HELPER_IMPL[..].parse(..) and the base() loop as it is.  EntityDef.export: the literals that join an argument list."""
    fn = _normalise(_method(tree, 'EntityDef', 'parse'), tree)
    branch: ast.If | None = None
    tokv = ''
    for loop in [n for n in ast.walk(fn) if isinstance(n, ast.For)]:
        if not (isinstance(loop.target, ast.Tuple) and len(loop.target.elts) == 2 and all(isinstance(x, ast.Name) for x in loop.target.elts)):
            continue
        tkind, tval = (x.id for x in loop.target.elts)   # type: ignore[attr-defined]
        for n in ast.walk(loop):
            if isinstance(n, ast.If) and (_is(n.test, f'{tkind} is Token.PAREN_ARGS') or _is(n.test, f'{tkind} == Token.PAREN_ARGS')):
                if branch is not None:
                    raise TranslateError('EntityDef.parse: more than one PAREN_ARGS branch')
                branch, tokv = n, tval
    if branch is None:
        raise TranslateError('EntityDef.parse: PAREN_ARGS branch not found')
    body = list(branch.body)
    # leading guards that only raise
    while body and isinstance(body[0], ast.If) and not body[0].orelse and all(isinstance(x, ast.Raise) for x in body[0].body):
        body = body[1:]
    if not body:
        raise TranslateError('EntityDef.parse: PAREN_ARGS branch is empty')
    # `pieces = tok.split(','); args = [p.strip() for p in pieces]`: a single-use local for the split is inlined
    if (len(body) > 1 and isinstance(body[0], ast.Assign) and len(body[0].targets) == 1 and isinstance(body[0].targets[0], ast.Name)
            and isinstance(body[0].value, ast.Call) and isinstance(body[0].value.func, ast.Attribute) and body[0].value.func.attr == 'split'
            and isinstance(body[1], (ast.Assign, ast.AnnAssign, ast.For))
            and sum(_loads(x, body[0].targets[0].id) for x in body[1:]) == 1 and _loads(body[1], body[0].targets[0].id) == 1
            and body[0].targets[0].id not in set().union(*[_stores(x) for x in body[1:]])):
        import copy as _copy
        body = [_subst(_copy.deepcopy(body[1]), body[0].targets[0].id, body[0].value)] + body[2:]     # type: ignore[list-item]
    st = body[0]
    strip, filt, sep, var_args = False, 'FKeep', ',', ''
    rest_from = 1

    def comp(value: ast.AST) -> tuple[str, bool, str]:
        """[ELT for x in tokv.split(sep) if ...]  /  list(map(str.strip, tokv.split(sep)))  /  tokv.split(sep)"""
        if isinstance(value, ast.ListComp) and len(value.generators) == 1 and isinstance(value.generators[0].target, ast.Name) and not value.generators[0].is_async:
            g = value.generators[0]
            x = g.target.id   # type: ignore[attr-defined]
            sp = _split_source(g.iter, tokv)
            if _is(value.elt, f'{x}.strip()'):
                stp = True
            elif _is(value.elt, x):
                stp = False
            else:
                raise TranslateError(f'EntityDef.parse: helper argument expression not recognised: {ast.unparse(value.elt)[:60]}')
            fl = 'FKeep'
            for c in g.ifs:
                k = _blank_test(c, x)
                if k is None:
                    raise TranslateError(f'EntityDef.parse: filter of the helper arguments not recognised: {ast.unparse(c)[:60]}')
                fl = 'FDropStripped' if k == 'stripped' or fl == 'FDropStripped' else 'FDropRaw'
            return sp, stp, fl
        if isinstance(value, ast.Call) and _is(value.func, 'list') and len(value.args) == 1 and isinstance(value.args[0], ast.Call) \
                and _is(value.args[0].func, 'map') and len(value.args[0].args) == 2 and _is(value.args[0].args[0], 'str.strip'):
            return _split_source(value.args[0].args[1], tokv), True, 'FKeep'
        if isinstance(value, ast.Call) and isinstance(value.func, ast.Attribute) and value.func.attr == 'split':
            return _split_source(value, tokv), False, 'FKeep'
        raise TranslateError(f'EntityDef.parse: helper argument list not recognised: {ast.unparse(value)[:80]}')

    if isinstance(st, (ast.Assign, ast.AnnAssign)) and st.value is not None:
        tgt = st.targets[0] if isinstance(st, ast.Assign) and len(st.targets) == 1 else getattr(st, 'target', None)
        if not isinstance(tgt, ast.Name):
            raise TranslateError('EntityDef.parse: the helper arguments are not bound to a local')
        var_args = tgt.id
        if isinstance(st.value, ast.List) and not st.value.elts and len(body) > 1 and isinstance(body[1], ast.For):
            # args = []; for x in tokv.split(sep): [if c:] args.append(x.strip())
            loop = body[1]
            if not (isinstance(loop.target, ast.Name) and not loop.orelse):
                raise TranslateError('EntityDef.parse: helper argument loop not recognised')
            x = loop.target.id
            sep = _split_source(loop.iter, tokv)
            inner = loop.body
            while len(inner) == 1 and isinstance(inner[0], ast.If) and not inner[0].orelse:
                k = _blank_test(inner[0].test, x)
                if k is None:
                    raise TranslateError(f'EntityDef.parse: filter of the helper arguments not recognised: {ast.unparse(inner[0].test)[:60]}')
                filt = 'FDropStripped' if k == 'stripped' or filt == 'FDropStripped' else 'FDropRaw'
                inner = inner[0].body
            if len(inner) == 1 and _is(inner[0], f'{var_args}.append({x}.strip())'):
                strip = True
            elif len(inner) == 1 and _is(inner[0], f'{var_args}.append({x})'):
                strip = False
            else:
                raise TranslateError('EntityDef.parse: helper argument loop body not recognised')
            rest_from = 2
        else:
            sep, strip, filt = comp(st.value)
    else:
        raise TranslateError(f'EntityDef.parse: the PAREN_ARGS branch does not start by binding the argument list: {ast.unparse(st)[:60]}')
    a = var_args
    clear = False
    sole_tests = (f"len({a}) == 1 and {a}[0] == ''", f"{a} == ['']", f"len({a}) == 1 and not {a}[0]", f"{a}[0] == '' and len({a}) == 1",
                  f"len({a}) == 1 and {a}[0] == ''", f"1 == len({a}) and {a}[0] == ''")
    sole_bodies = (f'{a}.clear()', f'{a} = []', f'del {a}[:]', f'{a}.pop()', f'{a}[:] = []')
    dispatch_seen = False
    for st in body[rest_from:]:
        names = {n.id for n in ast.walk(st) if isinstance(n, ast.Name)}
        if a not in names:
            continue
        if isinstance(st, ast.If) and {n.id for n in ast.walk(st.test) if isinstance(n, ast.Name)} <= {a, 'len'}:
            if dispatch_seen or clear or st.orelse or len(st.body) != 1 or not any(_is(st.test, t) for t in sole_tests) \
                    or not any(_is(st.body[0], b) for b in sole_bodies):
                raise TranslateError(f'EntityDef.parse: statement about the helper arguments not recognised: {ast.unparse(st)[:80]}')
            clear = True
            continue
        if isinstance(st, ast.If):
            # the dispatch chain: apart from the autovis() branch the list is only passed on as it is (call argument / loop iterable)
            dispatch_seen = True
            branches: list[tuple[ast.AST | None, list[ast.stmt]]] = []
            node: ast.If | None = st
            while node is not None:
                branches.append((node.test, node.body))
                if len(node.orelse) == 1 and isinstance(node.orelse[0], ast.If):
                    node = node.orelse[0]
                else:
                    if node.orelse:
                        branches.append((None, node.orelse))
                    node = None
            for test, blk_list in branches:
                if test is not None and a in {n.id for n in ast.walk(test) if isinstance(n, ast.Name)}:
                    raise TranslateError('EntityDef.parse: the dispatch of a helper depends on its arguments')
                if test is not None and any(isinstance(n, ast.Attribute) and n.attr == 'EXT_AUTO_VISGROUP' for n in ast.walk(test)):
                    continue
                for blk in blk_list:
                    parents = {id(c): p for p in ast.walk(blk) for c in ast.iter_child_nodes(p)}
                    for n in ast.walk(blk):
                        if isinstance(n, ast.Name) and n.id == a:
                            par = parents.get(id(n))
                            ok = isinstance(n.ctx, ast.Load) and ((isinstance(par, ast.Call) and n in par.args and (
                                isinstance(par.func, ast.Attribute) or (isinstance(par.func, ast.Name) and (par.func.id[:1].isupper() or par.func.id == 'len'))))
                                or (isinstance(par, ast.For) and par.iter is n))
                            if not ok:
                                raise TranslateError(f'EntityDef.parse: the helper arguments are changed on their way: {ast.unparse(par)[:80] if par else a}')
            continue
        raise TranslateError(f'EntityDef.parse: statement about the helper arguments not recognised: {ast.unparse(st)[:80]}')
    if not dispatch_seen:
        raise TranslateError('EntityDef.parse: no dispatch on the helper type after the argument list')
    # writer: every `<literal>.join(..)` in EntityDef.export up to the write of the class name
    exp = _normalise(_method(tree, 'EntityDef', 'export'), tree)
    joiners: list[str] = []
    for top in _body(exp):
        if isinstance(top, ast.Expr) and isinstance(top.value, ast.Call) and _is(top.value.func, 'file.write') and any(
                isinstance(n, ast.Attribute) and n.attr == 'classname' and _is(n.value, 'self') for n in ast.walk(top)):
            break
        for n in ast.walk(top):
            if isinstance(n, ast.Call) and isinstance(n.func, ast.Attribute) and n.func.attr == 'join':
                joiners.append(_const(n.func.value, str, 'joiner of an argument list'))
    if len(joiners) < 2:
        raise TranslateError('EntityDef.export: the joins of the base and helper argument lists were not found')
    return {'sep': sep, 'strip': strip, 'filter': filt, 'clear_sole': clear, 'joiners': joiners}


# ------------------------------------------------------------------------------------------ what a copy shares (round 5)
_IMM_NAMES = {'str', 'bool', 'int', 'float', 'bytes', 'complex', 'None', 'NoneType'}
_COLL_NAMES = {'list', 'dict', 'set', 'List', 'Dict', 'Set', 'Sequence', 'MutableSequence', 'Mapping', 'MutableMapping', 'Collection',
               'Iterable', 'MutableSet', 'deque', 'defaultdict', 'OrderedDict'}
_FROZEN_NAMES = {'tuple', 'frozenset', 'Tuple', 'FrozenSet', 'AbstractSet'}


class _Shapes:
    """Shapes (Fmt: SM/FgdCopyShare.v ftype) of the annotations of one module: ('imm',) / ('coll', shape) / ('obj', class name) /
    ('any',).  Type aliases are followed; Enum classes and `@attrs.frozen` classes are immutable; an `@attrs.define` class with
    its own copy() method is an object whose fields are its annotated attributes in order; every other class is 'any'."""

    def __init__(self, tree: ast.Module) -> None:
        self.tree = tree
        self.aliases: dict[str, ast.AST] = {}
        self.classes: dict[str, ast.ClassDef] = {n.name: n for n in tree.body if isinstance(n, ast.ClassDef)}
        for st in tree.body:
            if isinstance(st, ast.AnnAssign) and isinstance(st.target, ast.Name) and st.value is not None and _is(st.annotation, 'TypeAlias'):
                self.aliases[st.target.id] = st.value

    def class_kind(self, name: str) -> str:
        c = self.classes.get(name)
        if c is None:
            return 'any'
        if any(ast.unparse(b).split('.')[-1] in ('Enum', 'IntEnum', 'Flag', 'IntFlag', 'StrEnum') for b in c.bases):
            return 'imm'
        decs = [ast.unparse(d.func if isinstance(d, ast.Call) else d) for d in c.decorator_list]
        if any(d in ('attrs.frozen', 'attr.frozen') for d in decs) or any(
                isinstance(d, ast.Call) and any(k.arg == 'frozen' and isinstance(k.value, ast.Constant) and k.value.value is True for k in d.keywords)
                for d in c.decorator_list):
            return 'imm'
        if any(d in ('attrs.define', 'attr.define', 'attrs.mutable') for d in decs) and any(
                isinstance(n, ast.FunctionDef) and n.name == 'copy' for n in c.body) and not any(
                isinstance(n, ast.FunctionDef) and n.name == '__attrs_post_init__' for n in c.body):
            return 'obj'
        return 'any'

    def fields(self, name: str) -> list[tuple[str, str, ast.AST, bool]]:
        """(attribute name, constructor keyword, annotation, takes part in __init__) of an attrs class, in order."""
        out = []
        for st in self.classes[name].body:
            if isinstance(st, ast.AnnAssign) and isinstance(st.target, ast.Name):
                if 'ClassVar' in ast.unparse(st.annotation):
                    continue
                init, alias = True, st.target.id.lstrip('_')
                if isinstance(st.value, ast.Call) and ast.unparse(st.value.func) in ('attrs.field', 'attr.ib', 'attrs.ib', 'attr.field'):
                    for k in st.value.keywords:
                        if k.arg == 'init' and isinstance(k.value, ast.Constant) and k.value.value is False:
                            init = False
                        if k.arg == 'alias' and isinstance(k.value, ast.Constant):
                            alias = k.value.value
                out.append((st.target.id, alias, st.annotation, init))
        return out

    def join(self, shapes: list[tuple]) -> tuple:
        rest = [x for x in shapes if x != ('imm',)]
        if not rest:
            return ('imm',)
        return rest[0] if all(x == rest[0] for x in rest) else ('any',)

    def shape(self, ann: ast.AST, depth: int = 0) -> tuple:
        if depth > 12:
            return ('any',)
        if isinstance(ann, ast.Constant):
            if ann.value is None:
                return ('imm',)
            if isinstance(ann.value, str):
                try:
                    return self.shape(ast.parse(ann.value, mode='eval').body, depth + 1)
                except SyntaxError:
                    return ('any',)
            return ('any',)
        if isinstance(ann, ast.Attribute):           # builtins.type, typing.X
            ann = ast.Name(id=ann.attr, ctx=ast.Load())
        if isinstance(ann, ast.Name):
            if ann.id in _IMM_NAMES:
                return ('imm',)
            if ann.id in self.aliases:
                return self.shape(self.aliases[ann.id], depth + 1)
            if ann.id in _COLL_NAMES:
                return ('coll', ('any',))
            k = self.class_kind(ann.id)
            return ('obj', ann.id) if k == 'obj' else (k,)
        if isinstance(ann, ast.BinOp) and isinstance(ann.op, ast.BitOr):
            return self.join([self.shape(ann.left, depth + 1), self.shape(ann.right, depth + 1)])
        if isinstance(ann, ast.Subscript):
            head = ann.value.attr if isinstance(ann.value, ast.Attribute) else ann.value.id if isinstance(ann.value, ast.Name) else ''
            args = list(ann.slice.elts) if isinstance(ann.slice, ast.Tuple) else [ann.slice]
            if head in ('Optional', 'Union'):
                return self.join([self.shape(a, depth + 1) for a in args])
            if head in ('Final', 'Annotated'):
                return self.shape(args[0], depth + 1)
            if head in _COLL_NAMES:
                return ('coll', self.shape(args[-1], depth + 1))       # dict: the values (keys are hashable, taken as immutable)
            if head in _FROZEN_NAMES:
                inner = [self.shape(a, depth + 1) for a in args if not (isinstance(a, ast.Constant) and a.value is Ellipsis)]
                return ('imm',) if all(x == ('imm',) for x in inner) else ('any',)
        return ('any',)

    def coq(self, sh: tuple, depth: int = 0) -> str:
        if sh[0] == 'imm':
            return 'TImm'
        if sh[0] == 'any' or depth > 6:
            return 'TAny'
        if sh[0] == 'coll':
            return f'(TColl {self.coq(sh[1], depth + 1)})'
        return '(TObj [' + '; '.join(self.coq(self.shape(a), depth + 1) for _, _, a, init in self.fields(sh[1]) if init) + '])'


def _is_empty_literal(e: ast.AST) -> bool:
    return (isinstance(e, (ast.List, ast.Tuple, ast.Set)) and not e.elts) or (isinstance(e, ast.Dict) and not e.keys) or (
        isinstance(e, ast.Call) and isinstance(e.func, ast.Name) and e.func.id in ('list', 'dict', 'set') and not e.args and not e.keywords)


class _CopyPlan:
    """How a hand-written copy method produces every field of the copy (SM/FgdCopyShare.v cexpr)."""

    def __init__(self, shapes: _Shapes) -> None:
        self.sh = shapes
        self.obj_cache: dict[str, str] = {}

    def typ(self, e: ast.AST, env: dict[str, tuple], cls: str) -> tuple:
        if isinstance(e, ast.Name) and e.id in env:
            return env[e.id]
        if isinstance(e, ast.Attribute) and _is(e.value, 'self'):
            for name, _, ann, _ in self.sh.fields(cls):
                if name == e.attr:
                    return self.sh.shape(ann)
        if isinstance(e, ast.Attribute) and isinstance(e.value, ast.Name) and env.get(e.value.id, ('any',))[0] == 'obj':
            for name, _, ann, _ in self.sh.fields(env[e.value.id][1]):
                if name == e.attr:
                    return self.sh.shape(ann)
        return ('any',)

    def shared(self, e: ast.AST, env: dict[str, tuple]) -> bool:
        """an expression that denotes an existing object: a bound element, `self.f`, or an attribute of a bound element"""
        return (isinstance(e, ast.Name) and e.id in env) or (isinstance(e, ast.Attribute) and (
            _is(e.value, 'self') or (isinstance(e.value, ast.Name) and e.value.id in env)))

    def obj_copy(self, cname: str) -> str:
        """The copy() method of an attrs class: a single `return Cls(args)`."""
        if cname in self.obj_cache:
            return self.obj_cache[cname]
        self.obj_cache[cname] = 'CShare'       # a recursive class would share (never the case for the classes concerned)
        fn = [n for n in self.sh.classes[cname].body if isinstance(n, ast.FunctionDef) and n.name == 'copy'][0]
        body = _body(fn)
        if not (len(body) == 1 and isinstance(body[0], ast.Return) and body[0].value is not None):
            raise TranslateError(f'{cname}.copy: not a single return statement')
        r = self.expr(body[0].value, {}, cname)
        if not r.startswith('(CObj'):
            raise TranslateError(f'{cname}.copy: does not return a new {cname}(...)')
        self.obj_cache[cname] = r
        return r

    def expr(self, e: ast.AST, env: dict[str, tuple], cls: str) -> str:
        if isinstance(e, ast.Constant) or _is_empty_literal(e):
            return 'CDeep'
        if self.shared(e, env):
            return 'CShare'
        if isinstance(e, ast.Call):
            fname = ast.unparse(e.func)
            if fname in ('deepcopy', 'copy.deepcopy') and e.args and self.shared(e.args[0], env):
                return 'CDeep'
            if fname in ('list', 'dict', 'set', 'sorted', 'copy.copy') and len(e.args) == 1 and not e.keywords and self.shared(e.args[0], env):
                return self.shallow(self.typ(e.args[0], env, cls))
            if isinstance(e.func, ast.Attribute) and e.func.attr == 'copy' and not e.args and not e.keywords and self.shared(e.func.value, env):
                return self.shallow(self.typ(e.func.value, env, cls))
            if isinstance(e.func, ast.Name) and self.sh.class_kind(e.func.id) == 'obj':
                params = [(n, kw) for n, kw, _, init in self.sh.fields(e.func.id) if init]
                given: dict[str, str] = {}
                if len(e.args) > len(params) or any(isinstance(a, ast.Starred) for a in e.args) or any(k.arg is None for k in e.keywords):
                    raise TranslateError(f'{e.func.id}(...): argument list not recognised')
                for (n, _), a in zip(params, e.args):
                    given[n] = self.expr(a, env, cls)
                for k in e.keywords:
                    hit = [n for n, kw in params if kw == k.arg]
                    if len(hit) != 1 or hit[0] in given:
                        raise TranslateError(f'{e.func.id}(...): keyword {k.arg} not recognised')
                    given[hit[0]] = self.expr(k.value, env, cls)
                return '(CObj [' + '; '.join(given.get(n, 'CDeep') for n, _ in params) + '])'
        if isinstance(e, ast.Subscript) and isinstance(e.slice, ast.Slice) and e.slice.lower is None and e.slice.upper is None and e.slice.step is None \
                and self.shared(e.value, env):
            return self.shallow(self.typ(e.value, env, cls))
        if isinstance(e, ast.List) and len(e.elts) == 1 and isinstance(e.elts[0], ast.Starred) and self.shared(e.elts[0].value, env):
            return self.shallow(self.typ(e.elts[0].value, env, cls))
        if isinstance(e, ast.Dict) and e.keys == [None] and self.shared(e.values[0], env):
            return self.shallow(self.typ(e.values[0], env, cls))
        if isinstance(e, (ast.ListComp, ast.DictComp)) and len(e.generators) == 1 and not e.generators[0].ifs and not e.generators[0].is_async:
            g = e.generators[0]
            src, var = g.iter, None
            if isinstance(e, ast.DictComp):
                if (isinstance(src, ast.Call) and isinstance(src.func, ast.Attribute) and src.func.attr == 'items' and not src.args
                        and isinstance(g.target, ast.Tuple) and len(g.target.elts) == 2 and all(isinstance(x, ast.Name) for x in g.target.elts)
                        and _is(e.key, g.target.elts[0].id)):      # type: ignore[attr-defined]
                    src, var = src.func.value, g.target.elts[1].id   # type: ignore[attr-defined]
            else:
                if isinstance(src, ast.Call) and isinstance(src.func, ast.Attribute) and src.func.attr == 'values' and not src.args:
                    src = src.func.value
                if isinstance(g.target, ast.Name):
                    var = g.target.id
            if var is not None and self.shared(src, env):
                t = self.typ(src, env, cls)
                inner = self.expr(e.value if isinstance(e, ast.DictComp) else e.elt, {**env, var: t[1] if t[0] == 'coll' else ('any',)}, cls)
                return f'(CMap {inner})'
        if isinstance(e, ast.IfExp):
            a, b = self.expr(e.body, env, cls), self.expr(e.orelse, env, cls)
            t = e.test
            # `x if isinstance(x, tuple) else list(x)`, `x if x == () else ...`: the shared branch is an immutable value
            imm_true = (isinstance(t, ast.Call) and _is(t.func, 'isinstance') and len(t.args) == 2 and ast.dump(t.args[0]) == ast.dump(e.body)
                        and all(x in _FROZEN_NAMES | _IMM_NAMES for x in ([y.id for y in t.args[1].elts if isinstance(y, ast.Name)]
                                                                         if isinstance(t.args[1], ast.Tuple) else [getattr(t.args[1], 'id', '?')])))
            imm_true = imm_true or (isinstance(t, ast.Compare) and len(t.ops) == 1 and isinstance(t.ops[0], ast.Eq) and ast.dump(t.left) == ast.dump(e.body)
                                    and isinstance(t.comparators[0], ast.Tuple) and not t.comparators[0].elts)
            if imm_true:
                a = 'CDeep'
            if a == b:
                return a
            if a == 'CDeep' and (isinstance(e.body, ast.Constant) or _is_empty_literal(e.body) or imm_true):
                return b
            if b == 'CDeep' and (isinstance(e.orelse, ast.Constant) or _is_empty_literal(e.orelse)):
                return a
        raise TranslateError(f'{cls}: copy expression not recognised: {ast.unparse(e)[:80]}')

    def shallow(self, t: tuple) -> str:
        if t[0] == 'obj':
            return self.obj_copy(t[1])
        return 'CShallow'


def _copy_plan(tree: ast.Module) -> dict:
    """EntityDef.__deepcopy__ (what EntityDef.engine_def / FGD.engine_dbase hand out are deepcopy() results of the cached engine
    database): for every attribute of EntityDef its shape (from the annotation) and how the copy's value is produced."""
    import copy as _copy
    sh = _Shapes(tree)
    cp = _CopyPlan(sh)
    cls = 'EntityDef'
    fn = _copy.deepcopy(_method(tree, cls, '__deepcopy__'))
    fields = sh.fields(cls)
    body = _body(fn)
    # unroll `for key in ['a', 'b']:` over literal names; setattr(o, 'a', v) / getattr(o, 'a') with a literal name = attribute access
    flat: list[ast.stmt] = []
    for st in body:
        if (isinstance(st, ast.For) and isinstance(st.target, ast.Name) and isinstance(st.iter, (ast.List, ast.Tuple)) and not st.orelse
                and all(isinstance(x, ast.Constant) and isinstance(x.value, str) for x in st.iter.elts)):
            for x in st.iter.elts:
                for inner in st.body:
                    flat.append(_subst(_copy.deepcopy(inner), st.target.id, x))      # type: ignore[arg-type]
        else:
            flat.append(st)

    class Attr(ast.NodeTransformer):
        def visit_Call(self, n: ast.Call) -> ast.AST:   # noqa: N802
            self.generic_visit(n)
            if _is(n.func, 'getattr') and len(n.args) == 2 and isinstance(n.args[1], ast.Constant) and isinstance(n.args[1].value, str):
                return ast.Attribute(value=n.args[0], attr=n.args[1].value, ctx=ast.Load())
            return n
    stmts: list[ast.stmt] = []
    for st in flat:
        st = Attr().visit(st)
        if (isinstance(st, ast.Expr) and isinstance(st.value, ast.Call) and _is(st.value.func, 'setattr') and len(st.value.args) == 3
                and isinstance(st.value.args[1], ast.Constant) and isinstance(st.value.args[1].value, str)):
            st = ast.Assign(targets=[ast.Attribute(value=st.value.args[0], attr=st.value.args[1].value, ctx=ast.Store())], value=st.value.args[2])
        stmts.append(ast.fix_missing_locations(st))
    obj: str | None = None
    plan: dict[str, str] = {}
    pending: dict[str, str | None] = {}      # local -> field it was stored into
    filled: dict[str, str] = {}
    for st in stmts:
        if isinstance(st, ast.AnnAssign) and st.value is None:
            continue                                                  # a bare annotation
        tgt, val = None, None
        if isinstance(st, ast.Assign) and len(st.targets) == 1:
            tgt, val = st.targets[0], st.value
        elif isinstance(st, ast.AnnAssign):
            tgt, val = st.target, st.value
        if tgt is not None and val is not None:
            if isinstance(tgt, ast.Name) and obj is None and isinstance(val, ast.Call) and isinstance(val.func, ast.Attribute) and val.func.attr == '__new__':
                obj = tgt.id
                continue
            if isinstance(tgt, ast.Name) and _is_empty_literal(val) and isinstance(val, (ast.Dict, ast.List)):
                if tgt.id in pending:                   # the local is used again (an unrolled loop): close the previous use
                    f_prev = pending[tgt.id]
                    if f_prev is None or tgt.id not in filled:
                        raise TranslateError(f'{cls}.__deepcopy__: the container {tgt.id} is re-bound before it was stored and filled')
                    plan[f_prev] = filled.pop(tgt.id)
                pending[tgt.id] = None
                continue
            if obj is not None and isinstance(tgt, ast.Attribute) and _is(tgt.value, obj):
                if tgt.attr in plan:
                    raise TranslateError(f'{cls}.__deepcopy__: {tgt.attr} is assigned twice')
                if isinstance(val, ast.Name) and val.id in pending:
                    if pending[val.id] is not None:
                        raise TranslateError(f'{cls}.__deepcopy__: {val.id} is stored into two attributes')
                    pending[val.id] = tgt.attr
                    plan[tgt.attr] = '?' + val.id
                    continue
                if not any(isinstance(n, ast.Name) and n.id == 'self' for n in ast.walk(val)):
                    plan[tgt.attr] = 'CDeep'            # built from the copy itself / constants (the _EntityView objects)
                    continue
                plan[tgt.attr] = cp.expr(val, {}, cls)
                continue
        if isinstance(st, ast.For) and not st.orelse and len(st.body) == 1:
            inner = st.body[0]
            src = st.iter
            var, acc, val_e = None, None, None
            if (isinstance(src, ast.Call) and isinstance(src.func, ast.Attribute) and src.func.attr == 'items' and not src.args
                    and isinstance(st.target, ast.Tuple) and len(st.target.elts) == 2 and all(isinstance(x, ast.Name) for x in st.target.elts)
                    and isinstance(inner, ast.Assign) and len(inner.targets) == 1 and isinstance(inner.targets[0], ast.Subscript)
                    and isinstance(inner.targets[0].value, ast.Name) and _is(inner.targets[0].slice, st.target.elts[0].id)):   # type: ignore[attr-defined]
                src, var, acc, val_e = src.func.value, st.target.elts[1].id, inner.targets[0].value.id, inner.value   # type: ignore[attr-defined]
            elif (isinstance(st.target, ast.Name) and isinstance(inner, ast.Expr) and isinstance(inner.value, ast.Call)
                  and isinstance(inner.value.func, ast.Attribute) and inner.value.func.attr == 'append' and isinstance(inner.value.func.value, ast.Name)
                  and len(inner.value.args) == 1):
                var, acc, val_e = st.target.id, inner.value.func.value.id, inner.value.args[0]
            if var is not None and acc in pending and acc not in filled and cp.shared(src, {}):
                t = cp.typ(src, {}, cls)
                filled[acc] = '(CMap ' + cp.expr(val_e, {var: t[1] if t[0] == 'coll' else ('any',)}, cls) + ')'     # type: ignore[arg-type]
                continue
        if isinstance(st, ast.Return) and obj is not None and st.value is not None and _is(st.value, obj):
            continue
        raise TranslateError(f'{cls}.__deepcopy__: statement not recognised: {ast.unparse(st)[:80]}')
    if obj is None:
        raise TranslateError(f'{cls}.__deepcopy__: no `{cls}.__new__({cls})`')
    for f, v in list(plan.items()):
        if v.startswith('?'):
            if v[1:] not in filled:
                raise TranslateError(f'{cls}.__deepcopy__: the container stored into {f} is never filled')
            plan[f] = filled[v[1:]]
    missing = [n for n, _, _, _ in fields if n not in plan]
    if missing:
        raise TranslateError(f'{cls}.__deepcopy__: attributes not copied: {missing}')
    rows = [(n, sh.coq(sh.shape(ann)), plan[n]) for n, _, ann, init in fields if init]
    return {'rows': rows, 'object_copies': dict(cp.obj_cache)}



# ------------------------------------------------------------------------------------------ emit
def _nlist(xs) -> str:
    return '[' + '; '.join(str(int(x)) for x in xs) + ']%N'


def _cstr(s: str) -> str:
    return _nlist(ord(c) for c in s)


def _slist(xs) -> str:
    return '[' + '; '.join('"%s"' % x for x in xs) + ']'


def _b(x: bool) -> str:
    return 'true' if x else 'false'


OPS = {'Gt': 'OpGt', 'GtE': 'OpGe', 'Lt': 'OpLt', 'LtE': 'OpLe', 'Eq': 'OpEq', 'NotEq': 'OpNe'}


def translate() -> tuple[str, dict]:
    pairs, excl, tok_side = _tokenizer_tables()
    fgd_tree = ast.parse(src_text('fgd.py'))
    wl = _write_longstring(fgd_tree)
    tw = _text_writers(fgd_tree)
    fe = _fgd_escape(fgd_tree)
    db = _engine_db()
    md = _multi_db(fgd_tree)
    tt = _type_text(fgd_tree)
    kk = _kind_keyword(fgd_tree)
    ha = _helper_args(fgd_tree)
    cpl = _copy_plan(fgd_tree)
    for op in (wl['loop_op'], wl['nl_op']):
        if op not in OPS:
            raise TranslateError(f'comparison operator {op} not supported')
    ef = dict(db['ef_members'])
    lines = [
        '(* GENERATED by translate/c16_fgd.py from srctools/fgd.py, _engine_db.py, tokenizer.py, const.py. Do not edit. *)',
        'From Coq Require Import List NArith String.', 'From SV Require Import Fmt.LongString Fmt.FgdLine Fmt.FgdTypeText SM.LazyDbMulti SM.FgdBlocks Fmt.FgdKindKw Fmt.FgdHead SM.FgdCopyShare Fmt.FgdBare.',
        'Import ListNotations.', 'Open Scope string_scope.',
        'Inductive cmp_op := OpGt | OpGe | OpLt | OpLe | OpEq | OpNe.',
        '(* tokenizer.ESCAPES as (symbol, character); characters escape_text() never escapes *)',
        'Definition esc_pairs : esc_table := [' + '; '.join(f'({a}, {b})%N' for a, b in pairs) + '].',
        f'Definition esc_excluded : list N := {_nlist(excl)}.',
        '(* fgd._fgd_escape, plain branch: the replace() chain in application order *)',
        'Definition std_repl : list (list N * list N) := [' + '; '.join(f'({_cstr(a)}, {_cstr(b)})' for a, b in fe['std_repl']) + '].',
        '(* fgd._write_longstring *)',
        f'Definition gen_cfg : ls_cfg := {{| limit := {wl["limit"]}; min_nl := {wl["min_nl"]}; '
        f'empty_quotes := {_b(wl["empty_quotes"])}; cut_guard := {_b(wl["cut_guard"])} |}}.',
        f'Definition ls_loop_op : cmp_op := {OPS[wl["loop_op"]]}.',
        f'Definition ls_nl_op : cmp_op := {OPS[wl["nl_op"]]}.',
        f'Definition ls_needle1 : list N := {_cstr(wl["needle1"])}.',
        f'Definition ls_off1 : nat := {wl["off1"]}.',
        f'Definition ls_needle2 : list N := {_cstr(wl["needle2"])}.',
        f'Definition ls_off2 : nat := {wl["off2"]}.',
        f'Definition ls_notfound : Z := ({wl["notfound"]})%Z.' if False else f'Definition ls_notfound : nat := {wl["notfound"]}.',
        f'Definition ls_joiner : list N := {_cstr(wl["joiner"])}.',
        '(* KVDef.export / EntityDef.export: decisive branches of the line writers (Fmt/FgdLine.v) *)',
        f'Definition gen_line_cfg : FgdLine.line_cfg := {{| FgdLine.colons_before_desc_without_default := {tw["colons_without_default"]}; '
        f'FgdLine.bool_default_filled := {_b(tw["bool_fill"])}; FgdLine.res_block_if_defined := {_b(tw["res_if_defined"])} |}}.',
        f'Definition kv_colons_after_default : nat := {tw["colons_with_default"]}.',
        '(* KVDef.export: the test under which the default is written WITHOUT quotes (Fmt/FgdBare.v) *)',
        'Definition gen_bare_test : bare_test := ' + ('BIntCall' if tw['bare_test'][0] == 'int' else 'BChars ' + _cstr(tw['bare_test'][1])) + '.',
        '(* KVDef._parse / IODef._parse: how the text between the parentheses becomes the type (Fmt/FgdTypeText.v); VALUE_TYPE_LOOKUP *)',
        'Definition vt_lookup_tab : list (list N * list N) := [' + '; '.join(f'({_cstr(k)}, {_cstr(v)})' for k, v in tt['table']) + '].',
        f'Definition kv_type_prog : tprog := {tt["kv_prog"][1:-1]}.',
        '(* VALUE_TO_IO_DECAY (canonical text -> canonical text of the decayed member) and the members IODef.export writes as a literal *)',
        'Definition io_decay_tab : list (list N * list N) := [' + '; '.join(f'({_cstr(k)}, {_cstr(v)})' for k, v in tt['io_decay']['decay']) + '].',
        'Definition io_special_text : list (list N * list N) := [' + '; '.join(f'({_cstr(k)}, {_cstr(v)})' for k, v in tt['io_decay']['special']) + '].',
        f'Definition io_type_prog : tprog := {tt["io_prog"][1:-1]}.',
        '(* _engine_db tables *)',
        f'Definition value_types_all : list string := {_slist(n for n, _ in db["vt_members"])}.',
        f'Definition value_type_order : list string := {_slist(db["vt_order"])}.',
        f'Definition file_types_all : list string := {_slist(n for n, _ in db["ft_members"])}.',
        f'Definition file_type_order : list string := {_slist(db["ft_order"])}.',
        f'Definition entity_types_all : list string := {_slist(n for n, _ in db["et_members"])}.',
        'Definition ent_flags : list (string * N) := [' + '; '.join(f'("{n}", {v}%N)' for n, v in db['ef_members']) + '].',
        f'Definition shared_strings : N := {db["consts"]["SHARED_STRINGS"]}%N.',
        f'Definition string_sep : N := {ord(db["consts"]["STRING_SEP"])}%N.',
        f'Definition bin_format_version : N := {db["consts"]["BIN_FORMAT_VERSION"]}%N.',
        'Definition struct_formats : list (string * string) := [' + '; '.join(f'("{k}", "{v}")' for k, v in db['structs'].items()) + '].',
        '(* I/O skeletons of the record (un)serialisers: primitive reads/writes in program order with their loops/branches *)',
        'Definition bin_layouts : list (string * list string) := [' + '; '.join(
            '("%s", [%s])' % (fn, '; '.join('"%s"' % e.replace('"', '""') for e in evs)) for fn, evs in db['layouts'].items()) + '].',
        f'Definition bin_list_type : string := "{db["special_types"]["list"]}".',
        f'Definition bin_choices_type : string := "{db["special_types"]["choices"]}".',
        '(* EngineDB._parse_block: bases resolved through self.get_ent (true) or by a look-up in self.ent_map (false); *)',
        '(* the block is marked as decoded before the bases loop *)',
        f'Definition lazy_via_get_ent : bool := {_b(db["lazy"]["via_get_ent"])}.',
        f'Definition lazy_mark_before_resolve : bool := {_b(db["lazy"]["mark_before_resolve"] and db["lazy"]["mark_after_decode"])}.',
        '(* FGD.engine_dbase: a class name that is already present is kept (FirstWins) or overwritten (LastWins), seen in the order of *)',
        '(* the database list; EntityDef.engine_def returns the first database (in that order) that knows the class *)',
        f'Definition engine_dbase_merge : merge_mode := {"FirstWins" if md["effective_first"] else "LastWins"}.',
        f'Definition engine_def_returns_first_hit : bool := {_b(md["first_hit"])}.',
        '(* FGD.parse_file top-level dispatch and the kind keyword EntityDef.export writes (Fmt/FgdKindKw.v) *)',
        f'Definition pf_token_folded : bool := {_b(kk["folded"])}.',
        'Definition pf_directives : list (list N) := [' + '; '.join(_cstr(d) for d in kk['directives']) + '].',
        'Definition entity_kind_values : list (list N) := [' + '; '.join(_cstr(d) for d in kk['kinds']) + '].',
        'Definition kind_writer_ops : list wop := [' + '; '.join(o[1:-1] if o.startswith('(') else o for o in kk['writer_ops']) + '].',
        '(* EntityDef.parse, PAREN_ARGS branch: split / strip / filter / clearing of [""] (Fmt/FgdHead.v); joiners of EntityDef.export *)',
        f'Definition gen_args_cfg : args_cfg := mk_args_cfg {ord(ha["sep"])}%N {_b(ha["strip"])} {ha["filter"]} {_b(ha["clear_sole"])}.',
        'Definition helper_arg_joiners : list (list N) := [' + '; '.join(_cstr(j) for j in ha['joiners']) + '].',
        '(* EntityDef.__deepcopy__: per attribute its shape (annotation) and how the copy is produced (SM/FgdCopyShare.v) *)',
        '(* what EntityDef.engine_def / FGD.engine_dbase return: deepcopy(<cached object>) = CDeep, the cached object itself = CShare *)',
        'Definition answer_copies : list (string * cexpr) := [' + '; '.join(
            f'("{n}", {"CDeep" if d or (n.startswith("engine_dbase") and db["lazy"]["get_fgd_returns_deepcopy"]) else "CShare"})' for n, d in md['answers_deep']) + '].',
        'Definition entity_copy_plan : list (string * (ftype * cexpr)) := [' + '; '.join(f'("{n}", ({t}, {e}))' for n, t, e in cpl['rows']) + '].',
        '(* _engine_db.build_blocks: size tests by role, and where blocks without entities leave the list (SM/FgdBlocks.v); serialise *)',
        'Definition gen_bcfg : bcfg := {| merge_fits := %s; add_fits := %s; ovf_full := %s; drop_empty_before_leftovers := %s; '
        'drop_empty_after_leftovers := %s |}.' % (_CMP_FN[db['build_blocks']['merge_op']], _CMP_FN[db['build_blocks']['add_op']],
                                                   _CMP_FN[db['build_blocks']['ovf_op']], _b(db['build_blocks']['drop_before']), _b(db['build_blocks']['drop_after'])),
        f'Definition max_block_size : N := {db["consts"]["MAX_BLOCK_SIZE"]}%N.',
        f'Definition serialise_writes_every_entity : bool := {_b(db["build_blocks"]["serialise_writes_every_entity"])}.',
        '(* every bit operation with an integer literal in the (un)serialisers: (function, operator, literal) *)',
        'Definition bit_ops : list (string * string * N) := [' + '; '.join(
            f'("{fn}", "{op}", {lit}%N)' for fn, ops in db['bits'].items() for op, lit, _ in ops) + '].',
        '',
    ]
    if wl['notfound'] < 0:
        raise TranslateError('not-found comparison value is negative')
    side = dict(type_text=tt, kind_keyword=kk, helper_args=ha, copy_plan=cpl, multi_db=md, write_longstring=wl, fgd_escape=fe, text_writers=tw, tokenizer=tok_side, engine_db={k: v for k, v in db.items() if k != 'bits'},
                bit_ops=db['bits'])
    return '\n'.join(lines), side


GEN = {'FgdConsts_gen': translate}
