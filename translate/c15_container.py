"""C15 translator: every struct pack / unpack site of the VTF container and of the particle-sheet resource
(vtf.py: VTF.save, VTF.read, TexCoord.to_binary/from_binary, SheetSequence.make_data/from_resource)
-> Gen/VtfContainer_gen.v   (fail-closed Python-ast walker)

Per site: the format string, the number of bytes the reader asks for, and the ORDER of the values on both sides as
canonical field names (`self.width` on the writing side and the unpack target `width` on the reading side are both
the field "width"; an expression that is not in the tables below stops the translation).  Also which attribute of the
VTF object every header value ends up in, the version tests that guard the optional parts (`version_minor >= 2`, `>= 3`),
the resource flag handling (0x02) and the offsets used by the sheet reader.
"""
from __future__ import annotations

import ast

from harness.common import TranslateError, src_text
from translate import c15_norm
from translate.c15_norm import seq as _seq

# expression on the writing side -> field name(s)
SAVE_FIELD = {
    'version_major': ['version_major'], 'version_minor': ['version_minor'],
    '0': ['header_size'], 'self.width': ['width'], 'self.height': ['height'], 'self.flags.value': ['flags'],
    'self.frame_count': ['frame_count'], 'self.first_frame_index': ['first_frame_index'],
    '*self.reflectivity': ['ref_r', 'ref_g', 'ref_b'], 'self.bumpmap_scale': ['bumpmap_scale'],
    'self.format.bin_value(asw_or_later)': ['high_format'], 'self.mipmap_count': ['mipmap_count'],
    'self.low_format.bin_value(asw_or_later)': ['low_format'],
    'self._low_res.width': ['low_width'], 'self._low_res.height': ['low_height'],
    'self.depth': ['depth'], 'res_count': ['num_resources'],
    "getattr(res_id, 'value', res_id)": ['res_id'], 'res_id': ['res_id'],
    'res.data': ['res_data'],
    'ResourceID.LOW_RES.value': ['id_low_res'], 'ResourceID.HIGH_RES.value': ['id_high_res'],
    'ResourceID.PARTICLE_SHEET.value': ['id_particle'],
    'len(res.data)': ['block_len'], 'len(particle_data)': ['block_len'],
    # sheets
    'version': ['sheet_version'], 'len(sequences)': ['sequence_count'],
    'seq_num': ['seq_num'], 'seq.clamp': ['clamp'], 'len(seq.frames)': ['frame_count'], 'seq.duration': ['total_time'],
    'duration': ['duration'],
    'self.left': ['left'], 'self.top': ['top'], 'self.right': ['right'], 'self.bottom': ['bottom'],
}
# unpack target on the reading side -> field name
READ_FIELD = {
    'version_major': 'version_major', 'version_minor': 'version_minor',
    'header_size': 'header_size', 'width': 'width', 'height': 'height', 'flags': 'flags', 'frame_count': 'frame_count',
    'first_frame_index': 'first_frame_index', 'ref_r': 'ref_r', 'ref_g': 'ref_g', 'ref_b': 'ref_b',
    'bumpmap_scale': 'bumpmap_scale', 'high_format': 'high_format', 'mipmap_count': 'mipmap_count', 'low_format': 'low_format',
    'low_width': 'low_width', 'low_height': 'low_height', 'vtf.depth': 'depth', 'num_resources': 'num_resources',
    'res_id': 'res_id', 'res_flags': 'res_flags', 'data': 'res_data', 'size': 'block_len',
    'version': 'sheet_version', 'sequence_count': 'sequence_count', 'seq_num': 'seq_num', 'clamp': 'clamp',
    'total_time': 'total_time', 'duration': 'duration',
}
# attribute of the VTF object <- expression over the unpacked names
READ_ATTR = {
    'width': 'width', 'height': 'height', 'frame_count': 'frame_count', 'first_frame_index': 'first_frame_index',
    'mipmap_count': 'mipmap_count', 'flags': 'VTFFlags(flags)', 'reflectivity': 'Vec(ref_r, ref_g, ref_b)',
    'bumpmap_scale': 'bumpmap_scale', 'format': 'FORMAT_ORDER[high_format]', 'version': '(version_major, version_minor)',
    'low_format': 'FORMAT_ORDER[low_format]',
}


def _err(node, msg):
    raise TranslateError(f'vtf.py line {getattr(node, "lineno", "?")}: {msg}')


def _const_str(node: ast.expr) -> str | None:
    if isinstance(node, ast.Constant) and isinstance(node.value, str):
        return node.value
    return None


# ---- resource flag expressions: tiny language over the flags of the resource, given to Coq as a tree and judged there
# SEMANTICALLY (complete enumeration of the byte domain), so `f & ~2`, `f & 0xFD`, `(f | 2) ^ 2` are the same thing.
FLAG_VARS = ('res.flags', 'resource.flags', 'res_flags')


def _flag_expr(node: ast.expr) -> str | None:
    """Coq fexpr of an integer expression over the resource's flags, or None when it is not one."""
    s = ast.unparse(node)
    if s in FLAG_VARS:
        return 'FVar'
    if isinstance(node, ast.Constant) and type(node.value) is int:
        return f'(FConst ({node.value}))'
    if isinstance(node, ast.UnaryOp) and isinstance(node.op, ast.Invert):
        a = _flag_expr(node.operand)
        return None if a is None else f'(FNot {a})'
    if isinstance(node, ast.BinOp) and type(node.op) in (ast.BitAnd, ast.BitOr, ast.BitXor):
        a, b = _flag_expr(node.left), _flag_expr(node.right)
        if a is None or b is None:
            return None
        return f'({ {ast.BitAnd: "FAnd", ast.BitOr: "FOr", ast.BitXor: "FXor"}[type(node.op)]} {a} {b})'
    return None


def _mentions_flags(node: ast.expr) -> bool:
    return any(ast.unparse(n) in FLAG_VARS for n in ast.walk(node) if isinstance(n, (ast.Attribute, ast.Name)))


def _flag_test(test: ast.expr) -> str | None:
    """Coq ftest (true = "the data is elsewhere in the file") of the reader's condition, or None."""
    if isinstance(test, ast.UnaryOp) and isinstance(test.op, ast.Not):
        e = _flag_expr(test.operand)
        if e is not None:
            return f'(TIsZero {e})'
        t = _flag_test(test.operand)
        return None if t is None else f'(TNot {t})'
    if isinstance(test, ast.Compare) and len(test.ops) == 1 and type(test.ops[0]) in (ast.Eq, ast.NotEq):
        a, b = _flag_expr(test.left), _flag_expr(test.comparators[0])
        if a is None or b is None:
            return None
        t = f'(TEq {a} {b})'
        return t if isinstance(test.ops[0], ast.Eq) else f'(TNot {t})'
    e = _flag_expr(test)
    if e is not None:
        return f'(TNot (TIsZero {e}))'
    return None


def _fields_of_args(args: list[ast.expr], node, site: dict) -> list[str]:
    out: list[str] = []
    header = any(ast.unparse(a) == 'self.width' for a in args)
    for a in args:
        s = ast.unparse(a)
        if isinstance(a, ast.Constant) and type(a.value) is int and not header:
            out.append('res_flags')
            site['flag_expr'] = _flag_expr(a)
            site['flag_const'] = True
            continue
        if _mentions_flags(a):
            e = _flag_expr(a)
            if e is None:
                _err(node, f'expression over the resource flags not understood: {s}')
            out.append('res_flags')
            site['flag_expr'] = e
            continue
        if s not in SAVE_FIELD:
            _err(node, f'value written to the file is not a known field: {s}')
        out += SAVE_FIELD[s]
    return out


def _targets(t: ast.expr, node) -> list[str]:
    elts = t.elts if isinstance(t, (ast.Tuple, ast.List)) else [t]
    out = []
    for e in elts:
        s = ast.unparse(e)
        if s not in READ_FIELD:
            _err(node, f'unpack target is not a known field: {s}')
        out.append(READ_FIELD[s])
    return out


def _sites(fn: ast.FunctionDef) -> list[dict]:
    """pack / unpack / defer / set_data / pad / other-write sites of one function in execution (source) order.
    The tree is normalised (c15_norm): precompiled struct.Struct constants appear as struct.pack/unpack with the format."""
    sites: list[dict] = []

    class V(ast.NodeVisitor):
        def visit_Assign(self, st: ast.Assign):
            v = st.value
            if isinstance(v, ast.Call):
                f = ast.unparse(v.func)
                if f in ('struct.unpack', 'struct.unpack_from'):
                    if v.keywords:
                        _err(st, f'{f} with keyword arguments')
                    if f == 'struct.unpack':
                        fmt = _const_str(v.args[0])
                        rd = v.args[1]
                        if fmt is None or not (isinstance(rd, ast.Call) and ast.unparse(rd.func) == 'file.read' and len(rd.args) == 1
                                               and isinstance(rd.args[0], ast.Constant) and type(rd.args[0].value) is int):
                            _err(st, f'struct.unpack site not understood: {ast.unparse(v)}')
                        sites.append({'k': 'unpack', 'fmt': fmt, 'len': rd.args[0].value, 'fields': _targets(st.targets[0], st), 'line': st.lineno, 'seq': _seq(st)})
                    else:
                        fmt = _const_str(v.args[0])
                        if fmt is None:
                            _err(st, 'unpack_from format')
                        off = ast.unparse(v.args[2]) if len(v.args) > 2 else '0'
                        tg = st.targets[0]
                        if ast.unparse(tg) == 'data' and fn.name == 'from_binary':
                            if not any(isinstance(n, ast.Return) and ast.unparse(n.value) == 'cls(*data)' for n in ast.walk(fn)):
                                _err(st, 'TexCoord.from_binary does not return cls(*data)')
                            fields = list(TEX_ATTRS)
                        else:
                            fields = _targets(tg, st)
                        sites.append({'k': 'unpack_from', 'fmt': fmt, 'off': off, 'fields': fields, 'line': st.lineno, 'seq': _seq(st)})
                    return
            self.generic_visit(st)

        def visit_Call(self, c: ast.Call):
            f = ast.unparse(c.func)
            if f == 'struct.pack':
                fmt = _const_str(c.args[0])
                if fmt is None or c.keywords:
                    _err(c, 'struct.pack format is not a literal')
                site = {'k': 'pack', 'fmt': fmt, 'line': c.lineno, 'seq': _seq(c)}
                site['fields'] = _fields_of_args(c.args[1:], c, site)
                sites.append(site)
                return
            if f == 'deferred.defer':
                fmt = _const_str(c.args[1]) if len(c.args) > 1 else None
                wr = any(k.arg == 'write' and isinstance(k.value, ast.Constant) and k.value.value is True for k in c.keywords)
                if len(c.args) > 2 and isinstance(c.args[2], ast.Constant) and c.args[2].value is True:
                    wr = True
                if fmt is None:
                    _err(c, 'defer format')
                sites.append({'k': 'defer', 'key': ast.unparse(c.args[0]), 'fmt': fmt, 'write': wr, 'line': c.lineno, 'seq': _seq(c)})
                return
            if f == 'deferred.set_data':
                sites.append({'k': 'set_data', 'key': ast.unparse(c.args[0]), 'value': ast.unparse(c.args[1]), 'line': c.lineno, 'seq': _seq(c)})
                return
            if f == 'file.write' and len(c.args) == 1:
                a = c.args[0]
                if isinstance(a, ast.Call) and ast.unparse(a.func) == 'bytes' and len(a.args) == 1 and isinstance(a.args[0], ast.Constant):
                    sites.append({'k': 'pad', 'n': a.args[0].value, 'line': c.lineno, 'seq': _seq(c)})
                    return
                if not (isinstance(a, ast.Call) and ast.unparse(a.func) == 'struct.pack'):
                    sites.append({'k': 'write', 'what': ast.unparse(a), 'line': c.lineno, 'seq': _seq(c)})
            if f in ('struct.unpack', 'struct.unpack_from', 'struct.iter_unpack', 'struct.pack_into'):
                _err(c, f'{f} whose result is not assigned to names')
            self.generic_visit(c)

    V().visit(fn)
    sites.sort(key=lambda s: s['seq'])
    return sites


def _loop_depths(fn: ast.FunctionDef) -> dict[int, int]:
    """_seq of every node -> number of loops whose BODY contains it"""
    d: dict[int, int] = {}

    def go(node, depth):
        d[_seq(node)] = depth
        if isinstance(node, (ast.For, ast.AsyncFor, ast.While)):
            for fld in ('target', 'iter', 'test'):
                ch = getattr(node, fld, None)
                if ch is not None:
                    go(ch, depth)
            for st in node.body:
                go(st, depth + 1)
            for st in node.orelse:
                go(st, depth)
            return
        for ch in ast.iter_child_nodes(node):
            go(ch, depth)
    go(fn, 0)
    return d


def _event_key(text_or_node) -> str:
    """'low_res' -> low_res;  ('res', res_id) -> res   (the name of the loop variable does not matter)"""
    try:
        node = ast.parse(text_or_node, mode='eval').body if isinstance(text_or_node, str) else text_or_node
    except SyntaxError:
        return str(text_or_node)
    if isinstance(node, ast.Constant) and isinstance(node.value, str):
        return node.value
    if isinstance(node, ast.Tuple) and node.elts and isinstance(node.elts[0], ast.Constant) and isinstance(node.elts[0].value, str):
        return node.elts[0].value
    return ast.unparse(node)


def _save_events(fn: ast.FunctionDef, sites: list[dict]) -> list[str]:
    """the file-writing events of save() in execution order as Coq terms of type sev (Fmt/VtfWholeFile.v)"""
    depth = _loop_depths(fn)
    out = []
    for st in sites:
        k = st['k']
        if k == 'pack':
            out.append(f'SvPack {_sl(st["fields"])}')
        elif k == 'defer':
            out.append(f'SvDefer {_s(_event_key(st["key"]))}')
        elif k == 'set_data':
            if st['value'] != 'file.tell()':
                raise TranslateError(f'vtf.py line {st["line"]}: deferred.set_data with a value that is not file.tell()')
            out.append(f'SvSet {_s(_event_key(st["key"]))}')
        elif k == 'pad':
            out.append(f'SvPad {st["n"]}%Z')
        elif k == 'write':
            try:
                v = ast.parse(st['what'], mode='eval').body
            except SyntaxError:
                v = None
            if isinstance(v, ast.Constant) and isinstance(v.value, bytes):
                out.append('SvConst')
            else:
                out.append(f'SvWrite {depth.get(st["seq"], 0)}')
        else:
            raise TranslateError(f'vtf.py line {st["line"]}: event {k} in save() not understood')
    return out


def _one(sites, pred, what, node=None):
    got = [s for s in sites if pred(s)]
    if len(got) != 1:
        raise TranslateError(f'{what}: expected exactly one site, found {len(got)}')
    return got[0]


def _version_guards(fn: ast.FunctionDef) -> list[tuple[str, int]]:
    out = []
    for n in ast.walk(fn):
        if isinstance(n, ast.If) and isinstance(n.test, ast.Compare) and ast.unparse(n.test.left) == 'version_minor' \
                and len(n.test.ops) == 1 and isinstance(n.test.comparators[0], ast.Constant):
            op = {ast.GtE: '>=', ast.Gt: '>', ast.Lt: '<', ast.LtE: '<=', ast.Eq: '==', ast.NotEq: '!='}[type(n.test.ops[0])]
            out.append((op, n.test.comparators[0].value, _seq(n)))
    out.sort(key=lambda t: t[2])
    return [(a, b) for a, b, _ in out]


TEX_ATTRS: list[str] = []


def container_info() -> dict:
    tree = c15_norm.normalised_tree(src_text('vtf.py'))
    tc = next((n for n in tree.body if isinstance(n, ast.ClassDef) and n.name == 'TexCoord'), None)
    if tc is None:
        raise TranslateError('class TexCoord not found')
    TEX_ATTRS[:] = [st.target.id for st in tc.body if isinstance(st, ast.AnnAssign) and isinstance(st.target, ast.Name)]
    cls = {n.name: n for n in tree.body if isinstance(n, ast.ClassDef)}
    for need in ('VTF', 'TexCoord', 'SheetSequence'):
        if need not in cls:
            raise TranslateError(f'class {need} not found')
    meth = lambda c, m: next((n for n in cls[c].body if isinstance(n, ast.FunctionDef) and n.name == m), None) or (_ for _ in ()).throw(TranslateError(f'{c}.{m} not found'))
    save, read = meth('VTF', 'save'), meth('VTF', 'read')
    ss, rs = _sites(save), _sites(read)
    info: dict = {'save_sites': ss, 'read_sites': rs}
    info['save_fn'] = save
    P = lambda fmt: (lambda s: s['k'] == 'pack' and s['fmt'] == fmt)
    U = lambda fmt: (lambda s: s['k'] in ('unpack', 'unpack_from') and s['fmt'].lstrip('<') == fmt.lstrip('<'))
    pairs = {}
    pairs['version'] = (_one(ss, lambda s: s['k'] == 'pack' and s['fields'][:1] == ['version_major'], 'save version'),
                        _one(rs, lambda s: s['k'] == 'unpack' and s['fields'][:1] == ['version_major'], 'read version'))
    pairs['header'] = (_one(ss, lambda s: s['k'] == 'pack' and 'width' in s['fields'], 'save header'),
                       _one(rs, lambda s: s['k'] == 'unpack' and 'width' in s['fields'], 'read header'))
    pairs['depth'] = (_one(ss, lambda s: s['k'] == 'pack' and s['fields'] == ['depth'], 'save depth'),
                      _one(rs, lambda s: s['k'] == 'unpack' and s['fields'] == ['depth'], 'read depth'))
    pairs['res_count'] = (_one(ss, lambda s: s['k'] == 'pack' and s['fields'] == ['num_resources'], 'save resource count'),
                          _one(rs, lambda s: s['k'] == 'unpack' and s['fields'] == ['num_resources'], 'read resource count'))
    entry_r = _one(rs, lambda s: s['k'] == 'unpack' and 'res_id' in s['fields'], 'read directory entry')
    inline_w = _one(ss, lambda s: s['k'] == 'pack' and 'res_flags' in s['fields'] and 'res_data' in s['fields'], 'save inline entry')
    off_w = _one(ss, lambda s: s['k'] == 'pack' and 'res_flags' in s['fields'] and 'res_data' not in s['fields']
                 and s['fields'][:1] == ['res_id'], 'save offset entry')
    fixed_w = [s for s in ss if s['k'] == 'pack' and s['fields'] and s['fields'][0].startswith('id_')]
    for s_ in [inline_w, off_w] + fixed_w:
        if s_.get('flag_expr') is None:
            raise TranslateError(f'vtf.py line {s_["line"]}: directory entry without a flags value')
    if inline_w.get('flag_const') or off_w.get('flag_const'):
        pass    # a constant is a legal (if lossy) flag expression; Coq judges it
    blk_w = [s for s in ss if s['k'] == 'pack' and s['fields'] == ['block_len']]
    blk_r = _one(rs, lambda s: s['k'] == 'unpack' and s['fields'] == ['block_len'], 'read block length')
    if not blk_w:
        raise TranslateError('save: no data block length written')
    # every <3sB entry without a value is directly followed by a deferred 4-byte slot that is written
    defers = [s for s in ss if s['k'] == 'defer']
    def followed(s):
        # the next thing save() does to the file after writing the 4-byte id+flags is the deferred slot
        nxt = [d for d in ss if d['seq'] > s['seq'] and d['k'] in ('pack', 'defer', 'pad', 'write')]
        return bool(nxt) and nxt[0]['k'] == 'defer' and nxt[0]['write'] and nxt[0]['fmt']
    entry_slots = [followed(s) for s in [off_w] + fixed_w]
    info['entry'] = {'read': entry_r, 'inline': inline_w, 'offset': off_w, 'fixed': fixed_w, 'slot_fmts': entry_slots,
                     'block_w': blk_w, 'block_r': blk_r}
    info['pairs'] = pairs
    info['defers'] = defers
    info['set_data'] = [s for s in ss if s['k'] == 'set_data']
    info['pads'] = [s for s in ss if s['k'] == 'pad']
    info['save_guards'] = _version_guards(save)
    info['read_guards'] = _version_guards(read)
    # where the header values end up
    attrs = {}
    for st in ast.walk(read):
        if isinstance(st, ast.Assign):
            for t in st.targets:
                if isinstance(t, ast.Attribute) and isinstance(t.value, ast.Name) and t.value.id == 'vtf' and t.attr in READ_ATTR:
                    attrs.setdefault(t.attr, []).append(ast.unparse(st.value))
    info['read_attrs'] = attrs
    # flag 0x02 test on the reading side
    tests = [(_seq(n), _flag_test(n.test), n) for n in ast.walk(read) if isinstance(n, ast.If) and _mentions_flags(n.test)]
    if len(tests) != 1 or tests[0][1] is None:
        raise TranslateError(f'VTF.read: expected exactly one understood test of the resource flags, found {[ast.unparse(t[2].test) for t in tests]}')
    tn = tests[0][2]
    # the branch taken when the test holds reads the block (seek to the value, unpack a length); there is no else branch
    reads_block = any(isinstance(n, ast.Call) and ast.unparse(n.func) == 'file.seek' for b in tn.body for n in ast.walk(b)) and not tn.orelse
    if not reads_block:
        raise TranslateError(f'vtf.py line {tn.lineno}: the branch of the resource flag test does not read a data block')
    info['read_flag_test'] = tests[0][1]
    info['flag_exprs'] = {'inline': inline_w['flag_expr'], 'offset': off_w['flag_expr'], 'fixed': [f['flag_expr'] for f in fixed_w]}
    # which test decides between the two directory entry forms on the writing side
    info['save_entry_test'] = ''
    for n in ast.walk(save):
        if isinstance(n, ast.If) and n.orelse and any(_seq(x) == off_w['seq'] for b in n.body for x in ast.walk(b)) \
                and any(_seq(x) == inline_w['seq'] for b in n.orelse for x in ast.walk(b)):
            info['save_entry_test'] = ast.unparse(n.test)
    # sheets
    mk, fr = meth('SheetSequence', 'make_data'), meth('SheetSequence', 'from_resource')
    tb, fb = meth('TexCoord', 'to_binary'), meth('TexCoord', 'from_binary')
    sm, sr = _sites(mk), _sites(fr)
    info['sheet'] = {
        'head': (_one(sm, lambda s: s['k'] == 'pack' and s['fields'][:1] == ['sheet_version'], 'sheet head w'),
                 _one(sr, lambda s: s['fields'][:1] == ['sheet_version'], 'sheet head r')),
        'seq': (_one(sm, lambda s: s['k'] == 'pack' and s['fields'][:1] == ['seq_num'], 'sequence head w'),
                _one(sr, lambda s: s['fields'][:1] == ['seq_num'], 'sequence head r')),
        'dur': (_one(sm, lambda s: s['k'] == 'pack' and s['fields'] == ['duration'], 'frame duration w'),
                _one(sr, lambda s: s['fields'] == ['duration'], 'frame duration r')),
        'tex': (_one(_sites(tb), lambda s: s['k'] == 'pack', 'texcoord w'), _one(_sites(fb), lambda s: s['k'] == 'unpack_from', 'texcoord r')),
    }
    # offsets the sheet reader advances by / reads at
    incs = []
    for n in ast.walk(fr):
        if isinstance(n, ast.AugAssign) and ast.unparse(n.target) == 'offset' and isinstance(n.op, ast.Add) and isinstance(n.value, ast.Constant):
            incs.append((_seq(n), n.value.value))
        if isinstance(n, ast.Assign) and ast.unparse(n.targets[0]) == 'offset' and isinstance(n.value, ast.Constant):
            incs.append((_seq(n), n.value.value))
    info['sheet']['incs'] = [v for _, v in sorted(incs)]
    tex_offs = []
    for n in ast.walk(fr):
        if isinstance(n, ast.Call) and ast.unparse(n.func) == 'TexCoord.from_binary' and len(n.args) == 2:
            tex_offs.append((_seq(n), 0, ast.unparse(n.args[1])))
    info['sheet']['tex_offs'] = [o for _, _, o in sorted(tex_offs)]
    # which coordinates the writer emits for version 1 / always
    wr = []
    for n in ast.walk(mk):
        if isinstance(n, ast.Call) and isinstance(n.func, ast.Attribute) and n.func.attr == 'to_binary':
            wr.append((_seq(n), ast.unparse(n.func.value)))
    info['sheet']['tex_written'] = [o for _, o in sorted(wr)]
    v1 = [ast.unparse(n.test) for n in ast.walk(mk) if isinstance(n, ast.If)] + [ast.unparse(n.test) for n in ast.walk(fr) if isinstance(n, ast.If)]
    info['sheet']['tests'] = v1
    return info


def _s(x: str) -> str:
    return '"' + x.replace('"', '""') + '"'


def _sl(xs) -> str:
    return '[' + '; '.join(_s(x) for x in xs) + ']'


def translate_container() -> tuple[str, dict]:
    info = container_info()
    b = lambda x: 'true' if x else 'false'
    L = ['(* GENERATED by translate/c15_container.py from src/srctools/vtf.py. Do not edit. *)',
         'From Coq Require Import List Bool String ZArith.', 'From SV Require Import Bin.Struct Fmt.VtfContainer Fmt.VtfWholeFile.', 'Import ListNotations.',
         'Local Open Scope string_scope.', '']
    def site(name, w, r):
        L.append(f'(* {name}: written at vtf.py:{w["line"]}, read at vtf.py:{r["line"]} *)')
        L.append(f'Definition gen_{name} : site := {{| w_fmt := {_s(w["fmt"])}; w_fields := {_sl(w["fields"])};')
        L.append(f'  r_fmt := {_s(r["fmt"])}; r_fields := {_sl(r["fields"])}; r_len := {r.get("len", -1)}%Z |}}.')
    for name, (w, r) in info['pairs'].items():
        site(name, w, r)
    e = info['entry']
    site('entry_inline', e['inline'], e['read'])
    L.append(f'(* directory entries whose value is an offset: <3sB written, then a deferred slot *)')
    L.append(f'Definition gen_entry_offset_w : list (string * list string * string) := ['
             + '; '.join(f'({_s(s["fmt"])}, {_sl(s["fields"])}, {_s(f or "")})' for s, f in zip([e['offset']] + e['fixed'], e['slot_fmts'])) + '].')
    L.append(f'Definition gen_block_len_w : list string := {_sl([s["fmt"] for s in e["block_w"]])}.')
    L.append(f'Definition gen_block_len_r : string * Z := ({_s(e["block_r"]["fmt"])}, {e["block_r"]["len"]}%Z).')
    L.append(f'Definition gen_defers : list (string * string * bool) := [' + '; '.join(f'({_s(d["key"])}, {_s(d["fmt"])}, {b(d["write"])})' for d in info['defers']) + '].')
    L.append(f'Definition gen_set_data : list (string * string) := [' + '; '.join(f'({_s(d["key"])}, {_s(d["value"])})' for d in info['set_data']) + '].')
    L.append(f'Definition gen_pads : list Z := [' + '; '.join(f'{p["n"]}%Z' for p in info['pads']) + '].')
    L.append(f'Definition gen_save_guards : list (string * Z) := [' + '; '.join(f'({_s(o)}, {v}%Z)' for o, v in info['save_guards']) + '].')
    L.append(f'Definition gen_read_guards : list (string * Z) := [' + '; '.join(f'({_s(o)}, {v}%Z)' for o, v in info['read_guards']) + '].')
    L.append(f'Definition gen_read_attrs : list (string * list string) := [' + '; '.join(f'({_s(a)}, {_sl(v)})' for a, v in sorted(info['read_attrs'].items())) + '].')
    fe = info['flag_exprs']
    L.append('(* resource flags: what save() stores for an out-of-line / inline / fixed entry, and the test of read() for "data is elsewhere" *)')
    L.append(f'Definition gen_flag_offset : fexpr := {fe["offset"]}.')
    L.append(f'Definition gen_flag_inline : fexpr := {fe["inline"]}.')
    L.append(f'Definition gen_flag_fixed : list fexpr := [{"; ".join(fe["fixed"])}].')
    L.append(f'Definition gen_flag_read_test : ftest := {info["read_flag_test"]}.')
    L.append(f'Definition gen_flagcfg : flagcfg := {{| fl_offset := gen_flag_offset; fl_inline := gen_flag_inline; fl_fixed := gen_flag_fixed; fl_test := gen_flag_read_test |}}.')
    L.append(f'Definition gen_save_entry_test : string := {_s(info["save_entry_test"])}.')
    L.append('(* the file-writing events of VTF.save in execution order *)')
    L.append('Definition gen_save_events : list sev := [' + '; '.join(_save_events(info['save_fn'], info['save_sites'])) + '].')
    sh = info['sheet']
    for name in ('head', 'seq', 'dur', 'tex'):
        w, r = sh[name]
        site('sheet_' + name, w, dict(r, len=-1))
    L.append(f'Definition gen_sheet_incs : list Z := [' + '; '.join(f'{v}%Z' for v in sh['incs']) + '].')
    L.append(f'Definition gen_sheet_tex_offs : list string := {_sl(sh["tex_offs"])}.')
    L.append(f'Definition gen_sheet_tex_written : list string := {_sl(sh["tex_written"])}.')
    L.append(f'Definition gen_sheet_tests : list string := {_sl(sh["tests"])}.')
    L.append('')
    side = {'save_sites': len(info['save_sites']), 'read_sites': len(info['read_sites']),
            'save_guards': info['save_guards'], 'read_guards': info['read_guards']}
    return '\n'.join(L), side


GEN = {'VtfContainer_gen': translate_container}
