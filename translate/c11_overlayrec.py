"""C11 translator, sixth part: the field order of the MAIN overlay record.

`_lmp_read_overlays` unpacks one block of 25 + OVERLAY_FACE_COUNT values and takes it apart by position (`block[:3]`,
`block[3:3 + face_count]`, `block[-22:-18]`, `Vec(block[-18:-15])`, ...); `_lmp_write_overlays` emits the same block as four
pack calls (head, face array + padding, UV bounds, 18 floats).  c11_records.py cannot pair the two (no flat unpack target),
so this module reads both sides into three lists of slot labels -- head (before the face array), the face array, tail --
using the data-flow of c11_records (Reader.dests / Writer.W / Writer.arity) for the meaning of each position.

Reader: every use of the block variable inside the loop must be one of
    a, b, c = block[i:j]            consecutive positions i .. j-1
    v = Vec(block[i:j]) / Angle     three positions, labels attr.x / attr.y / attr.z
    v = list(block[i:i + n])        the face array (n a local), must start where the head ends
    assert len(block) == K + COUNT  total length
    if block is None: break
Negative positions count from the end (the tail has K - head values).  Anything else -> TranslateError.
Writer: the `yield struct.pack(fmt, args...)` calls of the loop in order; `*over.faces` is the face array, a starred value
object gives its components.

Hard-wired: REDUNDANT -- attributes the reader fills from a value that the writer recomputes from another attribute
(`Overlay.face_count` is `len(faces)` for a well-formed overlay; the world generator keeps them equal).
"""
from __future__ import annotations

import ast

from harness.common import TranslateError
from translate import c11_records as R

REDUNDANT = {'face_count': 'faces:count'}
FACES = '<face array>'


def _int(e: ast.AST | None, default: int | None, where: str) -> int | None:
    if e is None:
        return default
    if isinstance(e, ast.Constant) and type(e.value) is int:
        return e.value
    if isinstance(e, ast.UnaryOp) and isinstance(e.op, ast.USub) and isinstance(e.operand, ast.Constant) and type(e.operand.value) is int:
        return -e.operand.value
    raise TranslateError(f'{where}: line {e.lineno}: slice bound is not an integer literal: {ast.unparse(e)}')


def reader(fn: ast.FunctionDef, classes: dict[str, list[str]]) -> tuple[list[list[str]], list[str], list[list[str]]]:
    where = fn.name
    loop = None
    for n in ast.walk(fn):
        if isinstance(n, ast.For) and isinstance(n.iter, ast.Call) and ast.unparse(n.iter.func).endswith('zip_longest') and n.iter.args \
                and isinstance(n.iter.args[0], ast.Call) and ast.unparse(n.iter.args[0].func) == 'struct.iter_unpack' \
                and isinstance(n.target, ast.Tuple) and isinstance(n.target.elts[0], ast.Name):
            loop = n
    if loop is None:
        raise TranslateError(f'{where}: `for block, ... in zip_longest(struct.iter_unpack(...), ...)` not found')
    block = loop.target.elts[0].id
    rd = R.Reader(fn, {}, classes)
    uses = {id(n) for n in ast.walk(loop) if isinstance(n, ast.Name) and n.id == block and isinstance(n.ctx, ast.Load)}
    pos: dict[int, list[str]] = {}        # position (negative = from the end) -> labels
    faces_at = None
    faces_lab: list[str] = []
    fixed = None

    def sl(e: ast.AST) -> ast.Subscript | None:
        while isinstance(e, ast.Call) and ast.unparse(e.func) in ('list', 'tuple') and len(e.args) == 1:
            e = e.args[0]
        if isinstance(e, ast.Subscript) and isinstance(e.value, ast.Name) and e.value.id == block and isinstance(e.slice, ast.Slice) and e.slice.step is None:
            return e
        return None

    def labels(var: str) -> list[str]:
        d = sorted(rd.dests(var))
        d = [x for x in d if not (x in REDUNDANT and REDUNDANT[x] in d)]
        if not d:
            raise TranslateError(f'{where}: `{var}` (taken from the overlay block) reaches no attribute of the constructed object')
        return d

    def put(p: int, labs: list[str], line: int) -> None:
        if p in pos:
            raise TranslateError(f'{where}: line {line}: position {p} of the overlay block is taken apart twice')
        pos[p] = labs

    for st in ast.walk(loop):
        if isinstance(st, ast.Assign) and len(st.targets) == 1:
            tg, v = st.targets[0], st.value
            s = sl(v)
            if s is not None and isinstance(tg, (ast.Tuple, ast.List)) and all(isinstance(t, ast.Name) for t in tg.elts):
                lo = _int(s.slice.lower, 0, where)
                hi = _int(s.slice.upper, None, where)
                n = len(tg.elts)
                if hi is not None and hi - lo != n or hi is None and lo != -n:
                    raise TranslateError(f'{where}: line {st.lineno}: {n} targets for `{ast.unparse(s)}`')
                for k, t in enumerate(tg.elts):
                    put(lo + k, labels(t.id), st.lineno)
                uses.discard(id(s.value))
            elif s is not None and isinstance(tg, ast.Name) and isinstance(s.slice.upper, ast.BinOp) and isinstance(s.slice.upper.op, ast.Add) \
                    and ast.unparse(s.slice.upper.left) == ast.unparse(s.slice.lower) and isinstance(s.slice.upper.right, ast.Name):
                faces_at = _int(s.slice.lower, 0, where)
                cnt = s.slice.upper.right.id
                faces_lab = [x for x in labels(tg.id)]
                if not any(x.endswith(':count') and x.split(':')[0] in faces_lab for x in rd.dests(cnt)):
                    raise TranslateError(f'{where}: line {st.lineno}: the length `{cnt}` of the face array is not read from the block')
                uses.discard(id(s.value))
            elif isinstance(tg, ast.Name) and isinstance(v, ast.Call) and isinstance(v.func, ast.Name) and v.func.id in R.COMPONENTS and len(v.args) == 1 \
                    and sl(v.args[0]) is not None:
                s = sl(v.args[0])
                comps = R.COMPONENTS[v.func.id]
                lo = _int(s.slice.lower, 0, where)
                hi = _int(s.slice.upper, None, where)
                if hi is not None and hi - lo != len(comps) or hi is None and lo != -len(comps):
                    raise TranslateError(f'{where}: line {st.lineno}: `{ast.unparse(v)}` does not take {len(comps)} values')
                for k, c in enumerate(comps):
                    put(lo + k, [f'{a}.{c}' for a in labels(tg.id)], st.lineno)
                uses.discard(id(s.value))
        elif isinstance(st, ast.Assert) and isinstance(st.test, ast.Compare) and ast.unparse(st.test.left) == f'len({block})' \
                and isinstance(st.test.ops[0], ast.Eq) and isinstance(st.test.comparators[0], ast.BinOp) \
                and isinstance(st.test.comparators[0].op, ast.Add):
            b = st.test.comparators[0]
            fixed = _int(b.left, None, where) if isinstance(b.left, ast.Constant) else _int(b.right, None, where)
            uses.discard(id(st.test.left.args[0]))
        elif isinstance(st, ast.If) and ast.unparse(st.test) == f'{block} is None':
            uses.discard(id(st.test.left))
    if uses:
        raise TranslateError(f'{where}: the overlay block `{block}` is used in a way that is not recognised ({len(uses)} uses)')
    if faces_at is None or fixed is None:
        raise TranslateError(f'{where}: face array slice / `assert len({block}) == K + COUNT` not found')
    head_n = faces_at
    tail_n = fixed - head_n
    head = [pos.get(i) for i in range(head_n)]
    tail = [pos.get(i - tail_n) for i in range(tail_n)]
    if any(x is None for x in head + tail) or len(pos) != head_n + tail_n:
        raise TranslateError(f'{where}: positions of the overlay block not covered exactly once: {sorted(pos)} (head {head_n}, tail {tail_n})')
    return head, faces_lab, tail      # type: ignore[return-value]


def writer(fn: ast.FunctionDef, ann: dict[str, dict[str, str]]) -> tuple[list[list[str]], list[str], list[list[str]]]:
    where = fn.name
    w = R.Writer(fn, {}, ann)
    loops = [n for n in fn.body if isinstance(n, ast.For)]
    if len(loops) != 1:
        raise TranslateError(f'{where}: expected one loop over the overlays')
    packs = [st.value.value for st in loops[0].body if isinstance(st, ast.Expr) and isinstance(st.value, ast.Yield)
             and isinstance(st.value.value, ast.Call) and ast.unparse(st.value.value.func) == 'struct.pack']
    if any(isinstance(n, (ast.Yield, ast.YieldFrom)) for st in loops[0].body for n in ast.walk(st)) and \
            sum(1 for st in loops[0].body for n in ast.walk(st) if isinstance(n, (ast.Yield, ast.YieldFrom))) != len(packs):
        raise TranslateError(f'{where}: a yield of the loop is not `yield struct.pack(...)`')
    slots: list[list[str] | str] = []
    for p in packs:
        for a in p.args[1:]:
            if isinstance(a, ast.Starred):
                ch = w.attr_chain(a.value)
                if ch is None or len(ch[1]) != 1 or ch[0] not in w.recvars:
                    raise TranslateError(f'{where}: line {a.lineno}: starred argument is not an attribute of the overlay')
                types = {c[ch[1][0]] for c in ann.values() if ch[1][0] in c}
                if all(t.startswith('list[') for t in types):
                    slots.append(FACES + ch[1][0])
                else:
                    slots += [[x] for x in w.arity(a.value)]
            else:
                labs = sorted(w.W(a, '', frozenset()))
                if not labs:
                    raise TranslateError(f'{where}: line {a.lineno}: packed value `{ast.unparse(a)[:40]}` comes from no attribute')
                slots.append(labs)
    marks = [i for i, s in enumerate(slots) if isinstance(s, str)]
    if len(marks) != 1:
        raise TranslateError(f'{where}: expected exactly one starred list (the face array) among the packed values')
    if w.masked:
        raise TranslateError(f'{where}: a packed value is masked: {w.masked}')
    m = marks[0]
    return slots[:m], [slots[m][len(FACES):]], slots[m + 1:]      # type: ignore[return-value]


def generate(tree: ast.Module) -> tuple[str, dict]:
    classes, ann = R.class_tables(tree)
    bsp = next((n for n in tree.body if isinstance(n, ast.ClassDef) and n.name == 'BSP'), None)
    if bsp is None:
        raise TranslateError('class BSP not found')
    fns = {n.name: n for n in bsp.body if isinstance(n, ast.FunctionDef)}
    for f in ('_lmp_read_overlays', '_lmp_write_overlays'):
        if f not in fns:
            raise TranslateError(f'{f} not found')
    rh, rf, rt = reader(fns['_lmp_read_overlays'], classes)
    wh, wf, wt = writer(fns['_lmp_write_overlays'], ann)

    def cs(s: list[str]) -> str:
        return '[' + '; '.join(R.F.coq_s(x) for x in s) + ']'

    def cl(l: list[list[str]]) -> str:
        return '[' + '; '.join(cs(s) for s in l) + ']'
    text = '\n'.join([
        '(* main overlay record: labels of the values before the face array, of the face array, after it -- reader, then writer *)',
        f'Definition overlay_record : list slot * slot * list slot * (list slot * slot * list slot) :=',
        f'  ({cl(rh)}, {cs(rf)}, {cl(rt)},', f'   ({cl(wh)}, {cs(wf)}, {cl(wt)})).'])
    return text, {'overlay_record': {'read': [rh, rf, rt], 'write': [wh, wf, wt]}}
