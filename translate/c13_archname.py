"""C13 translator: how vpk.py names the files of an archive -> Gen/VpkArchName_gen.v (an instance of Fmt/VpkArchName.v [ncfg]).

Translated (fail-closed: any other syntax raises TranslateError):
  * the `VPK.filename` setter: the literal of `filename.endswith(...)` and the expression `_dir_prefix` is set to;
  * the `VPK.filename` / `VPK.file_prefix` getters (inlined wherever a call site reads them);
  * `get_arch_filename`: the directory suffix and the pieces of the f-string for numbered archives;
  * every `get_arch_filename(...)` call site of the module: FileInfo.write (the archive that is appended to),
    FileInfo.read / FileInfo.verify (the archive that is opened again): the expression that yields the prefix, as a
    term of the expression language [sexpr] (removesuffix / s[:-k] / rstrip(chars) / `x if _dir_prefix is not None else y`);
    the sites of script_write must only feed os.path.exists / os.stat (size probe, no data path);
  * every store to `_filename` / `_dir_prefix` must be in __init__ (blank values), the filename setter or the deprecated
    file_prefix setter.
Reported as booleans (site recognised or not): same folder join and index argument at the three sites, archive opened in
append mode with the offset taken at the end / read back with seek(offset), the deprecated file_prefix setter.
"""
from __future__ import annotations

import ast
import re

from harness.common import TranslateError, ast_digest, coq_str, src_text


def _find(body, kind, name, pred=lambda n: True):
    for n in body:
        if isinstance(n, kind) and getattr(n, 'name', None) == name and pred(n):
            return n
    raise TranslateError(f'{kind.__name__} {name} not found')


def _deco(fn: ast.FunctionDef) -> str:
    out = []
    for d in fn.decorator_list:
        if isinstance(d, ast.Name):
            out.append(d.id)
        elif isinstance(d, ast.Attribute) and isinstance(d.value, ast.Name):
            out.append(f'{d.value.id}.{d.attr}')
        elif isinstance(d, ast.Call):
            out.append('call')
        else:
            out.append('?')
    return ','.join(out)


def _body(fn: ast.FunctionDef) -> list[ast.stmt]:
    b = list(fn.body)
    if b and isinstance(b[0], ast.Expr) and isinstance(b[0].value, ast.Constant) and isinstance(b[0].value.value, str):
        b = b[1:]
    return b


def _lit(node, what: str) -> str:
    if isinstance(node, ast.Constant) and isinstance(node.value, str):
        return node.value
    raise TranslateError(f'line {getattr(node, "lineno", "?")}: {what}: string literal expected, got {ast.unparse(node)[:60]}')


class Sx:
    """Printer of [sexpr] terms."""
    @staticmethod
    def name(): return 'SName'
    @staticmethod
    def dirp(): return 'SDirPrefix'
    @staticmethod
    def rmsuf(e, s): return f'(SRemoveSuffix {e} {coq_str(s)})'
    @staticmethod
    def drop(e, k): return f'(SDropLast {e} {k})'
    @staticmethod
    def rstrip(e, cs): return f'(SRstrip {e} {coq_str(cs)})'
    @staticmethod
    def ifdir(a, b): return f'(SIfDir {a} {b})'


class Names:
    def __init__(self, tree: ast.Module):
        self.tree = tree
        self.vpk = _find(tree.body, ast.ClassDef, 'VPK')
        self.finfo = _find(tree.body, ast.ClassDef, 'FileInfo')
        self.getters: dict[str, ast.FunctionDef] = {}
        self.setters: dict[str, ast.FunctionDef] = {}
        for fn in self.vpk.body:
            if isinstance(fn, ast.FunctionDef):
                d = _deco(fn).split(',')
                if 'property' in d:
                    self.getters[fn.name] = fn
                for x in d:
                    if x.endswith('.setter'):
                        self.setters[x[:-7]] = fn
        self._inlining: list[str] = []

    # -- is [node] the VPK object, seen from a method of VPK (self) or of FileInfo (self.vpk)?
    @staticmethod
    def is_vpk(node, owner: str) -> bool:
        if owner == 'VPK':
            return isinstance(node, ast.Name) and node.id == 'self'
        return isinstance(node, ast.Attribute) and node.attr == 'vpk' and isinstance(node.value, ast.Name) and node.value.id == 'self'

    def is_dirp_test(self, test, owner: str):
        """`<vpk>._dir_prefix is not None` -> True, `... is None` -> False, else None"""
        if isinstance(test, ast.Compare) and len(test.ops) == 1 and isinstance(test.comparators[0], ast.Constant) \
                and test.comparators[0].value is None and isinstance(test.left, ast.Attribute) and test.left.attr == '_dir_prefix' \
                and self.is_vpk(test.left.value, owner):
            if isinstance(test.ops[0], ast.IsNot):
                return True
            if isinstance(test.ops[0], ast.Is):
                return False
        return None

    def expr(self, e, owner: str, local: dict[str, str]) -> str:
        if isinstance(e, ast.Name):
            if e.id in local:
                return local[e.id]
            raise TranslateError(f'line {e.lineno}: prefix expression uses unknown name {e.id!r}')
        if isinstance(e, ast.Attribute) and self.is_vpk(e.value, owner):
            if e.attr == '_filename':
                return Sx.name()
            if e.attr == '_dir_prefix':
                return Sx.dirp()
            if e.attr in self.getters:
                return self.getter(e.attr)
            raise TranslateError(f'line {e.lineno}: prefix expression reads unknown attribute {e.attr!r}')
        if isinstance(e, ast.Call) and isinstance(e.func, ast.Attribute) and not e.keywords:
            m = e.func.attr
            if m in ('removesuffix', 'rstrip') and len(e.args) == 1:
                s = _lit(e.args[0], f'.{m}(...)')
                inner = self.expr(e.func.value, owner, local)
                return Sx.rmsuf(inner, s) if m == 'removesuffix' else Sx.rstrip(inner, s)
            raise TranslateError(f'line {e.lineno}: prefix expression calls unsupported method .{m}({len(e.args)} args)')
        if isinstance(e, ast.Subscript) and isinstance(e.slice, ast.Slice) and e.slice.lower is None and e.slice.step is None \
                and isinstance(e.slice.upper, ast.UnaryOp) and isinstance(e.slice.upper.op, ast.USub):
            k = e.slice.upper.operand
            if isinstance(k, ast.Constant) and isinstance(k.value, int) and not isinstance(k.value, bool) and k.value >= 0:
                kk = k.value
            elif isinstance(k, ast.Call) and isinstance(k.func, ast.Name) and k.func.id == 'len' and len(k.args) == 1:
                kk = len(_lit(k.args[0], 'len(...)'))
            else:
                raise TranslateError(f'line {e.lineno}: slice bound {ast.unparse(e.slice.upper)} not recognised')
            return Sx.drop(self.expr(e.value, owner, local), kk)
        if isinstance(e, ast.IfExp):
            t = self.is_dirp_test(e.test, owner)
            if t is None:
                raise TranslateError(f'line {e.lineno}: conditional on {ast.unparse(e.test)} not recognised')
            a, b = self.expr(e.body, owner, local), self.expr(e.orelse, owner, local)
            return Sx.ifdir(a, b) if t else Sx.ifdir(b, a)
        raise TranslateError(f'line {getattr(e, "lineno", "?")}: prefix expression {ast.unparse(e)[:80]!r} not recognised')

    def stmts(self, body: list[ast.stmt], owner: str, local: dict[str, str]) -> str:
        """`if <dirp test>: return a` ... `return b`  ->  sexpr"""
        if not body:
            raise TranslateError('property getter falls off its end (returns None)')
        s = body[0]
        if isinstance(s, ast.Return) and s.value is not None:
            return self.expr(s.value, owner, local)
        if isinstance(s, ast.If):
            t = self.is_dirp_test(s.test, owner)
            if t is None:
                raise TranslateError(f'line {s.lineno}: getter branches on {ast.unparse(s.test)}')
            a = self.stmts(s.body, owner, local)
            b = self.stmts(s.orelse if s.orelse else body[1:], owner, local)
            return Sx.ifdir(a, b) if t else Sx.ifdir(b, a)
        raise TranslateError(f'line {s.lineno}: statement {ast.unparse(s)[:60]!r} in a prefix getter not recognised')

    def getter(self, name: str) -> str:
        if name in self._inlining:
            raise TranslateError(f'property {name} is recursive')
        fn = self.getters[name]
        if len(fn.args.args) != 1:
            raise TranslateError(f'property {name}: unexpected parameters')
        self._inlining.append(name)
        try:
            return self.stmts(_body(fn), 'VPK', {})
        finally:
            self._inlining.pop()


def _fmt_spec(spec: str, line: int) -> tuple[int, int]:
    """(fill code point, width) of a right-aligned integer format spec."""
    m = re.fullmatch(r'(?:(?P<fill>.)?(?P<align>[<>=^]))?(?P<zero>0)?(?P<width>[1-9]\d*)?d?', spec)
    if not m:
        raise TranslateError(f'line {line}: index format spec {spec!r} not recognised')
    if m.group('align') in ('<', '^'):
        raise TranslateError(f'line {line}: index format spec {spec!r} is not right-aligned')
    fill = m.group('fill') or ('0' if m.group('zero') else ' ')
    return ord(fill), int(m.group('width') or 0)


def translate() -> tuple[str, dict]:
    tree = ast.parse(src_text('vpk.py'))
    nm = Names(tree)
    side: dict = {}

    # ---------------- filename getter / setter
    if 'filename' not in nm.getters or 'filename' not in nm.setters:
        raise TranslateError('VPK.filename property (getter and setter) not found')
    if nm.getter('filename') != 'SName':
        raise TranslateError('VPK.filename getter is not `return self._filename`')
    st = nm.setters['filename']
    params = [a.arg for a in st.args.posonlyargs + st.args.args]
    if len(params) != 2:
        raise TranslateError('VPK.filename setter: unexpected parameters')
    par = params[1]
    sb = _body(st)
    if len(sb) != 2 or ast.unparse(sb[0]) != f'self._filename = {par}' or not isinstance(sb[1], ast.If):
        raise TranslateError('VPK.filename setter: expected `self._filename = <param>` followed by one `if`')
    iff = sb[1]
    t = iff.test
    if not (isinstance(t, ast.Call) and isinstance(t.func, ast.Attribute) and t.func.attr == 'endswith' and isinstance(t.func.value, ast.Name)
            and t.func.value.id == par and len(t.args) == 1 and not t.keywords):
        raise TranslateError(f'VPK.filename setter: test {ast.unparse(t)!r} is not <param>.endswith(<literal>)')
    suffix = _lit(t.args[0], 'endswith(...)')
    if len(iff.body) != 1 or len(iff.orelse) != 1 or ast.unparse(iff.orelse[0]) != 'self._dir_prefix = None' \
            or not (isinstance(iff.body[0], ast.Assign) and ast.unparse(iff.body[0].targets[0]) == 'self._dir_prefix'):
        raise TranslateError('VPK.filename setter: branches are not `self._dir_prefix = <expr>` / `self._dir_prefix = None`')
    setter = nm.expr(iff.body[0].value, 'VPK', {par: 'SName'})

    # ---------------- deprecated file_prefix setter: _filename = prefix + <suffix>; _dir_prefix = prefix
    prefix_setter_ok = True
    if 'file_prefix' in nm.setters:
        ps = nm.setters['file_prefix']
        pp = [a.arg for a in ps.args.posonlyargs + ps.args.args]
        got = sorted(ast.unparse(s) for s in _body(ps))
        prefix_setter_ok = len(pp) == 2 and got == sorted([f'self._filename = {pp[1]} + {suffix!r}', f'self._dir_prefix = {pp[1]}'])

    # ---------------- every store to _filename / _dir_prefix
    allowed = {id(st), id(nm.setters.get('file_prefix'))}
    init = _find(nm.vpk.body, ast.FunctionDef, '__init__')
    for fn in ast.walk(tree):
        if not isinstance(fn, (ast.FunctionDef, ast.AsyncFunctionDef)):
            continue
        for n in ast.walk(fn):
            tg = []
            if isinstance(n, ast.Assign):
                tg = n.targets
            elif isinstance(n, (ast.AugAssign, ast.AnnAssign)):
                tg = [n.target]
            for x in tg:
                for y in ast.walk(x):
                    if isinstance(y, ast.Attribute) and y.attr in ('_filename', '_dir_prefix'):
                        if id(fn) in allowed:
                            continue
                        if fn is init and isinstance(n, ast.Assign) and isinstance(n.value, ast.Constant) and n.value.value in ('', None):
                            continue
                        raise TranslateError(f'line {n.lineno}: {fn.name} assigns {y.attr} ({ast.unparse(n)[:60]!r})')
    if any(isinstance(n, ast.Call) and isinstance(n.func, ast.Name) and n.func.id == 'setattr' for n in ast.walk(tree)):
        raise TranslateError('setattr() used in vpk.py')

    # ---------------- get_arch_filename
    gaf = _find(tree.body, ast.FunctionDef, 'get_arch_filename')
    gp = [a.arg for a in gaf.args.args]
    gb = _body(gaf)
    if len(gp) != 2:
        raise TranslateError('get_arch_filename: (prefix, index) expected')

    def index_none_test(t):
        """`index is None` -> True, `index is not None` -> False (also under `not`); anything else is not understood"""
        if isinstance(t, ast.UnaryOp) and isinstance(t.op, ast.Not):
            return not index_none_test(t.operand)
        if isinstance(t, ast.Compare) and len(t.ops) == 1 and isinstance(t.left, ast.Name) and t.left.id == gp[1] \
                and isinstance(t.comparators[0], ast.Constant) and t.comparators[0].value is None:
            if isinstance(t.ops[0], (ast.Is, ast.Eq)):
                return True
            if isinstance(t.ops[0], (ast.IsNot, ast.NotEq)):
                return False
        raise TranslateError('get_arch_filename: the test is not `index is None` / `index is not None`')

    def returned(stmts, index_is_none: bool):
        """the expression returned when the index is / is not None: if/else, early return + fall-through, conditional expression"""
        for st in stmts:
            if isinstance(st, ast.Return) and st.value is not None:
                v = st.value
                while isinstance(v, ast.IfExp):
                    v = v.body if index_none_test(v.test) == index_is_none else v.orelse
                return v
            if isinstance(st, ast.If):
                r = returned(st.body if index_none_test(st.test) == index_is_none else st.orelse, index_is_none)
                if r is not None:
                    return r
                continue
            raise TranslateError(f'line {st.lineno}: get_arch_filename: statement {ast.unparse(st)[:60]!r} not understood')
        return None
    r_dir, r_num = returned(gb, True), returned(gb, False)
    if r_dir is None or r_num is None:
        raise TranslateError('get_arch_filename: does not return a name in both cases')

    def pieces(e) -> list:
        """a name expression as a list of literal strings, 'P' (the prefix) and ('I', format spec) (the index): `a + b`, f-strings,
        `'...'.format(...)`"""
        if isinstance(e, ast.Constant) and isinstance(e.value, str):
            return [e.value] if e.value else []
        if isinstance(e, ast.Name) and e.id == gp[0]:
            return ['P']
        if isinstance(e, ast.BinOp) and isinstance(e.op, ast.Add):
            return pieces(e.left) + pieces(e.right)
        if isinstance(e, ast.JoinedStr):
            out = []
            for v in e.values:
                if isinstance(v, ast.Constant):
                    out += pieces(v)
                elif isinstance(v, ast.FormattedValue) and isinstance(v.value, ast.Name) and v.conversion == -1:
                    if v.format_spec is None:
                        spec = ''
                    elif isinstance(v.format_spec, ast.JoinedStr) and all(isinstance(x, ast.Constant) for x in v.format_spec.values):
                        spec = ''.join(x.value for x in v.format_spec.values)
                    else:
                        raise TranslateError('get_arch_filename: computed format spec')
                    if v.value.id == gp[0] and spec == '':
                        out.append('P')
                    elif v.value.id == gp[1]:
                        out.append(('I', spec, v.lineno))
                    else:
                        raise TranslateError('get_arch_filename: f-string field is neither the prefix nor the index')
                else:
                    raise TranslateError('get_arch_filename: f-string piece not understood')
            return out
        if isinstance(e, ast.Call) and isinstance(e.func, ast.Attribute) and e.func.attr == 'format' and isinstance(e.func.value, ast.Constant) \
                and isinstance(e.func.value.value, str):
            import string
            pos = list(e.args)
            kw = {k.arg: k.value for k in e.keywords}
            if None in kw:
                raise TranslateError('get_arch_filename: **kwargs in format()')
            out, auto = [], 0
            for lit, field, spec, conv in string.Formatter().parse(e.func.value.value):
                if lit:
                    out.append(lit)
                if field is None:
                    continue
                if conv is not None or (spec and '{' in spec):
                    raise TranslateError('get_arch_filename: conversion / nested spec in format()')
                if field == '':
                    arg = pos[auto] if auto < len(pos) else None
                    auto += 1
                elif field.isdigit():
                    arg = pos[int(field)] if int(field) < len(pos) else None
                else:
                    arg = kw.get(field)
                if not isinstance(arg, ast.Name):
                    raise TranslateError('get_arch_filename: format() argument not understood')
                if arg.id == gp[0] and not spec:
                    out.append('P')
                elif arg.id == gp[1]:
                    out.append(('I', spec or '', e.lineno))
                else:
                    raise TranslateError('get_arch_filename: format() field is neither the prefix nor the index')
            return out
        raise TranslateError(f'get_arch_filename: name expression {ast.unparse(e)[:60]!r} not understood')

    def merge(ps: list) -> list:
        out: list = []
        for x in ps:
            if isinstance(x, str) and x not in ('P',) and out and isinstance(out[-1], str) and out[-1] != 'P':
                out[-1] += x
            else:
                out.append(x)
        return out
    pd, pn = merge(pieces(r_dir)), merge(pieces(r_num))
    if not (len(pd) == 2 and pd[0] == 'P' and isinstance(pd[1], str) and pd[1] != 'P'):
        raise TranslateError('get_arch_filename: directory name is not prefix + <literal>')
    dir_suffix = pd[1]
    if not (pn and pn[0] == 'P'):
        raise TranslateError('get_arch_filename: numbered name does not start with the prefix')
    rest = pn[1:]
    sep = ''
    if rest and isinstance(rest[0], str):
        sep, rest = rest[0], rest[1:]
    if not rest or not isinstance(rest[0], tuple):
        raise TranslateError('get_arch_filename: no index after the separator')
    fill, width = _fmt_spec(rest[0][1], rest[0][2])
    rest = rest[1:]
    ext = ''
    if rest:
        if len(rest) != 1 or not isinstance(rest[0], str):
            raise TranslateError('get_arch_filename: unexpected pieces after the index')
        ext = rest[0]

    # ---------------- call sites
    fread = _find(nm.finfo.body, ast.FunctionDef, 'read')
    fverify = _find(nm.finfo.body, ast.FunctionDef, 'verify')
    fwrite = _find(nm.finfo.body, ast.FunctionDef, 'write')
    script = [n for n in tree.body if isinstance(n, ast.FunctionDef) and n.name == 'script_write']
    known_fns = {id(fread): 'read', id(fverify): 'verify', id(fwrite): 'write'}
    if script:
        known_fns[id(script[0])] = 'script_write'
    sites: dict[str, list[ast.Call]] = {'read': [], 'verify': [], 'write': [], 'script_write': []}
    def census(node, owner):
        for ch in ast.iter_child_nodes(node):
            if isinstance(ch, ast.Call) and isinstance(ch.func, ast.Name) and ch.func.id == 'get_arch_filename':
                if owner is None or id(owner) not in known_fns:
                    raise TranslateError(f'line {ch.lineno}: get_arch_filename called from unknown place {getattr(owner, "name", "module level")!r}')
                sites[known_fns[id(owner)]].append(ch)
            census(ch, ch if isinstance(ch, (ast.FunctionDef, ast.AsyncFunctionDef, ast.Lambda, ast.ClassDef)) else owner)
    census(tree, None)
    for n in ast.walk(tree):
        if isinstance(n, ast.Name) and n.id == 'get_arch_filename' and isinstance(n.ctx, ast.Load):
            if not any(isinstance(c, ast.Call) and c.func is n for c in ast.walk(tree)):
                raise TranslateError(f'line {n.lineno}: get_arch_filename used other than by a direct call')
    # the read side by symbolic execution of FileInfo.read / verify (translate/c13_place.py): for an entry stored in an archive the bytes
    # come from open(os.path.join(<vpk>.folder, get_arch_filename(<prefix>, self.arch_index)), 'rb'), seek(self.offset), read(self.arch_len)
    from translate import c13_place
    rd = c13_place.analyse_readers(nm.finfo)
    rd_ok = all(r['read'] == r['verify'] == ('RNone' if r['alen_zero'] else 'RFooter' if r['idx_none'] else 'RArch') for r in rd['rows'])
    verify_delegates = not sites['verify'] and rd_ok      # verify() = checksum(self.read()) == self.crc: its site is read()'s
    if verify_delegates:
        sites['verify'] = list(sites['read'])
    for k in ('read', 'verify', 'write'):
        if len(sites[k]) != 1:
            raise TranslateError(f'FileInfo.{k}: expected exactly one get_arch_filename call, found {len(sites[k])}')

    def site(fn: ast.FunctionDef, call: ast.Call) -> tuple[str, str]:
        if len(call.args) != 2 or call.keywords:
            raise TranslateError(f'line {call.lineno}: get_arch_filename call shape not recognised')
        local: dict[str, str] = {}
        a0 = call.args[0]
        if isinstance(a0, ast.Name):
            stores = [y for y in ast.walk(fn) if isinstance(y, ast.Name) and y.id == a0.id and isinstance(y.ctx, (ast.Store, ast.Del))]
            asg = [n for n in ast.walk(fn) if isinstance(n, ast.Assign) and len(n.targets) == 1 and isinstance(n.targets[0], ast.Name)
                   and n.targets[0].id == a0.id]
            params = [a.arg for a in fn.args.posonlyargs + fn.args.args + fn.args.kwonlyargs]
            if len(stores) != 1 or len(asg) != 1 or a0.id in params:
                raise TranslateError(f'line {call.lineno}: local {a0.id!r} is not assigned exactly once by a plain assignment')
            if asg[0].lineno > call.lineno:
                raise TranslateError(f'line {call.lineno}: local {a0.id!r} is assigned after its use')
            local[a0.id] = nm.expr(asg[0].value, 'FileInfo', {})
        return nm.expr(a0, 'FileInfo', local), ast.unparse(call.args[1])

    w_expr, w_idx = site(fwrite, sites['write'][0])
    r_expr, r_idx = site(fread, sites['read'][0])
    v_expr, v_idx = site(fread if verify_delegates else fverify, sites['verify'][0])

    # index argument: the index written to is the one stored in the entry, the one read is the stored one
    # the write side by symbolic execution of FileInfo.write (translate/c13_place.py): the archive opened is
    # os.path.join(<vpk>.folder, get_arch_filename(<prefix>, <the arch_index argument>)), mode 'ab', the stored index is that argument,
    # the stored offset is the end of the file before the write, and what is written is exactly the rest of the data
    from translate import c13_place
    pw = c13_place.analyse_write(fwrite, c13_place.module_int_consts(tree))
    arch_rows = [r for r in pw['rows'] if r['dest'] == 'DArch']
    w_ok = bool(arch_rows) and all(r['off'] == 'OArchEnd' and not r['stored_none'] and r['exact'] for r in arch_rows) and \
        not any(r['dest'] == 'DOther' for r in pw['rows'])
    index_args_ok = pw['facts']['index_is_arg'] and w_ok and rd['facts']['index_is_stored'] and rd_ok

    # the file that is opened: os.path.join(<vpk>.folder, <the variable holding the name>)
    def opened(fn: ast.FunctionDef, call: ast.Call):
        var = None
        for n in ast.walk(fn):
            if isinstance(n, ast.Assign) and n.value is call and len(n.targets) == 1 and isinstance(n.targets[0], ast.Name):
                var = n.targets[0].id
        opens = [c for c in ast.walk(fn) if isinstance(c, ast.Call) and isinstance(c.func, ast.Name) and c.func.id == 'open']
        if var is None or len(opens) != 1 or len(opens[0].args) != 2:
            return None, None
        return ast.unparse(opens[0].args[0]) == f'os.path.join(self.vpk.folder, {var})', \
            opens[0].args[1].value if isinstance(opens[0].args[1], ast.Constant) else None
    jw, mw = opened(fwrite, sites['write'][0])
    jr, mr = opened(fread, sites['read'][0])
    jv, mv = opened(fverify, sites['verify'][0])
    jw, mw = pw['facts']['join_folder'], ('ab' if pw['facts']['mode_append'] else None)
    jr = jv = rd['facts']['join_folder']
    mr = mv = 'rb' if rd['facts']['mode_rb'] else None
    join_ok = bool(jw and jr and jv)
    src_r = [ast.unparse(s) for s in ast.walk(fread) if isinstance(s, ast.stmt)]
    src_v = [ast.unparse(s) for s in ast.walk(fverify) if isinstance(s, ast.stmt)]
    append_ok = mw == 'ab' and w_ok and mr == 'rb' and mv == 'rb' and rd_ok

    # script_write: the names only feed os.path.exists / os.stat
    if script:
        vars_ = set()
        for c in sites['script_write']:
            par = [n for n in ast.walk(script[0]) if isinstance(n, ast.Assign) and n.value is c]
            if len(par) != 1 or len(par[0].targets) != 1 or not isinstance(par[0].targets[0], ast.Name):
                raise TranslateError(f'line {c.lineno}: script_write uses get_arch_filename other than `name = get_arch_filename(...)`')
            vars_.add(par[0].targets[0].id)
        for n in ast.walk(script[0]):
            if isinstance(n, ast.Name) and n.id in vars_ and isinstance(n.ctx, ast.Load):
                ok = any(isinstance(c, ast.Call) and ast.unparse(c.func) in ('os.path.exists', 'os.stat') and any(a is n for a in c.args)
                         for c in ast.walk(script[0]))
                if not ok:
                    raise TranslateError(f'line {n.lineno}: script_write passes an archive name to something other than os.path.exists/os.stat')

    side.update(suffix=suffix, setter=setter, writer=w_expr, readers=[r_expr, v_expr], dir_suffix=dir_suffix, sep=sep, fill=fill,
                width=width, ext=ext, index_args_ok=index_args_ok, join_ok=join_ok, append_ok=append_ok,
                prefix_setter_ok=prefix_setter_ok, n_script_sites=len(sites['script_write']),
                digests={f.name: ast_digest(f) for f in (gaf, st, nm.getters.get('file_prefix', st), fread, fverify)},
                lines={'get_arch_filename': gaf.lineno, 'filename.setter': st.lineno, 'FileInfo.read': fread.lineno,
                       'FileInfo.verify': fverify.lineno, 'FileInfo.write': fwrite.lineno})
    b = lambda x: 'true' if x else 'false'
    text = '\n'.join([
        '(* GENERATED by translate/c13_archname.py from /repo/src/srctools/vpk.py. Do not edit. *)',
        'From Coq Require Import List NArith Bool.', 'From SV Require Import Fmt.VpkDir SM.Vpk Fmt.VpkArchName.', 'Import ListNotations.',
        'Open Scope N_scope.',
        'Definition g_ncfg : ncfg := {|',
        f'  n_suffix := {coq_str(suffix)};',
        f'  n_setter := {setter};',
        f'  n_writer := {w_expr};',
        f'  n_readers := [{r_expr}; {v_expr}];',
        f'  n_dir_suffix := {coq_str(dir_suffix)};',
        f'  n_sep := {coq_str(sep)}; n_fill := {fill}; n_width := {width}; n_ext := {coq_str(ext)} |}}.',
        f'Definition g_index_args_ok : bool := {b(index_args_ok)}.',
        f'Definition g_sites_join_folder : bool := {b(join_ok)}.',
        f'Definition g_archive_append_at_end : bool := {b(append_ok)}.',
        f'Definition g_prefix_setter_consistent : bool := {b(prefix_setter_ok)}.',
        '',
    ])
    return text, side


GEN = {'VpkArchName_gen': translate}
