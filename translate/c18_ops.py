"""C18 translator: data flow of every file-system access of RawFileSystem / FileSystemChain -> Gen/FsOps_gen.v.

A small abstract interpreter over the method bodies of `class RawFileSystem` (fail-closed): every variable holds a
set of abstract values, either a path expression of rocq/SM/PathOps.v (`pexp`: the str parameter, the strings of a
File handle, self.path, literals, `.replace('\\\\','/')`, `os.path.join`, `self._resolve_path(...)`, strings derived
from os.walk) or a File handle, or "other".  `isinstance(x, File)` narrows.  Emitted:

* `raw_sites`   — one entry per (OS-touching call, alternative of its path argument): method, callee, branch, pexp.
  The proof side wants every one to be `PResolve _`.
* `raw_stores`  — every `File(self, path, data)` construction: which expressions a handle carries.
* `raw_validated_then_stored` — for methods that build a handle after an access: (validated pexp, stored pexp).
* `other_sites` — OS-touching calls inside `File`, `FileSystem`, `FileSystemChain` (expected: none).
* `chain_calls` — calls of FileSystemChain into its members with a string argument: (chain method, member method, pexp);
  `chain_handle_delegations` — calls that hand a stored member File back to the member (`.open_str()`, `.open_bin()`,
  `.cache_key()`).

Unknown `os.*`/`shutil.*`/`pathlib.*`/`io.*`/`glob.*` calls, a path argument that is not a recognised expression, and
statements the interpreter does not know fail closed.
"""
from __future__ import annotations

import ast

from harness.common import TranslateError, ast_digest, src_text
from translate.c18_guard import ACCESS, PURE_OS, _coq_str, _dotted

STR_PARAMS = {'name', 'folder', 'path', 'filename'}
OTHER = ('other',)
HANDLE = ('handle',)
CHAIN_MEMBER_METHODS = {'_get_file', 'walk_folder', 'open_str', 'open_bin', '_file_exists', '_get_cache_key'}
HANDLE_METHODS = {'open_str', 'open_bin', 'cache_key'}


def S(p: str) -> tuple:
    return ('str', p)


class _Interp:
    """Abstract interpretation of one method."""

    def __init__(self, cls: str, fn: ast.FunctionDef, chain: bool) -> None:
        self.cls, self.fn, self.chain = cls, fn, chain
        self.sites: list[tuple[str, str, int, str]] = []       # callee, branch, line, pexp
        self.stores: list[tuple[str, str]] = []                # path pexp, data pexp
        self.validated: list[str] = []                         # pexps given to _resolve_path, in order
        self.calls: list[tuple[str, str]] = []                 # chain: member method, pexp
        self.delegations: list[str] = []                       # chain: File method called on a member handle
        self.member_vars: set[str] = set()                     # chain: loop variables bound to member systems

    def fail(self, node: ast.AST, what: str):
        raise TranslateError(f'filesys.py:{getattr(node, "lineno", "?")}: {self.cls}.{self.fn.name}: {what}: '
                             f'`{ast.unparse(node)[:120]}`')

    # ---------------------------------------------------------------- initial environment
    def init_env(self) -> dict[str, frozenset]:
        env: dict[str, frozenset] = {}
        a = self.fn.args
        for arg in a.args[1:] + a.kwonlyargs:
            ann = ast.unparse(arg.annotation) if arg.annotation is not None else ''
            if arg.arg == 'file' or ann.startswith('File'):
                env[arg.arg] = frozenset([HANDLE])
            elif 'File' in ann and 'str' in ann:
                env[arg.arg] = frozenset([S('PArg'), HANDLE])
            elif arg.arg in STR_PARAMS and ann in ('str', 'StringPath', ''):
                env[arg.arg] = frozenset([S('PArg')])
            else:
                env[arg.arg] = frozenset([OTHER])
        return env

    # ---------------------------------------------------------------- expressions
    def ev(self, n: ast.AST, env: dict) -> frozenset:
        """Abstract value of an expression (also records access sites / stores found inside it)."""
        d = _dotted(n)
        if isinstance(n, ast.Name):
            return env.get(n.id, frozenset([OTHER]))
        if d == 'self.path':
            return frozenset([S('PSelfRoot')])
        if isinstance(n, ast.Attribute):
            base = self.ev(n.value, env)
            if n.attr == 'path' and base == frozenset([HANDLE]):
                return frozenset([S('PHandlePath')])
            return frozenset([OTHER])
        if isinstance(n, ast.Constant):
            if isinstance(n.value, str):
                return frozenset([S(f'(PLit {_coq_str(n.value)})')])
            return frozenset([OTHER])
        if isinstance(n, ast.Call):
            return self.call(n, env)
        if isinstance(n, (ast.BoolOp, ast.Compare, ast.UnaryOp, ast.BinOp, ast.IfExp, ast.JoinedStr, ast.Tuple, ast.List,
                          ast.Subscript, ast.ListComp, ast.GeneratorExp, ast.Starred, ast.FormattedValue, ast.Set,
                          ast.Dict, ast.Yield, ast.comprehension, ast.Slice)):
            for ch in ast.iter_child_nodes(n):
                if isinstance(ch, (ast.expr, ast.comprehension)):
                    self.ev(ch, env)
            return frozenset([OTHER])
        if isinstance(n, (ast.expr_context, ast.operator, ast.boolop, ast.cmpop, ast.unaryop)):
            return frozenset([OTHER])
        self.fail(n, 'unrecognised expression')

    def strs(self, vals: frozenset, node: ast.AST, what: str) -> list[str]:
        out = []
        for v in sorted(vals):
            if v[0] == 'str':
                out.append(v[1])
            elif v == HANDLE:
                out.append('PHandlePath')          # a File used as a path: os.fspath(file) == file.path
            else:
                self.fail(node, f'{what} is not a recognised path expression')
        return out

    def call(self, n: ast.Call, env: dict) -> frozenset:
        d = _dotted(n.func)
        args = n.args
        # --- OS access
        if d in ACCESS:
            if not args or n.keywords and any(k.arg in ('file', 'path', 'top') for k in n.keywords):
                self.fail(n, 'file-system call without positional path')
            vals = self.ev(args[0], env)
            for a in args[1:]:
                self.ev(a, env)
            for k in n.keywords:
                self.ev(k.value, env)
            for p in self.strs(vals, n, f'path argument of {d}'):
                self.sites.append((d, 'File' if 'PHandle' in p else ('walk' if 'PWalked' in p else 'str'), n.lineno, p))
            return frozenset([S('PWalked')]) if d == 'os.walk' else frozenset([OTHER])
        if d is not None and (d.startswith(('os.', 'shutil.', 'pathlib.', 'io.', 'glob.', 'posixpath.', 'ntpath.', 'tempfile.'))
                              or d in ('Path', 'PurePath')):
            if d not in PURE_OS:
                self.fail(n, f'unclassified call {d}')
        # --- recognised string functions
        if d == 'self._resolve_path' and len(args) == 1 and not n.keywords:
            ps = self.strs(self.ev(args[0], env), n, 'argument of _resolve_path')
            self.validated += ps
            return frozenset(S(f'(PResolve {p})') for p in ps)
        if d in ('self._get_data', 'cls._get_data') and len(args) == 1:
            v = self.ev(args[0], env)
            if v != frozenset([HANDLE]):
                self.fail(n, '_get_data of something not known to be a File')
            return frozenset([HANDLE]) if self.chain else frozenset([S('PHandleData')])
        if d in ('os.path.join', 'posixpath.join') and len(args) == 2 and not n.keywords:
            a = self.ev(args[0], env)
            b = self.ev(args[1], env)
            if OTHER in a or OTHER in b:
                return frozenset([OTHER])
            return frozenset(S('PWalked') if 'PWalked' in (x + y) else S(f'(PJoin {x} {y})')
                             for x in self.strs(a, n, 'join') for y in self.strs(b, n, 'join'))
        if d in ('os.path.relpath', 'os.path.normpath', 'os.path.abspath', 'os.fspath') and args:
            vs = [self.ev(a, env) for a in args]
            if any(v[0] == 'str' and 'PWalked' in v[1] for s in vs for v in s):
                return frozenset([S('PWalked')])
            return frozenset([OTHER])
        if isinstance(n.func, ast.Attribute):
            f = n.func
            if (f.attr == 'replace' and len(args) == 2 and isinstance(args[0], ast.Constant) and args[0].value == '\\'
                    and isinstance(args[1], ast.Constant) and args[1].value == '/'):
                base = self.ev(f.value, env)
                if OTHER in base or HANDLE in base:
                    return frozenset([OTHER])
                return frozenset(S('PWalked') if 'PWalked' in v[1] else S(f'(PUnbs {v[1]})') for v in base)
            # chain: calls into member systems / member handles
            if self.chain and isinstance(f.value, ast.Name) and f.value.id in self.member_vars:
                if f.attr not in CHAIN_MEMBER_METHODS:
                    self.fail(n, f'FileSystemChain calls unknown member method {f.attr}')
                if len(args) != 1:
                    self.fail(n, 'member call with other than one argument')
                for p in self.strs(self.ev(args[0], env), n, f'argument of member.{f.attr}'):
                    self.calls.append((f.attr, p))
                return frozenset([HANDLE]) if f.attr == '_get_file' else frozenset([OTHER])
            base = self.ev(f.value, env)
            for a in args:
                self.ev(a, env)
            for k in n.keywords:
                self.ev(k.value, env)
            if self.chain and base == frozenset([HANDLE]) and f.attr in HANDLE_METHODS:
                self.delegations.append(f.attr)
                return frozenset([OTHER])
            if self.chain and d == 'self._get_file' and len(args) == 1:
                return frozenset([HANDLE])
            if f.attr in ('split', 'casefold', 'join', 'format', 'add', 'append', 'insert', 'lower', 'rstrip', 'lstrip',
                          'strip', 'startswith', 'endswith'):
                return frozenset([OTHER])
            return frozenset([OTHER])
        # --- File(...) construction
        if d == 'File' and len(args) == 3 and not n.keywords:
            self.ev(args[0], env)
            pv, dv = self.ev(args[1], env), self.ev(args[2], env)
            if not self.chain:
                for p in self.strs(pv, n, 'File path'):
                    for q in self.strs(dv, n, 'File data'):
                        self.stores.append((p, q))
            return frozenset([HANDLE])
        for a in args:
            self.ev(a, env)
        for k in n.keywords:
            self.ev(k.value, env)
        return frozenset([OTHER])

    # ---------------------------------------------------------------- statements
    @staticmethod
    def merge(a: dict | None, b: dict | None) -> dict | None:
        if a is None:
            return b
        if b is None:
            return a
        return {k: a.get(k, frozenset([OTHER])) | b.get(k, frozenset([OTHER])) for k in set(a) | set(b)}

    def isinstance_file(self, t: ast.AST):
        """`isinstance(x, File)` -> 'x' ; `not isinstance(x, File)` -> ('not', 'x')."""
        neg = False
        if isinstance(t, ast.UnaryOp) and isinstance(t.op, ast.Not):
            t, neg = t.operand, True
        if (isinstance(t, ast.Call) and _dotted(t.func) == 'isinstance' and len(t.args) == 2
                and isinstance(t.args[0], ast.Name) and _dotted(t.args[1]) == 'File'):
            return (t.args[0].id, neg)
        return None

    def block(self, stmts: list[ast.stmt], env: dict | None) -> dict | None:
        for st in stmts:
            if env is None:
                return None
            env = self.stmt(st, env)
        return env

    def bind(self, target: ast.AST, vals: frozenset, env: dict) -> None:
        if isinstance(target, ast.Name):
            env[target.id] = vals
        elif isinstance(target, (ast.Tuple, ast.List)):
            for t in target.elts:
                self.bind(t, frozenset([S('PWalked')]) if vals == frozenset([S('PWalked')]) else frozenset([OTHER]), env)
        elif isinstance(target, (ast.Attribute, ast.Subscript)):
            if _dotted(target) == 'self.path':
                self.fail(target, 'self.path reassigned')
        else:
            self.fail(target, 'unrecognised assignment target')

    def stmt(self, st: ast.stmt, env: dict) -> dict | None:
        env = dict(env)
        if isinstance(st, ast.Expr):
            self.ev(st.value, env)
            return env
        if isinstance(st, ast.Assign):
            v = self.ev(st.value, env)
            for t in st.targets:
                self.bind(t, v, env)
            return env
        if isinstance(st, ast.AnnAssign):
            v = self.ev(st.value, env) if st.value is not None else frozenset([OTHER])
            self.bind(st.target, v, env)
            return env
        if isinstance(st, ast.AugAssign):
            self.ev(st.value, env)
            self.bind(st.target, frozenset([OTHER]), env)
            return env
        if isinstance(st, ast.Return):
            if st.value is not None:
                self.ev(st.value, env)
            return None
        if isinstance(st, ast.Raise):
            if st.exc is not None:
                self.ev(st.exc, env)
            return None
        if isinstance(st, (ast.Pass, ast.Continue, ast.Break, ast.Global, ast.Nonlocal, ast.Import, ast.ImportFrom)):
            return env
        if isinstance(st, ast.If):
            nar = self.isinstance_file(st.test)
            et, ef = dict(env), dict(env)
            if nar is not None:
                var, neg = nar
                cur = env.get(var, frozenset([OTHER]))
                yes, no = frozenset(v for v in cur if v == HANDLE), frozenset(v for v in cur if v != HANDLE)
                if OTHER in cur:
                    yes = frozenset([HANDLE])
                if neg:
                    yes, no = no, yes
                et[var], ef[var] = yes, no
            else:
                self.ev(st.test, env)
            out_t = self.block(st.body, et) if not (nar and not et[nar[0]]) else None
            out_f = self.block(st.orelse, ef) if not (nar and not ef[nar[0]]) else None
            return self.merge(out_t, out_f)
        if isinstance(st, ast.For):
            it = st.iter
            if self.chain and _dotted(it) == 'self.systems' and isinstance(st.target, ast.Tuple) and len(st.target.elts) == 2 \
                    and all(isinstance(e, ast.Name) for e in st.target.elts):
                self.member_vars.add(st.target.elts[0].id)
                env[st.target.elts[0].id] = frozenset([OTHER])
                env[st.target.elts[1].id] = frozenset([S('PPrefix')])
            else:
                v = self.ev(it, env)
                self.bind(st.target, v if v == frozenset([S('PWalked')]) else
                          (frozenset([HANDLE]) if self.chain and v == frozenset([OTHER]) and self._iter_yields_handles(it)
                           else frozenset([OTHER])), env)
            # two passes reach the fixed point for these loop bodies (values only grow)
            e1 = self.merge(env, self.block(st.body, dict(env)))
            e2 = self.merge(e1, self.block(st.body, dict(e1)))
            return self.merge(e2, self.block(st.orelse, dict(e2)) if st.orelse else e2)
        if isinstance(st, ast.While):
            self.ev(st.test, env)
            e1 = self.merge(env, self.block(st.body, dict(env)))
            return self.merge(e1, self.block(st.body, dict(e1)))
        if isinstance(st, ast.Try):
            out = self.block(st.body, dict(env))
            for h in st.handlers:
                out = self.merge(out, self.block(h.body, dict(env)))
            if st.orelse:
                out = self.block(st.orelse, out) if out is not None else None
            if st.finalbody:
                out = self.block(st.finalbody, out if out is not None else dict(env))
            return out
        if isinstance(st, ast.With):
            for item in st.items:
                v = self.ev(item.context_expr, env)
                if item.optional_vars is not None:
                    self.bind(item.optional_vars, v, env)
            return self.block(st.body, env)
        self.fail(st, 'unrecognised statement')

    def _iter_yields_handles(self, it: ast.AST) -> bool:
        """`for file in sys.walk_folder(x)` / `self.walk_folder_repeat(x)`: the loop variable is a File."""
        return isinstance(it, ast.Call) and isinstance(it.func, ast.Attribute) and it.func.attr.startswith('walk_folder')

    def run(self) -> None:
        body = [s for s in self.fn.body if not (isinstance(s, ast.Expr) and isinstance(s.value, ast.Constant))]
        self.block(body, self.init_env())
        # loop bodies are interpreted twice (fixed point): keep one copy of every finding, in source order
        for name in ('sites', 'stores', 'validated', 'calls', 'delegations'):
            setattr(self, name, list(dict.fromkeys(getattr(self, name))))


def _methods(cls: ast.ClassDef):
    return [f for f in cls.body if isinstance(f, (ast.FunctionDef, ast.AsyncFunctionDef))]


def translate() -> tuple[str, dict]:
    tree = ast.parse(src_text('filesys.py'))
    classes = {n.name: n for n in tree.body if isinstance(n, ast.ClassDef)}
    for need in ('RawFileSystem', 'FileSystemChain', 'FileSystem', 'File'):
        if need not in classes:
            raise TranslateError(f'filesys.py: class {need} not found')
    raw_sites, raw_stores, val_stored = [], [], []
    for fn in _methods(classes['RawFileSystem']):
        if fn.name in ('__init__', '__repr__', '_resolve_path'):
            continue            # __init__/_resolve_path are translated by c18_guard; they contain no OS access
        it = _Interp('RawFileSystem', fn, chain=False)
        it.run()
        for callee, branch, line, p in it.sites:
            raw_sites.append((fn.name, callee, branch, p, line))
        for p, q in it.stores:
            raw_stores.append((fn.name, p, q))
            for v in it.validated:
                val_stored.append((fn.name, v, q))
    if not raw_sites:
        raise TranslateError('filesys.py: RawFileSystem has no recognised file-system access site')
    # __init__ / _resolve_path / __repr__ must not touch the OS themselves
    for fn in _methods(classes['RawFileSystem']):
        if fn.name in ('__init__', '__repr__', '_resolve_path'):
            for node in ast.walk(fn):
                if isinstance(node, ast.Call) and _dotted(node.func) in ACCESS:
                    raise TranslateError(f'filesys.py:{node.lineno}: RawFileSystem.{fn.name} touches the file system')
    other_sites = []
    for cname in ('File', 'FileSystem', 'FileSystemChain'):
        for fn in _methods(classes[cname]):
            for node in ast.walk(fn):
                if isinstance(node, ast.Call):
                    d = _dotted(node.func)
                    if d in ACCESS:
                        other_sites.append((cname, fn.name, d, node.lineno))
                    elif d is not None and d.startswith(('os.', 'shutil.', 'pathlib.', 'io.', 'glob.')) and d not in PURE_OS:
                        raise TranslateError(f'filesys.py:{node.lineno}: {cname}.{fn.name}: unclassified call {d}')
    chain_calls, chain_deleg = [], []
    for fn in _methods(classes['FileSystemChain']):
        if fn.name in ('__init__', '__repr__', '__eq__', '__hash__', 'add_sys', 'get_system'):
            continue
        it = _Interp('FileSystemChain', fn, chain=True)
        it.run()
        if it.sites:
            other_sites += [('FileSystemChain', fn.name, c, ln) for c, _, ln, _ in it.sites]
        chain_calls += [(fn.name, m, p) for m, p in it.calls]
        chain_deleg += [(fn.name, m) for m in it.delegations]
    if not chain_calls:
        raise TranslateError('filesys.py: FileSystemChain makes no recognised call into its members')

    def site(m, c, b, p):
        return f'  {{| st_method := "{m}"; st_callee := "{c}"; st_branch := "{b}"; st_arg := {p} |}}'
    lines = [
        '(* GENERATED by translate/c18_ops.py from /repo/src/srctools/filesys.py. Do not edit. *)',
        'From Coq Require Import NArith List String.', 'From SV Require Import SM.PathNorm SM.PathOps.',
        'Import ListNotations.', 'Open Scope string_scope.',
        '(* every call of RawFileSystem that reaches the operating system, one entry per alternative of its path argument *)',
        'Definition raw_sites : list site := [', ';\n'.join(site(m, c, b, p) for m, c, b, p, _ in raw_sites), '].',
        '(* File(self, path, data) constructions of RawFileSystem *)',
        'Definition raw_stores : list store := [',
        ';\n'.join(f'  {{| so_method := "{m}"; so_path := {p}; so_data := {q} |}}' for m, p, q in raw_stores), '].',
        '(* (method, expression validated by _resolve_path, expression stored in the handle it returns) *)',
        'Definition raw_validated_then_stored : list (string * pexp * pexp) := [',
        ';\n'.join(f'  ("{m}", {v}, {q})' for m, v, q in val_stored), '].',
        '(* OS-touching calls inside File / FileSystem / FileSystemChain themselves *)',
        'Definition other_sites : list (string * string * string) := [',
        ';\n'.join(f'  ("{c}", "{m}", "{d}")' for c, m, d, _ in other_sites), '].',
        '(* calls of FileSystemChain into a member system with a string argument *)',
        'Definition chain_calls : list ccall := [',
        ';\n'.join(f'  {{| cc_method := "{m}"; cc_member := "{mm}"; cc_arg := {p} |}}' for m, mm, p in chain_calls), '].',
        '',
    ]
    side = {'raw_sites': [list(s) for s in raw_sites], 'raw_stores': [list(s) for s in raw_stores],
            'validated_then_stored': [list(s) for s in val_stored], 'other_sites': [list(s) for s in other_sites],
            'chain_calls': [list(s) for s in chain_calls], 'chain_handle_delegations': [list(s) for s in chain_deleg],
            'digest': ast_digest(classes['RawFileSystem'])[:12] + '/' + ast_digest(classes['FileSystemChain'])[:12]}
    return '\n'.join(lines), side


GEN = {'FsOps_gen': translate}
