"""C18 translator: data flow of every file-system access of RawFileSystem / FileSystemChain -> Gen/FsOps_gen.v.

A small abstract interpreter over the method bodies of `class RawFileSystem` (fail-closed): every variable holds a
set of abstract values, either a path expression of rocq/SM/PathOps.v (`pexp`: the str parameter, the strings of a
File handle, self.path, literals, `.replace('\\\\','/')`, `os.path.join`, `self._resolve_path(...)`, strings derived
from os.walk) or a File handle, or "other".  `isinstance(x, File)` narrows.  Emitted:

* `raw_sites`   — one entry per (OS-touching call, alternative of its path argument): method, callee, branch, pexp.
  The proof side wants every one to be `PResolve _`.
* `raw_stores`  — every `File(self, path, data)` construction: which expressions a handle carries.
* `raw_validated_then_stored` — for methods that build a handle after an access: (validated pexp, stored pexp).
* `other_sites` — OS-touching calls inside `File`, `FileSystem`, `FileSystemChain` (expected: none).
* `chain_calls` — calls of FileSystemChain into its members with a string argument: (chain method, member method, pexp);
  `chain_handle_delegations` — calls that hand a stored member File back to the member (`.open_str()`, `.open_bin()`,
  `.cache_key()`).

Unknown `os.*`/`shutil.*`/`pathlib.*`/`io.*`/`glob.*` calls, a path argument that is not a recognised expression, and
statements the interpreter does not know fail closed.
"""
from __future__ import annotations

import ast

from harness.common import TranslateError, ast_digest, src_text
from translate.c18_guard import (ACCESS, PURE_OS, _coq_ident, _coq_str, _dotted, resolve_method_name, shared_state_census,
                                  wrapper_census)

# keyword spelling of the path argument of the OS calls
PATH_KEYWORDS = {'open': ('file',), 'io.open': ('file',), 'os.open': ('path',), 'os.walk': ('top',), 'os.stat': ('path',),
                 'os.lstat': ('path',), 'os.listdir': ('path',), 'os.scandir': ('path',), 'os.path.isfile': ('path',),
                 'os.path.isdir': ('s',), 'os.path.exists': ('path',), 'os.path.lexists': ('path',),
                 'os.path.getmtime': ('filename',), 'os.path.getsize': ('filename',)}
STR_PARAMS = {'name', 'folder', 'path', 'filename'}
OTHER = ('other',)
HANDLE = ('handle',)
CHAIN_MEMBER_METHODS = {'_get_file', 'walk_folder', 'open_str', 'open_bin', '_file_exists', '_get_cache_key'}
HANDLE_METHODS = {'open_str', 'open_bin', 'cache_key'}


def S(p: str) -> tuple:
    return ('str', p)


class _Interp:
    """Abstract interpretation of one method."""

    def __init__(self, cls: str, fn: ast.FunctionDef, chain: bool, helpers: dict | None = None,
                 consts: dict | None = None, resolve: str = '_resolve_path') -> None:
        self.cls, self.fn, self.chain = cls, fn, chain
        self.resolve = resolve                                 # name of the method that decides containment
        self.module_funcs: dict[str, ast.FunctionDef] = (helpers or {}).get('=module', {}) if helpers else {}
        self.helpers = helpers or {}                           # methods of the same class, inlined at `self.m(...)` calls
        self.consts = consts or {}                             # module-level NAME = 'string constant'
        self.stack: list[str] = [fn.name]                      # methods being inlined (recursion fails closed)
        self.returns: list[list] = []                          # abstract return values of the helper being inlined
        self.sites: list[tuple[str, str, int, str]] = []       # callee, branch, line, pexp
        self.stores: list[tuple[str, str]] = []                # path pexp, data pexp
        self.validated: list[str] = []                         # pexps given to _resolve_path, in order
        self.calls: list[tuple[str, str]] = []                 # chain: member method, pexp
        self.delegations: list[str] = []                       # chain: File method called on a member handle
        self.member_vars: set[str] = set()                     # chain: loop variables bound to member systems

    def fail(self, node: ast.AST, what: str):
        raise TranslateError(f'filesys.py:{getattr(node, "lineno", "?")}: {self.cls}.{self.fn.name}: {what}: '
                             f'`{ast.unparse(node)[:120]}`')

    # ---------------------------------------------------------------- initial environment
    def init_env(self) -> dict[str, frozenset]:
        env: dict[str, frozenset] = {}
        a = self.fn.args
        for arg in a.args[1:] + a.kwonlyargs:
            ann = ast.unparse(arg.annotation) if arg.annotation is not None else ''
            if arg.arg == 'file' or ann.startswith('File'):
                env[arg.arg] = frozenset([HANDLE])
            elif 'File' in ann and 'str' in ann:
                env[arg.arg] = frozenset([S('PArg'), HANDLE])
            elif ann in ('str', 'StringPath') or (ann == '' and arg.arg in STR_PARAMS):
                env[arg.arg] = frozenset([S('PArg')])
            else:
                env[arg.arg] = frozenset([OTHER])
        return env

    # ---------------------------------------------------------------- expressions
    def ev(self, n: ast.AST, env: dict) -> frozenset:
        """Abstract value of an expression (also records access sites / stores found inside it)."""
        d = _dotted(n)
        if isinstance(n, ast.Name):
            if n.id not in env and n.id in self.consts:
                return frozenset([S(f'(PLit {_coq_str(self.consts[n.id])})')])
            return env.get(n.id, frozenset([OTHER]))
        if d == 'self.path':
            return frozenset([S('PSelfRoot')])
        if isinstance(n, ast.Attribute):
            base = self.ev(n.value, env)
            if n.attr == 'path' and base == frozenset([HANDLE]):
                return frozenset([S('PHandlePath')])
            return frozenset([OTHER])
        if isinstance(n, ast.Constant):
            if isinstance(n.value, str):
                return frozenset([S(f'(PLit {_coq_str(n.value)})')])
            return frozenset([OTHER])
        if isinstance(n, ast.Call):
            return self.call(n, env)
        if isinstance(n, (ast.ListComp, ast.SetComp, ast.GeneratorExp, ast.DictComp)):
            e2 = dict(env)                    # the loop variables are bound like those of a `for` statement
            for g in n.generators:
                self.bind(g.target, self.elements(g.iter, e2), e2)
                for c in g.ifs:
                    self.ev(c, e2)
            for part in ([n.key, n.value] if isinstance(n, ast.DictComp) else [n.elt]):
                self.ev(part, e2)
            return frozenset([OTHER])
        if isinstance(n, ast.IfExp):          # `a if isinstance(x, File) else b`: narrowed like the statement form
            et, ef, live_t, live_f = self.narrow(n.test, env)
            vals: frozenset = frozenset()
            if live_t:
                vals |= self.ev(n.body, et)
            if live_f:
                vals |= self.ev(n.orelse, ef)
            return vals or frozenset([OTHER])
        if isinstance(n, (ast.BoolOp, ast.Compare, ast.UnaryOp, ast.BinOp, ast.JoinedStr, ast.Tuple, ast.List,
                          ast.Subscript, ast.Starred, ast.FormattedValue, ast.Set,
                          ast.Dict, ast.Yield, ast.YieldFrom, ast.Await, ast.Lambda, ast.NamedExpr,
                          ast.comprehension, ast.Slice)):
            for ch in ast.iter_child_nodes(n):
                if isinstance(ch, (ast.expr, ast.comprehension)):
                    self.ev(ch, env)
            return frozenset([OTHER])
        if isinstance(n, (ast.expr_context, ast.operator, ast.boolop, ast.cmpop, ast.unaryop)):
            return frozenset([OTHER])
        self.fail(n, 'unrecognised expression')

    def const_str(self, n: ast.AST, env: dict) -> str | None:
        """The string a constant expression denotes: a literal, a module-level constant, or a local bound to one."""
        if isinstance(n, ast.Constant) and isinstance(n.value, str):
            return n.value
        if isinstance(n, ast.Name):
            if n.id in env:
                v = env[n.id]
                if len(v) == 1:
                    (x,) = v
                    if x[0] == 'str' and x[1].startswith('(PLit ['):
                        return ''.join(chr(int(c)) for c in x[1][7:x[1].index(']')].split(';') if c)
                return None
            return self.consts.get(n.id)
        d = _dotted(n)
        if d in ('os.sep', 'os.path.sep'):
            return '/'
        return None

    def inline(self, n: ast.Call, fn: ast.FunctionDef, env: dict, static: bool = False) -> frozenset:
        """`self.helper(args)`: interpret the helper's body with the parameters bound to the abstract arguments; OS calls
        and File stores inside it are recorded for the calling method; the value is the union of what it returns."""
        if fn.name in self.stack:
            self.fail(n, f'recursive helper {fn.name}')
        if len(self.stack) > 4:
            self.fail(n, 'helpers nested too deeply')
        a = fn.args
        if a.vararg or a.kwarg or a.posonlyargs or any(isinstance(x, ast.Starred) for x in n.args) \
                or any(k.arg is None for k in n.keywords):
            self.fail(n, f'call of helper {fn.name} with * / ** arguments')
        if any(isinstance(x, (ast.Yield, ast.YieldFrom)) for x in ast.walk(fn)):
            self.fail(n, f'helper {fn.name} is a generator')
        decs = [_dotted(d.func if isinstance(d, ast.Call) else d) for d in fn.decorator_list]
        static = static or 'staticmethod' in decs
        params = a.args[(0 if static else 1):] + a.kwonlyargs
        names = [p.arg for p in params]
        inner: dict[str, frozenset] = {}
        pos_defaults = dict(zip([p.arg for p in a.args][len(a.args) - len(a.defaults):], a.defaults))
        kw_defaults = {p.arg: dflt for p, dflt in zip(a.kwonlyargs, a.kw_defaults) if dflt is not None}
        for name, dflt in {**pos_defaults, **kw_defaults}.items():
            inner[name] = self.ev(dflt, {})
        npos = len(a.args) - (0 if static else 1)
        if len(n.args) > npos:
            self.fail(n, f'too many positional arguments for helper {fn.name}')
        for p, arg in zip(names, n.args):
            inner[p] = self.ev(arg, env)
        for k in n.keywords:
            if k.arg not in names:
                self.fail(n, f'unknown keyword {k.arg} for helper {fn.name}')
            inner[k.arg] = self.ev(k.value, env)
        for p in names:
            if p not in inner:
                self.fail(n, f'helper {fn.name}: parameter {p} not supplied')
        self.stack.append(fn.name)
        self.returns.append([])
        body = [s for s in fn.body if not (isinstance(s, ast.Expr) and isinstance(s.value, ast.Constant))]
        self.block(body, inner)
        rets = self.returns.pop()
        self.stack.pop()
        out: frozenset = frozenset()
        for r in rets:
            out |= r
        return out or frozenset([OTHER])

    def elements(self, it: ast.AST, env: dict) -> frozenset:
        """What a loop variable over `it` holds: the members of a tuple / list / set display, strings derived from
        os.walk for an os.walk result, File handles for a walk_folder of a chain member, otherwise unknown."""
        if isinstance(it, (ast.Tuple, ast.List, ast.Set)) and not any(isinstance(e, ast.Starred) for e in it.elts):
            out: frozenset = frozenset()
            for e in it.elts:
                out |= self.ev(e, env)
            return out or frozenset([OTHER])
        v = self.ev(it, env)
        if v == frozenset([S('PWalked')]):
            return v
        if self.chain and v == frozenset([OTHER]) and self._iter_yields_handles(it):
            return frozenset([HANDLE])
        return frozenset([OTHER])

    def strs(self, vals: frozenset, node: ast.AST, what: str) -> list[str]:
        out = []
        for v in sorted(vals):
            if v[0] == 'str':
                out.append(v[1])
            elif v == HANDLE:
                out.append('PHandlePath')          # a File used as a path: os.fspath(file) == file.path
            else:
                self.fail(node, f'{what} is not a recognised path expression')
        return out

    def call(self, n: ast.Call, env: dict) -> frozenset:
        d = _dotted(n.func)
        args = n.args
        # --- OS access
        if d in ACCESS:
            if any(isinstance(a, ast.Starred) for a in args) or any(k.arg is None for k in n.keywords):
                self.fail(n, 'file-system call with * / ** arguments')
            pathkw = [k for k in n.keywords if k.arg in PATH_KEYWORDS.get(d, ())]
            if args and not pathkw:
                parg, rest = args[0], args[1:]
            elif not args and len(pathkw) == 1:
                parg, rest = pathkw[0].value, []           # open(file=...), os.walk(top=...), os.stat(path=...)
            else:
                self.fail(n, 'file-system call whose path argument is not recognised')
            vals = self.ev(parg, env)
            for a in rest:
                self.ev(a, env)
            for k in n.keywords:
                if k not in pathkw:
                    self.ev(k.value, env)
            for p in self.strs(vals, n, f'path argument of {d}'):
                self.sites.append((d, 'File' if 'PHandle' in p else ('walk' if 'PWalked' in p else 'str'), n.lineno, p))
            return frozenset([S('PWalked')]) if d == 'os.walk' else frozenset([OTHER])
        if d is not None and (d.startswith(('os.', 'shutil.', 'pathlib.', 'io.', 'glob.', 'posixpath.', 'ntpath.', 'tempfile.'))
                              or d in ('Path', 'PurePath')):
            if d not in PURE_OS:
                self.fail(n, f'unclassified call {d}')
        # --- recognised string functions
        if d == 'self.' + self.resolve and len(args) == 1 and not n.keywords:
            ps = self.strs(self.ev(args[0], env), n, 'argument of _resolve_path')
            self.validated += ps
            return frozenset(S(f'(PResolve {p})') for p in ps)
        if d in ('self._get_data', 'cls._get_data') and len(args) == 1:
            v = self.ev(args[0], env)
            if v != frozenset([HANDLE]):
                self.fail(n, '_get_data of something not known to be a File')
            return frozenset([HANDLE]) if self.chain else frozenset([S('PHandleData')])
        if d in ('os.path.join', 'posixpath.join') and len(args) == 2 and not n.keywords:
            a = self.ev(args[0], env)
            b = self.ev(args[1], env)
            if OTHER in a or OTHER in b:
                return frozenset([OTHER])
            return frozenset(S('PWalked') if 'PWalked' in (x + y) else S(f'(PJoin {x} {y})')
                             for x in self.strs(a, n, 'join') for y in self.strs(b, n, 'join'))
        if d in ('os.path.relpath', 'os.path.normpath', 'os.path.abspath', 'os.fspath') and args:
            vs = [self.ev(a, env) for a in args]
            if any(v[0] == 'str' and 'PWalked' in v[1] for s in vs for v in s):
                return frozenset([S('PWalked')])
            return frozenset([OTHER])
        if (not self.chain and isinstance(n.func, ast.Attribute) and isinstance(n.func.value, ast.Name)
                and n.func.value.id == 'self' and n.func.attr in self.helpers):
            return self.inline(n, self.helpers[n.func.attr], env)
        # a function defined at module level (a helper moved out of the class): its body runs in place of the call, so an
        # OS call inside it is a site of the calling method
        if isinstance(n.func, ast.Name) and n.func.id not in env and n.func.id in self.module_funcs:
            return self.inline(n, self.module_funcs[n.func.id], env, static=True)
        if isinstance(n.func, ast.Attribute):
            f = n.func
            if (f.attr == 'replace' and len(args) == 2 and not n.keywords and self.const_str(args[0], env) == '\\'
                    and self.const_str(args[1], env) == '/'):
                base = self.ev(f.value, env)
                if OTHER in base or HANDLE in base:
                    return frozenset([OTHER])
                return frozenset(S('PWalked') if 'PWalked' in v[1] else S(f'(PUnbs {v[1]})') for v in base)
            # chain: calls into member systems / member handles
            if self.chain and isinstance(f.value, ast.Name) and f.value.id in self.member_vars:
                if f.attr not in CHAIN_MEMBER_METHODS:
                    self.fail(n, f'FileSystemChain calls unknown member method {f.attr}')
                if len(args) != 1:
                    self.fail(n, 'member call with other than one argument')
                for p in self.strs(self.ev(args[0], env), n, f'argument of member.{f.attr}'):
                    self.calls.append((f.attr, p))
                return frozenset([HANDLE]) if f.attr == '_get_file' else frozenset([OTHER])
            base = self.ev(f.value, env)
            for a in args:
                self.ev(a, env)
            for k in n.keywords:
                self.ev(k.value, env)
            if self.chain and base == frozenset([HANDLE]) and f.attr in HANDLE_METHODS:
                self.delegations.append(f.attr)
                return frozenset([OTHER])
            if self.chain and d == 'self._get_file' and len(args) == 1:
                return frozenset([HANDLE])
            if f.attr in ('split', 'casefold', 'join', 'format', 'add', 'append', 'insert', 'lower', 'rstrip', 'lstrip',
                          'strip', 'startswith', 'endswith'):
                return frozenset([OTHER])
            return frozenset([OTHER])
        # --- File(...) construction
        if d == 'File' and len(args) == 3 and not n.keywords:
            self.ev(args[0], env)
            pv, dv = self.ev(args[1], env), self.ev(args[2], env)
            if not self.chain:
                for p in self.strs(pv, n, 'File path'):
                    for q in self.strs(dv, n, 'File data'):
                        self.stores.append((p, q))
            return frozenset([HANDLE])
        for a in args:
            self.ev(a, env)
        for k in n.keywords:
            self.ev(k.value, env)
        return frozenset([OTHER])

    # ---------------------------------------------------------------- statements
    @staticmethod
    def merge(a: dict | None, b: dict | None) -> dict | None:
        if a is None:
            return b
        if b is None:
            return a
        return {k: a.get(k, frozenset([OTHER])) | b.get(k, frozenset([OTHER])) for k in set(a) | set(b)}

    def isinstance_file(self, t: ast.AST):
        """`isinstance(x, File)` -> 'x' ; `not isinstance(x, File)` -> ('not', 'x')."""
        neg = False
        if isinstance(t, ast.UnaryOp) and isinstance(t.op, ast.Not):
            t, neg = t.operand, True
        if (isinstance(t, ast.Call) and _dotted(t.func) == 'isinstance' and len(t.args) == 2
                and isinstance(t.args[0], ast.Name) and _dotted(t.args[1]) == 'File'):
            return (t.args[0].id, neg)
        return None

    def narrow(self, test: ast.AST, env: dict) -> tuple[dict, dict, bool, bool]:
        """Environments of the two outcomes of a test and whether each outcome is possible; `isinstance(x, File)` (also
        negated) splits the alternatives of x, any other test is evaluated for its accesses and splits nothing."""
        nar = self.isinstance_file(test)
        et, ef = dict(env), dict(env)
        if nar is None:
            self.ev(test, env)
            return et, ef, True, True
        var, neg = nar
        cur = env.get(var, frozenset([OTHER]))
        yes, no = frozenset(v for v in cur if v == HANDLE), frozenset(v for v in cur if v != HANDLE)
        if OTHER in cur:
            yes = frozenset([HANDLE])
        if neg:
            yes, no = no, yes
        et[var], ef[var] = yes, no
        return et, ef, bool(yes), bool(no)

    def block(self, stmts: list[ast.stmt], env: dict | None) -> dict | None:
        for st in stmts:
            if env is None:
                return None
            env = self.stmt(st, env)
        return env

    def bind(self, target: ast.AST, vals: frozenset, env: dict) -> None:
        if isinstance(target, ast.Name):
            env[target.id] = vals
        elif isinstance(target, (ast.Tuple, ast.List)):
            for t in target.elts:
                self.bind(t, frozenset([S('PWalked')]) if vals == frozenset([S('PWalked')]) else frozenset([OTHER]), env)
        elif isinstance(target, (ast.Attribute, ast.Subscript)):
            if _dotted(target) == 'self.path':
                self.fail(target, 'self.path reassigned')
        else:
            self.fail(target, 'unrecognised assignment target')

    def stmt(self, st: ast.stmt, env: dict) -> dict | None:
        env = dict(env)
        if isinstance(st, ast.Expr):
            self.ev(st.value, env)
            return env
        if isinstance(st, ast.Assign):
            v = self.ev(st.value, env)
            for t in st.targets:
                self.bind(t, v, env)
            return env
        if isinstance(st, ast.AnnAssign):
            v = self.ev(st.value, env) if st.value is not None else frozenset([OTHER])
            self.bind(st.target, v, env)
            return env
        if isinstance(st, ast.AugAssign):
            self.ev(st.value, env)
            self.bind(st.target, frozenset([OTHER]), env)
            return env
        if isinstance(st, ast.Return):
            v = self.ev(st.value, env) if st.value is not None else frozenset([OTHER])
            if self.returns:
                self.returns[-1].append(v)
            return None
        if isinstance(st, ast.Raise):
            if st.exc is not None:
                self.ev(st.exc, env)
            return None
        if isinstance(st, (ast.Pass, ast.Continue, ast.Break, ast.Global, ast.Nonlocal, ast.Import, ast.ImportFrom)):
            return env
        if isinstance(st, ast.If):
            et, ef, live_t, live_f = self.narrow(st.test, env)
            out_t = self.block(st.body, et) if live_t else None
            out_f = self.block(st.orelse, ef) if live_f else None
            return self.merge(out_t, out_f)
        if isinstance(st, ast.For):
            it = st.iter
            if self.chain and _dotted(it) == 'self.systems' and isinstance(st.target, ast.Tuple) and len(st.target.elts) == 2 \
                    and all(isinstance(e, ast.Name) for e in st.target.elts):
                self.member_vars.add(st.target.elts[0].id)
                env[st.target.elts[0].id] = frozenset([OTHER])
                env[st.target.elts[1].id] = frozenset([S('PPrefix')])
            else:
                self.bind(st.target, self.elements(it, env), env)
            # two passes reach the fixed point for these loop bodies (values only grow)
            e1 = self.merge(env, self.block(st.body, dict(env)))
            e2 = self.merge(e1, self.block(st.body, dict(e1)))
            return self.merge(e2, self.block(st.orelse, dict(e2)) if st.orelse else e2)
        if isinstance(st, ast.While):
            self.ev(st.test, env)
            e1 = self.merge(env, self.block(st.body, dict(env)))
            return self.merge(e1, self.block(st.body, dict(e1)))
        if isinstance(st, ast.Try):
            out = self.block(st.body, dict(env))
            for h in st.handlers:
                out = self.merge(out, self.block(h.body, dict(env)))
            if st.orelse:
                out = self.block(st.orelse, out) if out is not None else None
            if st.finalbody:
                out = self.block(st.finalbody, out if out is not None else dict(env))
            return out
        if isinstance(st, ast.With):
            for item in st.items:
                v = self.ev(item.context_expr, env)
                if item.optional_vars is not None:
                    self.bind(item.optional_vars, v, env)
            return self.block(st.body, env)
        self.fail(st, 'unrecognised statement')

    def _iter_yields_handles(self, it: ast.AST) -> bool:
        """`for file in sys.walk_folder(x)` / `self.walk_folder_repeat(x)`: the loop variable is a File."""
        return isinstance(it, ast.Call) and isinstance(it.func, ast.Attribute) and it.func.attr.startswith('walk_folder')

    def run(self) -> None:
        body = [s for s in self.fn.body if not (isinstance(s, ast.Expr) and isinstance(s.value, ast.Constant))]
        self.block(body, self.init_env())
        # loop bodies are interpreted twice (fixed point): keep one copy of every finding, in source order
        for name in ('sites', 'stores', 'validated', 'calls', 'delegations'):
            setattr(self, name, list(dict.fromkeys(getattr(self, name))))


def _is_called(cls: ast.ClassDef, attr: ast.Attribute) -> bool:
    """Is this `self.name` node the function of a call?"""
    return any(isinstance(x, ast.Call) and x.func is attr for x in ast.walk(cls))


def _methods(cls: ast.ClassDef):
    return [f for f in cls.body if isinstance(f, (ast.FunctionDef, ast.AsyncFunctionDef))]


def translate() -> tuple[str, dict]:
    tree = ast.parse(src_text('filesys.py'))
    classes = {n.name: n for n in tree.body if isinstance(n, ast.ClassDef)}
    for need in ('RawFileSystem', 'FileSystemChain', 'FileSystem', 'File'):
        if need not in classes:
            raise TranslateError(f'filesys.py: class {need} not found')
    raw_sites, raw_stores, val_stored = [], [], []
    # module-level string constants (NAME = 'literal', bound once) may be used in place of the literal
    consts: dict[str, str] = {}
    bound: dict[str, int] = {}
    for st in tree.body:
        for t in (st.targets if isinstance(st, ast.Assign) else [st.target] if isinstance(st, (ast.AnnAssign, ast.AugAssign)) else []):
            for nm in ast.walk(t):
                if isinstance(nm, ast.Name):
                    bound[nm.id] = bound.get(nm.id, 0) + 1
        if isinstance(st, (ast.Assign, ast.AnnAssign)) and isinstance(st.value, ast.Constant) and isinstance(st.value.value, str):
            t = st.targets[0] if isinstance(st, ast.Assign) and len(st.targets) == 1 else getattr(st, 'target', None)
            if isinstance(t, ast.Name):
                consts[t.id] = st.value.value
    consts = {k: v for k, v in consts.items() if bound.get(k) == 1}
    # methods of RawFileSystem called as `self.m(...)` are inlined at the call (helpers extracted from the public methods)
    rname = resolve_method_name(classes['RawFileSystem'])
    raw_methods = {fn.name: fn for fn in _methods(classes['RawFileSystem'])}
    helpers: dict = {k: v for k, v in raw_methods.items() if k not in ('__init__', rname, '__repr__')}
    module_funcs = {n.name: n for n in tree.body if isinstance(n, ast.FunctionDef)}
    helpers['=module'] = module_funcs
    inside_raw = {id(x) for x in ast.walk(classes['RawFileSystem'])}
    used_outside = {x.attr for x in ast.walk(tree) if isinstance(x, ast.Attribute) and id(x) not in inside_raw}
    # (calls made by the methods interpreted below: a helper used only by _resolve_path / __init__, which the guard
    # translator reads, is interpreted on its own here so that an OS call inside it is still a site)
    called_inside = {x.func.attr for fn in _methods(classes['RawFileSystem']) if fn.name not in ('__init__', '__repr__', rname)
                     for x in ast.walk(fn) if isinstance(x, ast.Call)
                     and isinstance(x.func, ast.Attribute) and isinstance(x.func.value, ast.Name) and x.func.value.id == 'self'}
    inherited = {f.name for f in _methods(classes['FileSystem'])}
    # a private helper (not part of the FileSystem protocol, never mentioned outside the class) whose every use is an
    # inlined `self.helper(...)` call is analysed at its call sites only
    private_helpers = {k for k in helpers if k.startswith('_') and not k.startswith('__') and k not in inherited
                       and k not in used_outside and k in called_inside}
    for node in ast.walk(classes['RawFileSystem']):          # `self.helper` used other than by calling it: not inlinable
        if isinstance(node, ast.Attribute) and isinstance(node.value, ast.Name) and node.value.id == 'self' \
                and node.attr in private_helpers:
            private_helpers.discard(node.attr) if not _is_called(classes['RawFileSystem'], node) else None
    for fn in _methods(classes['RawFileSystem']):
        if fn.name in ('__init__', '__repr__', rname) or fn.name in private_helpers:
            continue            # __init__/_resolve_path are translated by c18_guard; they contain no OS access
        it = _Interp('RawFileSystem', fn, chain=False, helpers=helpers, consts=consts, resolve=rname)
        it.run()
        for callee, branch, line, p in it.sites:
            raw_sites.append((fn.name, callee, branch, p, line))
        for p, q in it.stores:
            raw_stores.append((fn.name, p, q))
            for v in it.validated:
                val_stored.append((fn.name, v, q))
    if not raw_sites:
        raise TranslateError('filesys.py: RawFileSystem has no recognised file-system access site')
    # __init__ / _resolve_path / __repr__ must not touch the OS themselves
    for fn in _methods(classes['RawFileSystem']):
        if fn.name in ('__init__', '__repr__', rname):
            for node in ast.walk(fn):
                if isinstance(node, ast.Call) and _dotted(node.func) in ACCESS:
                    raise TranslateError(f'filesys.py:{node.lineno}: RawFileSystem.{fn.name} touches the file system')
    other_sites = []
    for cname in ('File', 'FileSystem', 'FileSystemChain'):
        for fn in _methods(classes[cname]):
            for node in ast.walk(fn):
                if isinstance(node, ast.Call):
                    d = _dotted(node.func)
                    if d in ACCESS:
                        other_sites.append((cname, fn.name, d, node.lineno))
                    elif d is not None and d.startswith(('os.', 'shutil.', 'pathlib.', 'io.', 'glob.')) and d not in PURE_OS:
                        raise TranslateError(f'filesys.py:{node.lineno}: {cname}.{fn.name}: unclassified call {d}')
    chain_calls, chain_deleg = [], []
    for fn in _methods(classes['FileSystemChain']):
        if fn.name in ('__init__', '__repr__', '__eq__', '__hash__', 'add_sys', 'get_system'):
            continue
        it = _Interp('FileSystemChain', fn, chain=True, helpers={'=module': module_funcs}, consts=consts)
        it.run()
        if it.sites:
            other_sites += [('FileSystemChain', fn.name, c, ln) for c, _, ln, _ in it.sites]
        chain_calls += [(fn.name, m, p) for m, p in it.calls]
        chain_deleg += [(fn.name, m) for m in it.delegations]
    if not chain_calls:
        raise TranslateError('filesys.py: FileSystemChain makes no recognised call into its members')

    wrappers = wrapper_census(tree)
    shared = shared_state_census(tree)

    def site(m, c, b, p):
        return f'  {{| st_method := "{m}"; st_callee := "{c}"; st_branch := "{b}"; st_arg := {p} |}}'
    lines = [
        '(* GENERATED by translate/c18_ops.py from /repo/src/srctools/filesys.py. Do not edit. *)',
        'From Coq Require Import NArith List String.', 'From SV Require Import SM.PathNorm SM.PathOps.',
        'Import ListNotations.', 'Open Scope string_scope.',
        '(* every call of RawFileSystem that reaches the operating system, one entry per alternative of its path argument *)',
        'Definition raw_sites : list site := [', ';\n'.join(site(m, c, b, p) for m, c, b, p, _ in raw_sites), '].',
        '(* File(self, path, data) constructions of RawFileSystem *)',
        'Definition raw_stores : list store := [',
        ';\n'.join(f'  {{| so_method := "{m}"; so_path := {p}; so_data := {q} |}}' for m, p, q in raw_stores), '].',
        '(* (method, expression validated by _resolve_path, expression stored in the handle it returns) *)',
        'Definition raw_validated_then_stored : list (string * pexp * pexp) := [',
        ';\n'.join(f'  ("{m}", {v}, {q})' for m, v, q in val_stored), '].',
        '(* OS-touching calls inside File / FileSystem / FileSystemChain themselves *)',
        'Definition other_sites : list (string * string * string) := [',
        ';\n'.join(f'  ("{c}", "{m}", "{d}")' for c, m, d, _ in other_sites), '].',
        '(* decorators / rebindings / attribute hooks on methods of File, FileSystem, RawFileSystem, FileSystemChain *)',
        'Definition method_wrappers : list (string * string * string) := [',
        ';\n'.join(f'  ("{c}", "{m}", "{_coq_ident(w)}")' for c, m, w in wrappers), '].',
        '(* state that outlives a call and is visible to several file-system objects (module / class level tables, mutable defaults) *)',
        'Definition shared_mutable_state : list (string * string * string) := [',
        ';\n'.join(f'  ("{_coq_ident(c)}", "{_coq_ident(m)}", "{_coq_ident(w)}")' for c, m, w in shared), '].',
        '(* calls of FileSystemChain into a member system with a string argument *)',
        'Definition chain_calls : list ccall := [',
        ';\n'.join(f'  {{| cc_method := "{m}"; cc_member := "{mm}"; cc_arg := {p} |}}' for m, mm, p in chain_calls), '].',
        '',
    ]
    side = {'raw_sites': [list(s) for s in raw_sites], 'raw_stores': [list(s) for s in raw_stores],
            'validated_then_stored': [list(s) for s in val_stored], 'other_sites': [list(s) for s in other_sites],
            'chain_calls': [list(s) for s in chain_calls], 'method_wrappers': [list(w) for w in wrappers], 'shared_mutable_state': [list(w) for w in shared],
            'inlined_private_helpers': sorted(private_helpers), 'module_string_constants_used': sorted(consts), 'chain_handle_delegations': [list(s) for s in chain_deleg],
            'digest': ast_digest(classes['RawFileSystem'])[:12] + '/' + ast_digest(classes['FileSystemChain'])[:12]}
    return '\n'.join(lines), side


GEN = {'FsOps_gen': translate}
