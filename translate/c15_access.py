"""C15 translator: every pixel access path of a VTF frame (vtf.py, _py_vtf_readwrite.py) -> Gen/VtfAccess_gen.v

A CENSUS of every occurrence of `<expr>._data` in vtf.py (the flat RGBA array of a Frame), fail-closed: each occurrence
must be one of

  test     `X._data is None` / `is not None` (also inside assert)
  none     `X._data = None`
  alloc    `X._data = <4-element array> * (product)`      -> the factors of the product, relative to X
  copy     `X._data = Y._data[:]` / `X._data[:] = Y._data` -> the size test that guards it (X vs Y dimensions)
  item     `X._data[E + k]`, `X._data[E:E + k]`            -> only inside Frame.__getitem__/__setitem__ (their rejection test
                                                              and offset formula are translated by c15_pixel)
  call     X._data handed to a function together with dimensions: _format_funcs.load/save/scale_down/ppm_convert/
           alpha_flatten, PIL frombuffer, memoryview(...).cast(fmt, shape)  -> one `pathdesc` per site: what the callee
           uses as number of ROWS, of COLUMNS and of bytes per pixel, relative to X (DW = X.width, DH = X.height,
           DK k = literal, DForeign = anything else)

Arguments are bound to the callee's parameters BY NAME (positional or keyword); for callees in _py_vtf_readwrite.py the
parameter list is read from its `def`, and for ppm_convert the (columns, rows) order of the PPM header is read from the
format expression inside it and composed with the call site.  For PIL / memoryview / wx the documented argument
conventions are a fixed table (trusted): frombuffer(mode, (columns, rows), data, 'raw', rawmode, stride, orientation),
memoryview.cast(format, shape) C-contiguous, wx.Image(columns, rows), wx.Bitmap(columns, rows).
An occurrence that fits none of these stops the translation (a new access path needs a model).

Also every site that passes a (width, height) PAIR without the pixel array: `Frame(a, b)`, `<format>.frame_size(a, b)` and the
stores of `Frame.__init__`: which dimension comes first (the role of an argument is found through the definitions of the
locals it names; see _role).
"""
from __future__ import annotations

import ast

from harness.common import TranslateError, src_text
from translate import c15_norm

ITEM_FUNCS = ('__getitem__', '__setitem__')
WHOLE_READERS = ('bytes', 'len', 'bytearray')


def _err(node, msg):
    raise TranslateError(f'vtf.py line {getattr(node, "lineno", "?")}: {msg}')


def _parents(root: ast.AST) -> dict[ast.AST, ast.AST]:
    par: dict[ast.AST, ast.AST] = {}
    for n in ast.walk(root):
        for c in ast.iter_child_nodes(n):
            par[c] = n
    return par


def _dim(node: ast.expr | None, subj: str) -> str:
    """classify an expression as a dimension of the frame `subj`"""
    if node is None:
        return 'DForeign'
    s = ast.unparse(node)
    if s == f'{subj}.width':
        return 'DW'
    if s == f'{subj}.height':
        return 'DH'
    if isinstance(node, ast.Constant) and type(node.value) is int and node.value >= 0:
        return f'(DK {node.value})'
    return 'DForeign'


def _factors(node: ast.expr, subj: str) -> list[str]:
    if isinstance(node, ast.BinOp) and isinstance(node.op, ast.Mult):
        return _factors(node.left, subj) + _factors(node.right, subj)
    return [_dim(node, subj)]


def _bind(call: ast.Call, params: list[str], what: str) -> dict[str, ast.expr]:
    """arguments of a call by parameter name"""
    if any(isinstance(a, ast.Starred) for a in call.args) or any(k.arg is None for k in call.keywords):
        _err(call, f'{what}: * / ** arguments')
    if len(call.args) > len(params):
        _err(call, f'{what}: too many arguments')
    out = dict(zip(params, call.args))
    for k in call.keywords:
        if k.arg not in params or k.arg in out:
            _err(call, f'{what}: keyword {k.arg}')
        out[k.arg] = k.value
    return out


def _flat_tuple(node: ast.expr) -> list[ast.expr] | None:
    """elements of a tuple / list display, `*(<display>)` flattened"""
    if not isinstance(node, (ast.Tuple, ast.List)):
        return None
    out: list[ast.expr] = []
    for e in node.elts:
        if isinstance(e, ast.Starred):
            inner = _flat_tuple(e.value)
            if inner is None:
                return None
            out += inner
        else:
            out.append(e)
    return out


def _rw_signatures() -> tuple[dict[str, list[str]], tuple[str, str]]:
    """parameter lists of the functions of _py_vtf_readwrite.py, and which parameters of ppm_convert the PPM header
    names as (columns, rows)"""
    tree = ast.parse(src_text('_py_vtf_readwrite.py'))
    sigs: dict[str, list[str]] = {}
    fns: dict[str, ast.FunctionDef] = {}
    for n in tree.body:
        if isinstance(n, ast.FunctionDef):
            if n.args.vararg or n.args.kwarg or n.args.posonlyargs:
                continue
            sigs[n.name] = [a.arg for a in n.args.args + n.args.kwonlyargs]
            fns[n.name] = n
    header = None
    if 'ppm_convert' in fns:
        fn = fns['ppm_convert']
        stores = {x.id for n in ast.walk(fn) for x in ast.walk(n) if isinstance(x, ast.Name) and isinstance(x.ctx, ast.Store)}
        for n in ast.walk(fn):
            if isinstance(n, ast.BinOp) and isinstance(n.op, ast.Mod) and isinstance(n.left, ast.Constant) and isinstance(n.left.value, bytes) \
                    and n.left.value.startswith(b'P6'):
                if n.left.value.split() != [b'P6', b'%i', b'%i', b'255'] and n.left.value.split() != [b'P6', b'%d', b'%d', b'255']:
                    raise TranslateError(f'_py_vtf_readwrite.py line {n.lineno}: PPM header format changed: {n.left.value!r}')
                elts = _flat_tuple(n.right)
                if elts is None or len(elts) != 2 or not all(isinstance(e, ast.Name) for e in elts):
                    raise TranslateError(f'_py_vtf_readwrite.py line {n.lineno}: PPM header values not understood')
                a, b = elts[0].id, elts[1].id
                if a in stores or b in stores or a not in sigs['ppm_convert'] or b not in sigs['ppm_convert']:
                    raise TranslateError(f'_py_vtf_readwrite.py line {n.lineno}: PPM header values are not parameters of ppm_convert')
                if header is not None:
                    raise TranslateError('_py_vtf_readwrite.py: two PPM headers in ppm_convert')
                header = (a, b)
        if header is None:
            raise TranslateError('_py_vtf_readwrite.py: PPM header of ppm_convert not found')
    return sigs, header


def _array_len(node: ast.expr, fn: ast.AST, tree: ast.Module) -> int | None:
    """number of elements of `array('B', [...])`, directly or through a module-level / local name bound once"""
    if isinstance(node, ast.Call) and ast.unparse(node.func) in ('array', 'array.array') and len(node.args) == 2 \
            and isinstance(node.args[0], ast.Constant) and node.args[0].value == 'B' and isinstance(node.args[1], (ast.List, ast.Tuple)) \
            and not any(isinstance(e, ast.Starred) for e in node.args[1].elts):
        return len(node.args[1].elts)
    if isinstance(node, ast.Name):
        defs = [st for scope in (fn, tree) for st in (ast.walk(scope) if scope is fn else scope.body)
                if isinstance(st, ast.Assign) and any(isinstance(t, ast.Name) and t.id == node.id for t in st.targets)]
        if len(defs) == 1:
            return _array_len(defs[0].value, fn, tree) if not isinstance(defs[0].value, ast.Name) else None
    return None


def _neq_atoms(test: ast.expr, neg: bool, names: dict[str, str], node) -> list[tuple[str, str]]:
    """a size test as a disjunction of `A != B` over the four named quantities; fail closed otherwise"""
    if isinstance(test, ast.UnaryOp) and isinstance(test.op, ast.Not):
        return _neq_atoms(test.operand, not neg, names, node)
    if isinstance(test, ast.BoolOp):
        if isinstance(test.op, ast.Or) == neg:
            _err(node, 'size test of the frame copy is not a disjunction of inequalities')
        out = []
        for v in test.values:
            out += _neq_atoms(v, neg, names, node)
        return out
    if isinstance(test, ast.Compare):
        parts = [test.left, *test.comparators]
        out = []
        for a, op, b in zip(parts, test.ops, parts[1:]):
            want = ast.Eq if neg else ast.NotEq
            if not isinstance(op, want):
                _err(node, f'size test of the frame copy: comparison {ast.unparse(test)}')
            if isinstance(a, ast.Tuple) and isinstance(b, ast.Tuple) and len(a.elts) == len(b.elts):
                pairs = list(zip(a.elts, b.elts))       # (w, h) != (w', h')  is  w != w' or h != h'
            else:
                pairs = [(a, b)]
            for u, v in pairs:
                su, sv = ast.unparse(u), ast.unparse(v)
                if su not in names or sv not in names:
                    _err(node, f'size test of the frame copy compares something else: {ast.unparse(test)}')
                out.append((names[su], names[sv]))
        if len(test.ops) > 1 and not neg:
            _err(node, 'chained comparison in the size test')
        return out
    _err(node, f'size test of the frame copy not understood: {ast.unparse(test)}')


# ------------------------------------------------------------------------------------------------ (width, height) pairs
def _role(node: ast.expr | None, fn: ast.FunctionDef, depth: int = 0) -> str:
    """Which dimension an expression derives from: 'W', 'H', 'K<n>' (literal), 'N' (neither), '?' (both / unknown).
    Attributes `.width` / `.height` and names that cannot be resolved further (parameters, targets of an unpacking, loop
    variables: names fixed by the API or by the container translator) are classified by their name; a local bound by one
    plain assignment is classified by the expression it names (`>>=`-style updates keep the role)."""
    if node is None or depth > 6:
        return '?'
    if isinstance(node, ast.Constant):
        return f'K{node.value}' if type(node.value) is int else 'N'
    if isinstance(node, ast.Attribute):
        return 'W' if node.attr == 'width' else 'H' if node.attr == 'height' else 'N'
    if isinstance(node, ast.Name):
        defs = [st for st in ast.walk(fn) if isinstance(st, ast.Assign) and any(isinstance(t, ast.Name) and t.id == node.id for t in st.targets)]
        if len(defs) == 1 and not any(isinstance(n, ast.Name) and n.id == node.id for n in ast.walk(defs[0].value)):
            return _role(defs[0].value, fn, depth + 1)
        low = node.id.lower()
        w, h = 'width' in low, 'height' in low
        return 'W' if w and not h else 'H' if h and not w else '?' if w and h else 'N'
    if isinstance(node, ast.BinOp):
        return _combine([_role(node.left, fn, depth + 1), _role(node.right, fn, depth + 1)])
    if isinstance(node, ast.Call) and isinstance(node.func, ast.Name) and node.func.id in ('max', 'min', 'int', 'abs') and not node.keywords:
        return _combine([_role(a, fn, depth + 1) for a in node.args])
    if isinstance(node, ast.UnaryOp):
        return _role(node.operand, fn, depth + 1)
    return '?'


def _combine(rs: list[str]) -> str:
    if '?' in rs:
        return '?'
    dims = {r for r in rs if r in ('W', 'H')}
    if len(dims) > 1:
        return '?'
    if dims:
        return dims.pop()
    ks = [r for r in rs if r.startswith('K')]
    return 'N' if not ks or len(rs) > 1 else ks[0]


def _role_dim(r: str) -> str:
    return {'W': 'DW', 'H': 'DH'}.get(r, f'(DK {r[1:]})' if r.startswith('K') and r[1:].isdigit() else 'DForeign')


def _pair_sites(funcs) -> list[tuple[str, str, str, str]]:
    """every call Frame(a, b) / <fmt>.frame_size(a, b) / wx-free constructor of a sized object in vtf.py, and the stores
    of Frame.__init__: which dimension is passed first"""
    out: list[tuple[str, str, str, str]] = []
    for qual, fn in funcs:
        k = 0
        for c in ast.walk(fn):
            if not isinstance(c, ast.Call):
                continue
            f = c.func
            what = 'Frame' if isinstance(f, ast.Name) and f.id == 'Frame' else \
                   'frame_size' if isinstance(f, ast.Attribute) and f.attr == 'frame_size' else None
            if what is None:
                continue
            b = _bind(c, ['width', 'height'], what)
            ra, rb = _role(b.get('width'), fn), _role(b.get('height'), fn)
            if ra.startswith('K') and ra == rb:
                continue                # a literal square: the order cannot matter
            k += 1
            out.append((f'{qual}: {what}(columns, rows) #{k}', _role_dim(rb), _role_dim(ra), '(DK 4)'))
        if qual == 'Frame.__init__':
            params = [a.arg for a in fn.args.args][1:]
            if len(params) != 2:
                _err(fn, 'Frame.__init__ no longer takes (width, height)')
            stores = {st.targets[0].attr: st.value for st in ast.walk(fn) if isinstance(st, ast.Assign) and len(st.targets) == 1
                      and isinstance(st.targets[0], ast.Attribute) and ast.unparse(st.targets[0].value) == 'self'}
            def which(v):
                return params.index(v.id) if isinstance(v, ast.Name) and v.id in params else None
            cols = 'DW' if which(stores.get('width')) == 0 else 'DH' if which(stores.get('height')) == 0 else 'DForeign'
            rows = 'DH' if which(stores.get('height')) == 1 else 'DW' if which(stores.get('width')) == 1 else 'DForeign'
            out.append(('Frame.__init__: first argument stored as width, second as height', rows, cols, '(DK 4)'))
    return out


# ------------------------------------------------------------------------------------------------ frame table keys
def _krole(node: ast.expr, fn: ast.FunctionDef, pos: int, depth: int = 0) -> str:
    """role of one element of a key of `_frames`: KFrame / KSide / KMip / KOther.  A literal is neutral (level 0, side 0): it
    gets the role of its position.  A name gets the role of the loop that binds it (by what the loop iterates over), of the
    parameter it is (frame / side, depth / mipmap: the keyword API of VTF.get), of the position it is unpacked from when it
    comes from `_frames.items()`, or of the expressions assigned to it (all must agree)."""
    want = ('KFrame', 'KSide', 'KMip')[pos]
    if depth > 5:
        return 'KOther'
    if isinstance(node, ast.Constant) and type(node.value) is int:
        return want
    if isinstance(node, ast.BinOp) and isinstance(node.op, (ast.Add, ast.Sub)):
        sides = [x for x in (node.left, node.right) if not isinstance(x, ast.Constant)]
        return _krole(sides[0], fn, pos, depth + 1) if len(sides) == 1 else 'KOther'
    if not isinstance(node, ast.Name):
        return 'KOther'
    name = node.id

    def by_text(t: str) -> str | None:
        t = t.lower()
        if 'depth_seq' in t or '_depth_range' in t or 'cubeside' in t or 'side' in t or 'depth' in t or 'cube' in t:
            return 'KSide'
        if 'mip' in t or 'itertools.count' in t:
            return 'KMip'
        if 'frame' in t:
            return 'KFrame'
        return None
    for st in ast.walk(fn):
        if isinstance(st, ast.For):
            if isinstance(st.target, ast.Name) and st.target.id == name:
                return by_text(ast.unparse(st.iter)) or 'KOther'
            # for (a, b, c), frame in X._frames.items()
            if isinstance(st.target, ast.Tuple) and st.target.elts and isinstance(st.target.elts[0], ast.Tuple) \
                    and ast.unparse(st.iter).endswith('._frames.items()'):
                for i, e in enumerate(st.target.elts[0].elts):
                    if isinstance(e, ast.Name) and e.id == name and i < 3:
                        return ('KFrame', 'KSide', 'KMip')[i]
    params = [a.arg for a in fn.args.args + fn.args.kwonlyargs]
    if name in params:
        return {'frame': 'KFrame', 'mipmap': 'KMip', 'side': 'KSide', 'depth': 'KSide'}.get(name, by_text(name) or 'KOther')
    vals = [st.value for st in ast.walk(fn) if isinstance(st, ast.Assign) and any(isinstance(t, ast.Name) and t.id == name for t in st.targets)]
    if vals:
        roles = {_krole(v, fn, pos, depth + 1) for v in vals}
        return roles.pop() if len(roles) == 1 else 'KOther'
    return by_text(name) or 'KOther'


def _key_sites(funcs) -> list[tuple[str, list[str]]]:
    out: list[tuple[str, list[str]]] = []
    for qual, fn in funcs:
        k = 0
        for n in ast.walk(fn):
            if isinstance(n, ast.Subscript) and isinstance(n.value, ast.Attribute) and n.value.attr == '_frames':
                elts = _flat_tuple(n.slice)
                if elts is None or len(elts) != 3:
                    _err(n, f'{qual}: the frame table is addressed with something that is not a (frame, side, mipmap) triple: {ast.unparse(n.slice)[:50]}')
                k += 1
                out.append((f'{qual}: _frames[{", ".join(ast.unparse(e) for e in elts)}]' + (f' #{k}' if k > 1 else ''),
                            [_krole(e, fn, i) for i, e in enumerate(elts)]))
    return out


def _clear_after(funcs) -> str:
    """VTF.clear_mipmaps: the comparison `<mipmap level> OP after` that guards frame.clear(), as a VtfLayout cmp"""
    from translate.c15_pixel import CMP, NEG, FLIP
    fn = next((f for q, f in funcs if q == 'VTF.clear_mipmaps'), None)
    if fn is None:
        raise TranslateError('vtf.py: VTF.clear_mipmaps not found')
    if 'after' not in [a.arg for a in fn.args.args + fn.args.kwonlyargs]:
        _err(fn, 'clear_mipmaps: parameter `after` not found')
    found = []
    for st in ast.walk(fn):
        if isinstance(st, ast.If) and any(isinstance(c, ast.Call) and isinstance(c.func, ast.Attribute) and c.func.attr == 'clear' for b in st.body for c in ast.walk(b)):
            test, neg = st.test, False
            while isinstance(test, ast.UnaryOp) and isinstance(test.op, ast.Not):
                test, neg = test.operand, not neg
            if st.orelse or not (isinstance(test, ast.Compare) and len(test.ops) == 1 and type(test.ops[0]) in CMP):
                _err(st, f'clear_mipmaps: guard of clear() not understood: {ast.unparse(st.test)}')
            a, b = test.left, test.comparators[0]
            c = CMP[type(test.ops[0])]
            if neg:
                c = NEG[c]
            if isinstance(b, ast.Name) and b.id == 'after' and _krole(a, fn, 2) == 'KMip':
                found.append(c)
            elif isinstance(a, ast.Name) and a.id == 'after' and _krole(b, fn, 2) == 'KMip':
                found.append(FLIP[c])
            else:
                _err(st, f'clear_mipmaps: guard of clear() does not compare the level with `after`: {ast.unparse(st.test)}')
    if len(found) != 1:
        _err(fn, f'clear_mipmaps: {len(found)} guarded clear() calls')
    return found[0]


def access_info() -> dict:
    tree = c15_norm.normalised_tree(src_text('vtf.py'))
    sigs, ppm_header = _rw_signatures()
    paths: list[tuple[str, str, str, str]] = []          # (name, rows, cols, chan)
    allocs: list[tuple[str, list[str]]] = []
    guards: list[tuple[str, list[tuple[str, str]]]] = []
    census: list[tuple[str, str]] = []
    seen_calls: set[int] = set()

    funcs: list[tuple[str, ast.FunctionDef]] = []
    for top in tree.body:
        if isinstance(top, ast.ClassDef):
            for m in top.body:
                if isinstance(m, ast.FunctionDef) and not any(isinstance(d, ast.Name) and d.id == 'overload' for d in m.decorator_list):
                    funcs.append((f'{top.name}.{m.name}', m))
        elif isinstance(top, ast.FunctionDef):
            funcs.append((top.name, top))
    # `_data` outside any function (class bodies: annotations and __slots__ strings are not Attribute nodes)
    in_funcs = {id(n) for _, fn in funcs for n in ast.walk(fn)}
    for n in ast.walk(tree):
        if isinstance(n, ast.Attribute) and n.attr == '_data' and id(n) not in in_funcs:
            _err(n, 'pixel array used outside a function')

    def add_path(qual: str, site: str, rows: str, cols: str, chan: str, node) -> None:
        k = sum(1 for p in paths if p[0].startswith(f'{qual}: {site}'))
        paths.append((f'{qual}: {site}' + (f' #{k + 1}' if k else ''), rows, cols, chan))

    for qual, fn in funcs:
        par = _parents(fn)
        short = qual.split('.')[-1]

        def wx_sizes() -> list[tuple[str, ast.Call]]:
            return [(ast.unparse(c.func), c) for c in ast.walk(fn) if isinstance(c, ast.Call)
                    and ast.unparse(c.func) in ('wx.Image', 'wx.Bitmap', 'wx.EmptyImage', 'wx.EmptyBitmap')]

        def handle_call(call: ast.Call, node: ast.Attribute, subj: str) -> None:
            """`subj._data` (node) is an argument of call"""
            fname = ast.unparse(call.func)
            if fname.startswith('_format_funcs.'):
                name = fname.split('.', 1)[1]
                if name not in sigs:
                    _err(call, f'{qual}: unknown function {fname}')
                b = _bind(call, sigs[name], fname)
                mine = [p for p, a in b.items() if a is node]
                if len(mine) != 1:
                    _err(call, f'{qual}: pixel array is not a plain argument of {fname}')
                role = mine[0]
                if name in ('load', 'save', 'ppm_convert', 'alpha_flatten'):
                    if role != 'pixels' or 'width' not in sigs[name] or 'height' not in sigs[name]:
                        _err(call, f'{qual}: {fname}: pixel array passed as {role!r}')
                    if name == 'ppm_convert':
                        cols, rows = _dim(b.get(ppm_header[0]), subj), _dim(b.get(ppm_header[1]), subj)
                        add_path(qual, 'PPM header of ppm_convert (columns, rows)', rows, cols, '(DK 4)', call)
                    add_path(qual, f'{fname}(pixels, width, height)', _dim(b.get('height'), subj), _dim(b.get('width'), subj), '(DK 4)', call)
                    if name == 'alpha_flatten':
                        ws = wx_sizes()
                        if not ws:
                            _err(call, f'{qual}: alpha_flatten without a wx image of a known size')
                        for wname, wc in ws:
                            wb = _bind(wc, ['width', 'height'], wname)
                            add_path(qual, f'{wname}(columns, rows)', _dim(wb.get('height'), subj), _dim(wb.get('width'), subj), '(DK 4)', wc)
                elif name == 'scale_down':
                    need = {'src': ('src_width', 'src_height'), 'dest': ('width', 'height')}
                    if role not in need or any(p not in sigs[name] for pr in need.values() for p in pr):
                        _err(call, f'{qual}: scale_down: pixel array passed as {role!r}')
                    pw, ph = need[role]
                    add_path(qual, f'{fname}: {role} array with ({pw}, {ph})', _dim(b.get(ph), subj), _dim(b.get(pw), subj), '(DK 4)', call)
                else:
                    _err(call, f'{qual}: pixel array handed to {fname}, which has no model')
                return
            if fname in ('frombuffer', 'Image.frombuffer', 'PIL.Image.frombuffer'):
                b = _bind(call, ['mode', 'size', 'data', 'decoder_name', 'rawmode', 'stride', 'orientation'], fname)
                if b.get('data') is not node:
                    _err(call, f'{qual}: frombuffer: pixel array is not the data argument')
                consts = {k: (v.value if isinstance(v, ast.Constant) else None) for k, v in b.items() if k not in ('size', 'data')}
                if consts.get('mode') != 'RGBA' or consts.get('decoder_name') != 'raw' or consts.get('rawmode') != 'RGBA' \
                        or consts.get('stride') != 0 or consts.get('orientation') != 1:
                    _err(call, f'{qual}: frombuffer: only (RGBA, raw, RGBA, stride 0, orientation 1) is modelled: {consts}')
                size = _flat_tuple(b['size']) if 'size' in b else None
                if size is None or len(size) != 2:
                    _err(call, f'{qual}: frombuffer: size is not a pair')
                add_path(qual, 'PIL frombuffer size (columns, rows)', _dim(size[1], subj), _dim(size[0], subj), '(DK 4)', call)
                return
            if fname == 'memoryview' and len(call.args) == 1 and not call.keywords:
                p1 = par.get(call)
                p2 = par.get(p1) if p1 is not None else None
                if isinstance(p1, ast.Assign) and p1.value is call and len(p1.targets) == 1 and isinstance(p1.targets[0], ast.Name):
                    # a local names the flat view: every use of it must be `<local>.cast(format, shape)` / `.release()`
                    v = p1.targets[0].id
                    if sum(1 for n in ast.walk(fn) if isinstance(n, ast.Name) and n.id == v and isinstance(n.ctx, ast.Store)) != 1:
                        _err(call, f'{qual}: the view of the pixel array is rebound')
                    uses = [n for n in ast.walk(fn) if isinstance(n, ast.Name) and n.id == v and isinstance(n.ctx, ast.Load)]
                    casts = []
                    for u in uses:
                        a1 = par.get(u)
                        a2 = par.get(a1) if a1 is not None else None
                        if isinstance(a1, ast.Attribute) and a1.value is u and isinstance(a2, ast.Call) and a2.func is a1 and a1.attr in ('cast', 'release'):
                            if a1.attr == 'cast':
                                casts.append((a1, a2))
                        else:
                            _err(u, f'{qual}: flat view of the pixel array used as {ast.unparse(a1)[:50] if a1 is not None else "?"}')
                    if len(casts) != 1:
                        _err(call, f'{qual}: flat view of the pixel array is cast {len(casts)} times')
                    p1, p2 = casts[0]
                if isinstance(p1, ast.Attribute) and p1.attr == 'cast' and isinstance(p2, ast.Call) and p2.func is p1:
                    b = _bind(p2, ['format', 'shape'], 'memoryview.cast')
                    f = b.get('format')
                    if not (isinstance(f, ast.Constant) and f.value in ('B', 'b', 'c', '@B', '@b', '@c')):
                        _err(p2, f'{qual}: memoryview.cast: element format is not one byte')
                    shape = _flat_tuple(b['shape']) if 'shape' in b else None
                    if shape is None:
                        _err(p2, f'{qual}: memoryview.cast without a literal shape: a flat view has no address map')
                    if len(shape) != 3:
                        _err(p2, f'{qual}: memoryview.cast: shape is not (rows, columns, bytes per pixel): {ast.unparse(b["shape"])}')
                    add_path(qual, 'memoryview.cast shape (rows, columns, bytes)', _dim(shape[0], subj), _dim(shape[1], subj), _dim(shape[2], subj), p2)
                    return
                _err(call, f'{qual}: flat memoryview of the pixel array handed out')
            if fname in WHOLE_READERS:
                census.append((qual, 'whole-read'))
                return
            _err(call, f'{qual}: pixel array handed to {fname}, which has no model')

        for node in ast.walk(fn):
            if not (isinstance(node, ast.Attribute) and node.attr == '_data'):
                continue
            subj = ast.unparse(node.value)
            p = par.get(node)
            # ---- stores
            if isinstance(node.ctx, ast.Store):
                st = p
                while st is not None and not isinstance(st, (ast.Assign, ast.AnnAssign)):
                    if not isinstance(st, (ast.Tuple, ast.List)):
                        _err(node, f'{qual}: store to the pixel array not understood')
                    st = par.get(st)
                if st is None or (isinstance(st, ast.Assign) and any(isinstance(t, (ast.Tuple, ast.List)) for t in st.targets)):
                    _err(node, f'{qual}: store to the pixel array not understood')
                v = st.value
                if isinstance(v, ast.Constant) and v.value is None:
                    census.append((qual, 'none'))
                elif isinstance(v, ast.BinOp) and isinstance(v.op, ast.Mult):
                    n_l, n_r = _array_len(v.left, fn, tree), _array_len(v.right, fn, tree)
                    if (n_l is None) == (n_r is None):
                        _err(st, f'{qual}: allocation of the pixel array not understood: {ast.unparse(v)}')
                    n, count = (n_l, v.right) if n_l is not None else (n_r, v.left)
                    allocs.append((f'{qual}: {ast.unparse(v)[:60]}', [f'(DK {n})'] + _factors(count, subj)))
                    census.append((qual, 'alloc'))
                elif isinstance(v, ast.Subscript) and isinstance(v.value, ast.Attribute) and v.value.attr == '_data' \
                        and isinstance(v.slice, ast.Slice) and v.slice.lower is None and v.slice.upper is None and v.slice.step is None:
                    census.append((qual, 'copy'))       # the source side is visited on its own
                else:
                    _err(st, f'{qual}: value stored in the pixel array not understood: {ast.unparse(v)[:60]}')
                continue
            if isinstance(node.ctx, ast.Del):
                _err(node, f'{qual}: del of the pixel array')
            # ---- loads
            if isinstance(p, ast.Compare) and all(isinstance(o, (ast.Is, ast.IsNot)) for o in p.ops) \
                    and all(isinstance(c, ast.Constant) and c.value is None for c in ([p.left] + p.comparators) if c is not node):
                census.append((qual, 'test'))
                continue
            if isinstance(p, ast.Subscript) and p.value is node:
                sl = p.slice
                whole = isinstance(sl, ast.Slice) and sl.lower is None and sl.upper is None and sl.step is None
                if whole:
                    pp = par.get(p)
                    if isinstance(p.ctx, ast.Store):
                        if not (isinstance(pp, ast.Assign) and isinstance(pp.value, ast.Attribute) and pp.value.attr == '_data'):
                            _err(p, f'{qual}: whole-array store from something that is not a pixel array')
                        census.append((qual, 'copy'))
                    else:
                        if not (isinstance(pp, ast.Assign) and pp.value is p and all(isinstance(t, ast.Attribute) and t.attr == '_data' for t in pp.targets)):
                            _err(p, f'{qual}: whole-array read not stored in a pixel array')
                        census.append((qual, 'copy-source'))
                    continue
                if short not in ITEM_FUNCS:
                    _err(p, f'{qual}: indexed access to the pixel array outside {ITEM_FUNCS}')
                census.append((qual, 'item'))
                continue
            if isinstance(p, ast.Assign) and p.value is node:
                if not all(isinstance(t, ast.Subscript) and isinstance(t.value, ast.Attribute) and t.value.attr == '_data' for t in p.targets):
                    _err(p, f'{qual}: pixel array aliased: {ast.unparse(p)[:60]}')
                census.append((qual, 'copy-source'))
                continue
            call = p.value if isinstance(p, ast.keyword) else p
            if isinstance(p, ast.keyword):
                call = par.get(p)
            if isinstance(call, ast.Call) and (node in call.args or any(k.value is node for k in call.keywords)):
                handle_call(call, node, subj)
                census.append((qual, 'call:' + ast.unparse(call.func)))
                continue
            _err(node, f'{qual}: use of the pixel array not understood: {ast.unparse(p)[:70] if p is not None else "?"}')

        # ---- the size test in front of a frame-to-frame copy
        kinds = {k for q, k in census if q == qual}
        if 'copy' in kinds or 'copy-source' in kinds:
            srcs = {ast.unparse(n.value) for n in ast.walk(fn) if isinstance(n, ast.Attribute) and n.attr == '_data'
                    and isinstance(n.ctx, ast.Load) and ast.unparse(n.value) != 'self'
                    and (isinstance(par.get(n), ast.Assign) or (isinstance(par.get(n), ast.Subscript) and isinstance(par.get(par.get(n)), ast.Assign)))}
            if len(srcs) != 1:
                _err(fn, f'{qual}: frame copy from more than one source: {sorted(srcs)}')
            q = srcs.pop()
            names = {'self.width': 'GSelfW', 'self.height': 'GSelfH', f'{q}.width': 'GSrcW', f'{q}.height': 'GSrcH'}
            first_copy = min(c15_norm.seq(n) for n in ast.walk(fn) if isinstance(n, ast.Attribute) and n.attr == '_data'
                             and ast.unparse(n.value) == q and isinstance(par.get(n), (ast.Assign, ast.Subscript)))
            atoms: list[tuple[str, str]] = []
            for st in ast.walk(fn):
                if isinstance(st, ast.If) and len(st.body) == 1 and isinstance(st.body[0], ast.Raise) and not st.orelse \
                        and c15_norm.seq(st) < first_copy and any(s in ast.unparse(st.test) for s in names):
                    atoms += _neq_atoms(st.test, False, names, st)
            guards.append((f'{qual}: copy from {q}', atoms))

    paths += _pair_sites(funcs)
    return {'clear_after': _clear_after(funcs), 'keys': _key_sites(funcs), 'paths': paths, 'allocs': allocs, 'guards': guards, 'census': sorted(set(census)), 'ppm_header': list(ppm_header)}


def _cs(s: str) -> str:
    return '"' + s.replace('"', "'") + '"'


def translate_access() -> tuple[str, dict]:
    info = access_info()
    L = ['(* GENERATED by translate/c15_access.py from src/srctools/vtf.py and _py_vtf_readwrite.py. Do not edit. *)',
         'From Coq Require Import ZArith List Bool String.', 'From SV Require Import Fmt.VtfLayout Fmt.VtfAccess.', 'Import ListNotations.',
         'Open Scope Z_scope.', 'Open Scope string_scope.', '',
         '(* every site that hands a frame\'s pixel array to something with an idea of rows and columns *)',
         'Definition gen_paths : list pathdesc := [']
    L.append(';\n'.join(f'  {{| p_name := {_cs(n)}; p_rows := {r}; p_cols := {c}; p_chan := {k} |}}' for n, r, c, k in info['paths']))
    L.append('].')
    L.append('(* every allocation of a pixel array: elements per pixel and the factors of the pixel count *)')
    L.append('Definition gen_allocs : list (string * list dimt) := [')
    L.append(';\n'.join(f'  ({_cs(n)}, [{"; ".join(fs)}])' for n, fs in info['allocs']))
    L.append('].')
    L.append('(* the size test in front of every frame-to-frame copy of a whole pixel array *)')
    L.append('Definition gen_copy_guards : list (string * list gatom) := [')
    L.append(';\n'.join(f'  ({_cs(n)}, [{"; ".join(f"({a}, {b})" for a, b in atoms)}])' for n, atoms in info['guards']))
    L.append('].')
    L.append('(* VTF.clear_mipmaps: frame.clear() is guarded by `<level> OP after` *)')
    L.append(f'Definition gen_clear_after : cmp := {info["clear_after"]}.')
    L.append('(* every site that addresses the frame table with a key: the role of each element *)')
    L.append('Definition gen_key_sites : list (string * list krole) := [')
    L.append(';\n'.join(f'  ({_cs(n)}, [{"; ".join(rs)}])' for n, rs in info['keys']))
    L.append('].')
    L.append('(* census: (function, kind of use of <frame>._data) *)')
    L.append('Definition gen_data_census : list (string * string) := [')
    L.append(';\n'.join(f'  ({_cs(f)}, {_cs(k)})' for f, k in info['census']))
    L.append('].')
    L.append('')
    return '\n'.join(L), info


GEN = {'VtfAccess_gen': translate_access}
