"""C02/C03 translator: constant tables of srctools/tokenizer.py -> Gen/EscTables_gen.v.

Extracted with Python `ast`, fail-closed (anything not recognised raises TranslateError):

* ``ESCAPES``              dict literal symbol -> character (Python dict semantics for duplicate keys)
* ``ESCAPES_INV``          must be ``{char: f'\\{sym}' for sym, char in ESCAPES.items()}``; the literal prefix of the
                           f-string is emitted (``esc_prefix``), the model requires it to be one backslash
* ``ESCAPE_RE`` / ``ESCAPE_MULTILINE_RE``  must be ``re.compile('|'.join(re.escape(c) for c in ESCAPES_INV if c not in K))``;
                           the exclusion strings K are emitted
* ``_escape_matcher`` / ``escape_text``    must be the table lookup / the ``(A if multiline else B).sub(_escape_matcher, text)``
                           expression; which regex serves which mode is emitted by *name resolution*, so swapping
                           them swaps the generated exclusion sets
* ``BARE_DISALLOWED``      frozenset('...') literal
* ``_OPERATORS``           dict literal character -> Token member
* ``Token``                enum member values, ``has_value`` tuple
* ``Tokenizer.__init__``   default values of the seven boolean options
* digests of the hand-modelled functions (information; a changed digest only escalates budgets)

`str.casefold` (used for DIRECTIVE values) is *not* source: its table is read from the running CPython
(external behaviour, listed in the trusted base) and emitted so that the model is executable on non-ASCII input.
The `.pyx` twin is scanned textually for the ESCAPES-equivalent switch and reported as information only.
"""
from __future__ import annotations

import ast
import copy
import re

from harness.common import TranslateError, ast_digest, src_text

OPTION_NAMES = ['string_bracket', 'string_parens', 'allow_escapes', 'allow_star_comments', 'preserve_comments',
                'colon_operator', 'plus_operator']
HAND_MODELLED = ['_next_char', '_get_token', '_handle_comment', '_handle_string']


def _norm_dump(node: ast.AST) -> str:
    """ast.dump with every bound comprehension variable renamed positionally (refactor-tolerant comparison)."""
    node = ast.parse(ast.unparse(node), mode='eval').body
    names: dict[str, str] = {}
    for n in ast.walk(node):
        if isinstance(n, ast.comprehension):
            for t in ast.walk(n.target):
                if isinstance(t, ast.Name):
                    names.setdefault(t.id, f'v{len(names)}')
    for n in ast.walk(node):
        if isinstance(n, ast.Name) and n.id in names:
            n.id = names[n.id]
    return ast.dump(node, include_attributes=False)


def _expect(node: ast.AST, template: str, what: str, line: int) -> None:
    want = _norm_dump(ast.parse(template, mode='eval').body)
    got = _norm_dump(node)
    if want != got:
        raise TranslateError(f'tokenizer.py:{line}: {what} is not of the recognised form `{template}`; found `{ast.unparse(node)}`')


def _char(node: ast.AST, what: str) -> int:
    if not (isinstance(node, ast.Constant) and isinstance(node.value, str) and len(node.value) == 1):
        raise TranslateError(f'tokenizer.py:{getattr(node, "lineno", "?")}: {what}: expected a one-character string literal')
    return ord(node.value)


def _top_assign(tree: ast.Module, name: str) -> ast.expr:
    found = None
    for n in tree.body:
        if isinstance(n, ast.Assign) and len(n.targets) == 1 and isinstance(n.targets[0], ast.Name) and n.targets[0].id == name:
            if found is not None:
                raise TranslateError(f'{name} assigned twice at module level')
            found = n.value
        elif isinstance(n, ast.AnnAssign) and isinstance(n.target, ast.Name) and n.target.id == name and n.value is not None:
            if found is not None:
                raise TranslateError(f'{name} assigned twice at module level')
            found = n.value
    if found is None:
        raise TranslateError(f'module-level assignment of {name} not found')
    # nobody else may rebind or mutate it
    for n in ast.walk(tree):
        if isinstance(n, (ast.Subscript, ast.Attribute)) and isinstance(getattr(n, 'ctx', None), (ast.Store, ast.Del)):
            base = n.value
            if isinstance(base, ast.Name) and base.id == name:
                raise TranslateError(f'tokenizer.py:{n.lineno}: {name} is mutated after its definition')
        if isinstance(n, ast.Call) and isinstance(n.func, ast.Attribute) and isinstance(n.func.value, ast.Name) \
                and n.func.value.id == name and n.func.attr in ('update', 'pop', 'clear', 'setdefault', 'popitem', '__setitem__', 'add', 'remove', 'discard'):
            raise TranslateError(f'tokenizer.py:{n.lineno}: {name} is mutated by .{n.func.attr}()')
    return found


def _func(tree: ast.AST, name: str) -> ast.FunctionDef:
    for n in ast.walk(tree):
        if isinstance(n, ast.FunctionDef) and n.name == name:
            return n
    raise TranslateError(f'function {name} not found')


def _strip_doc(f: ast.FunctionDef) -> list[ast.stmt]:
    body = list(f.body)
    if body and isinstance(body[0], ast.Expr) and isinstance(body[0].value, ast.Constant) and isinstance(body[0].value.value, str):
        body = body[1:]
    return body


class _Subst(ast.NodeTransformer):
    def __init__(self, env: dict[str, ast.expr]) -> None:
        self.env = env

    def visit_Name(self, node: ast.Name) -> ast.AST:
        if isinstance(node.ctx, ast.Load) and node.id in self.env:
            return copy.deepcopy(self.env[node.id])
        return node


def _bound_names(node: ast.AST) -> set[str]:
    """Names bound inside an expression (comprehension targets, lambda parameters, walrus targets)."""
    out: set[str] = set()
    for n in ast.walk(node):
        if isinstance(n, ast.comprehension):
            out |= {t.id for t in ast.walk(n.target) if isinstance(t, ast.Name)}
        elif isinstance(n, ast.Lambda):
            out |= {a.arg for a in n.args.args + n.args.kwonlyargs + n.args.posonlyargs}
        elif isinstance(n, ast.NamedExpr):
            out.add(n.target.id)
    return out


def _module_funcs(tree: ast.Module) -> dict[str, ast.FunctionDef]:
    seen: dict[str, int] = {}
    out: dict[str, ast.FunctionDef] = {}
    for n in tree.body:
        if isinstance(n, ast.FunctionDef):
            seen[n.name] = seen.get(n.name, 0) + 1
            out[n.name] = n
    return {k: v for k, v in out.items() if seen[k] == 1 and not v.decorator_list}


def _function_as_expr(f: ast.FunctionDef) -> ast.expr | None:
    """The value a *straight-line* helper returns, as one expression over its parameters: a body of single-target local
    assignments followed by `return <expr>`; every local is inlined (each right-hand side is evaluated once and has no side
    effect in the expressions handled here).  None if the body has any other shape."""
    env: dict[str, ast.expr] = {}
    params = {a.arg for a in f.args.args + f.args.kwonlyargs + f.args.posonlyargs}
    body = _strip_doc(f)
    for st in body[:-1]:
        if isinstance(st, ast.AnnAssign) and isinstance(st.target, ast.Name) and st.value is not None:
            tgt, val = st.target.id, st.value
        elif isinstance(st, ast.Assign) and len(st.targets) == 1 and isinstance(st.targets[0], ast.Name):
            tgt, val = st.targets[0].id, st.value
        else:
            return None
        if tgt in params or tgt in _bound_names(val):
            return None
        env[tgt] = _Subst(env).visit(copy.deepcopy(val))
    if not body or not isinstance(body[-1], ast.Return) or body[-1].value is None:
        return None
    ret = body[-1].value
    if _bound_names(ret) & (set(env) | params):
        return None
    return _Subst(env).visit(copy.deepcopy(ret))


def _resolve(tree: ast.Module, node: ast.expr, depth: int = 0) -> ast.expr:
    """Semantic normalisation of a module-level expression before it is matched against a recognised form:

    * a call `f(args)` of a function defined once at module level, undecorated, whose body is straight-line (local assignments,
      then `return <expr>`) is replaced by that expression with the parameters substituted (positional, keyword and default
      arguments; arguments must themselves be literals or resolvable names, so that evaluating them twice or never is harmless);
    * a name bound once at module level to a string literal (a hoisted constant) is replaced by the literal.

    Anything else is left as it is, so the caller's matcher stays fail-closed."""
    if depth > 8:
        raise TranslateError(f'tokenizer.py:{getattr(node, "lineno", "?")}: helper functions nested too deeply')
    funcs = _module_funcs(tree)
    bound = _bound_names(node)

    class R(ast.NodeTransformer):
        def visit_Call(self, n: ast.Call) -> ast.AST:
            self.generic_visit(n)
            if isinstance(n.func, ast.Name) and n.func.id in funcs:
                f = funcs[n.func.id]
                a = f.args
                if a.vararg or a.kwarg or any(isinstance(x, ast.Starred) for x in n.args) or any(k.arg is None for k in n.keywords):
                    return n
                body = _function_as_expr(f)
                if body is None:
                    return n
                pos = a.posonlyargs + a.args
                env: dict[str, ast.expr] = {}
                if len(n.args) > len(pos):
                    return n
                for p, v in zip(pos, n.args):
                    env[p.arg] = v
                for k in n.keywords:
                    if k.arg in env or k.arg not in {x.arg for x in a.args + a.kwonlyargs}:
                        return n
                    env[k.arg] = k.value
                for p, d in zip(reversed(pos), reversed(a.defaults)):
                    env.setdefault(p.arg, d)
                for p, d in zip(a.kwonlyargs, a.kw_defaults):
                    if d is not None:
                        env.setdefault(p.arg, d)
                if set(env) != {x.arg for x in pos + a.kwonlyargs}:
                    return n
                if not all(isinstance(v, (ast.Constant, ast.Name)) for v in env.values()):
                    return n
                if _bound_names(body) & set(env):
                    return n
                return _resolve(tree, _Subst(env).visit(body), depth + 1)
            return n

        def visit_Name(self, n: ast.Name) -> ast.AST:
            if isinstance(n.ctx, ast.Load) and n.id not in bound and n.id not in ('ESCAPES', 'ESCAPES_INV'):
                try:
                    v = _top_assign(tree, n.id)
                except TranslateError:
                    return n
                if isinstance(v, ast.Constant) and isinstance(v.value, str):
                    return ast.copy_location(ast.Constant(value=v.value), n)
                if isinstance(v, (ast.Call, ast.BinOp, ast.JoinedStr)) and not (_bound_names(v) & bound):
                    # a hoisted intermediate value (`_PATTERN = '|'.join(...)`): pure expressions of literals and of the tables
                    return _resolve(tree, v, depth + 1)
            return n

        def visit_BinOp(self, n: ast.BinOp) -> ast.AST:
            self.generic_visit(n)
            if isinstance(n.op, ast.Add) and all(isinstance(x, ast.Constant) and isinstance(x.value, str) for x in (n.left, n.right)):
                return ast.copy_location(ast.Constant(value=n.left.value + n.right.value), n)
            return n

    out = R().visit(copy.deepcopy(node))
    return ast.fix_missing_locations(out)


_RE_ESC = {'r': '\r', 'n': '\n', 't': '\t', 'v': '\v', 'f': '\f', 'a': '\a'}


def _regex_atom(pat: str, i: int, name: str) -> tuple[str, int]:
    """One regex atom that matches exactly one fixed character, at pat[i:]: a literal, an escaped punctuation character (what
    re.escape produces), or one of the control escapes \\r \\n \\t \\v \\f \\a.  Anything else (classes, \\b, \\d, groups ...) fails closed."""
    if i >= len(pat):
        raise TranslateError(f'{name}: regex alternative `{pat!r}` ends where a character is expected')
    c = pat[i]
    if c == '\\':
        if i + 1 >= len(pat):
            raise TranslateError(f'{name}: regex alternative `{pat!r}` ends in a backslash')
        d = pat[i + 1]
        if d in _RE_ESC:
            return _RE_ESC[d], i + 2
        if not d.isalnum() and d != '_':
            return d, i + 2
        raise TranslateError(f'{name}: regex escape `\\{d}` in `{pat!r}` is not modelled')
    if c in '.^$*+?{}[]|()':
        raise TranslateError(f'{name}: regex alternative `{pat!r}` is not a single character (optionally with a look-ahead)')
    return c, i + 1


def _regex_alternative(pat: str, name: str) -> tuple[str, str | None]:
    """A literal alternative of the table regex: `X` -> (X, None); `X(?!Y)` -> (X, Y) (X not followed by Y).  Cross-checked with
    the running `re`."""
    x, i = _regex_atom(pat, 0, name)
    if i == len(pat):
        y = None
    elif pat.startswith('(?!', i) and pat.endswith(')'):
        y, j = _regex_atom(pat, i + 3, name)
        if j != len(pat) - 1:
            raise TranslateError(f'{name}: look-ahead in `{pat!r}` is not a single character')
    else:
        raise TranslateError(f'{name}: regex alternative `{pat!r}` is not a single character (optionally with a negative look-ahead for one character)')
    try:
        other = 'x' if y != 'x' else 'z'
        ok = re.fullmatch(pat, x) is not None and re.match(pat, x + other) is not None and (y is None) == (re.match(pat, x + (y or other)) is not None)
    except re.error as e:
        raise TranslateError(f'{name}: `{pat!r}` is not a regex: {e}')
    if not ok:
        raise TranslateError(f'{name}: the running `re` does not read `{pat!r}` as the translator does')
    return x, y


def _regex_table(node: ast.expr, name: str, domain: list[str]) -> tuple[str, list[tuple[str, str]]]:
    """`re.compile('|'.join(<alt> for c in ESCAPES_INV [if c not in K]))` -> (K, look-aheads).  `<alt>` is `re.escape(c)`, or a
    conditional expression on `c` (`c == 'X'`, `c != 'X'`, `c in 'XY'`, `c not in 'XY'`) whose branches are `<alt>` or a string
    literal that is a single-character regex for the one character the branch is taken for, optionally with a negative look-ahead
    for one character (`'\\r(?!\\n)' if c == '\\r' else re.escape(c)`): the pair (X, Y) says "X is matched unless Y follows".
    `domain`: the keys of ESCAPES_INV in order."""
    bad = TranslateError(f'{name}: unrecognised regex construction `{ast.unparse(node)}`')
    if not (isinstance(node, ast.Call) and ast.unparse(node.func) == 're.compile' and len(node.args) == 1 and not node.keywords):
        raise bad
    j = node.args[0]
    if not (isinstance(j, ast.Call) and isinstance(j.func, ast.Attribute) and j.func.attr == 'join' and isinstance(j.func.value, ast.Constant)
            and j.func.value.value == '|' and len(j.args) == 1 and not j.keywords and isinstance(j.args[0], (ast.GeneratorExp, ast.ListComp))
            and len(j.args[0].generators) == 1):
        raise bad
    comp = j.args[0].generators[0]
    if comp.is_async or not isinstance(comp.target, ast.Name) or not (isinstance(comp.iter, ast.Name) and comp.iter.id == 'ESCAPES_INV'):
        raise bad
    v = comp.target.id

    def chars_of(n: ast.expr) -> set[str]:
        if isinstance(n, ast.Constant) and isinstance(n.value, str):
            return set(n.value)
        if isinstance(n, (ast.Tuple, ast.List, ast.Set)) and all(isinstance(e, ast.Constant) and isinstance(e.value, str) and len(e.value) == 1 for e in n.elts):
            return {e.value for e in n.elts}
        raise bad

    def test_set(t: ast.expr, sel: set[str]) -> set[str]:
        """The characters of `sel` for which the test on the comprehension variable is true."""
        if isinstance(t, ast.UnaryOp) and isinstance(t.op, ast.Not):
            return sel - test_set(t.operand, sel)
        if isinstance(t, ast.BoolOp):
            parts = [test_set(v_, sel) for v_ in t.values]
            out = parts[0]
            for p_ in parts[1:]:
                out = (out & p_) if isinstance(t.op, ast.And) else (out | p_)
            return out
        if isinstance(t, ast.Compare) and len(t.ops) == 1 and isinstance(t.left, ast.Name) and t.left.id == v:
            op, rhs = t.ops[0], t.comparators[0]
            if isinstance(op, (ast.Eq, ast.NotEq)) and isinstance(rhs, ast.Constant) and isinstance(rhs.value, str):
                hit = {c for c in sel if c == rhs.value}
                return hit if isinstance(op, ast.Eq) else sel - hit
            if isinstance(op, (ast.In, ast.NotIn)):
                hit = sel & chars_of(rhs)
                return hit if isinstance(op, ast.In) else sel - hit
        raise bad

    k = ''
    sel = set(domain)
    for cond in comp.ifs:
        keep = test_set(cond, sel)
        sel = keep
    k = ''.join(c for c in domain if c not in sel)
    la: list[tuple[str, str]] = []

    def alt(n: ast.expr, sel: set[str]) -> None:
        if isinstance(n, ast.IfExp):
            yes = test_set(n.test, sel)
            alt(n.body, yes)
            alt(n.orelse, sel - yes)
        elif isinstance(n, ast.Call) and ast.unparse(n.func) == 're.escape' and len(n.args) == 1 and not n.keywords \
                and isinstance(n.args[0], ast.Name) and n.args[0].id == v:
            return
        elif isinstance(n, ast.Constant) and isinstance(n.value, str):
            if not sel:
                return                    # a branch no character of the table takes
            if len(sel) != 1:
                raise TranslateError(f'{name}: the literal alternative `{n.value!r}` is used for several characters')
            x, y = _regex_alternative(n.value, name)
            if {x} != sel:
                raise TranslateError(f'{name}: the alternative `{n.value!r}` is used for {sorted(sel)!r} but matches {x!r}')
            if y is not None:
                la.append((x, y))
        else:
            raise bad

    alt(j.args[0].elt, sel)
    return k, la


def _coq_pairs(ps) -> str:
    return '[' + '; '.join(f'({a}, {b})' for a, b in ps) + ']%N'


def _coq_ns(xs) -> str:
    return '[' + '; '.join(str(x) for x in xs) + ']%N'


C_ALWAYS, C_MULTI, C_SINGLE = 0, 1, 2


def _escape_pipeline(tree: ast.Module, inv_map: dict[str, str]) -> tuple[list[tuple[int, str, str, str]], dict]:
    """`escape_text(text, multiline)` as a list of steps `(condition, kind, a, b)` applied to the whole string in order:

    * kind ``'sub'``: ``R.sub(_escape_matcher, text)`` where ``R`` is a module-level regex of the recognised table form;
      ``a`` = its exclusion string (every other character of ESCAPES_INV is replaced by its table entry);
    * kind ``'subn'``: the same substitution with a positive ``count`` (``b`` = ``chr(count)``): only the first matches are replaced;
    * kind ``'subla'``: the substitution whose regex has negative look-aheads (``b`` = the pairs X, Y: X is matched unless Y follows);
    * kind ``'replace'``: ``text.replace(a, b)`` (Python semantics: non-overlapping, left to right, ``a`` non-empty);
      ``a``/``b`` are string literals or ``ESCAPES_INV[<literal>]``;
    * condition: always / only when ``multiline`` / only when not ``multiline`` (from ``A if multiline else B`` and from
      ``if multiline:`` / ``if not multiline:`` statements).

    Accepted statement forms: ``text = <expr>``, ``return <expr>``, ``if [not] multiline: <statements> [else: <statements>]``
    (early returns inside branches included; every path must return); ``<expr>`` is the text variable or a ``sub`` /
    ``replace`` call on an ``<expr>``.  Anything else raises TranslateError.  Whether the resulting pipeline is the per-character table substitution that the theorems
    are about is NOT decided here: it is the instance obligation `escape_text_is_one_table_substitution_*`."""
    e = _func(tree, 'escape_text')
    argn = [a.arg for a in e.args.args]
    if len(argn) != 2 or e.args.kwonlyargs or e.args.vararg or e.args.kwarg or e.args.posonlyargs:
        raise TranslateError('escape_text: unrecognised signature')
    tvar, mvar = argn
    regs: dict[str, tuple[str, list[tuple[str, str]]]] = {}

    def regex(node: ast.expr) -> tuple[str, list[tuple[str, str]]]:
        if not isinstance(node, ast.Name):
            raise TranslateError(f'tokenizer.py:{node.lineno}: escape_text: regex is not a module-level name: `{ast.unparse(node)}`')
        if node.id not in regs:
            regs[node.id] = _regex_table(_resolve(tree, _top_assign(tree, node.id)), node.id, list(inv_map))
        return regs[node.id]

    def sub_step(cond: int, cnt: int, rx: ast.expr, node: ast.AST) -> tuple[int, str, str, str]:
        excl, la = regex(rx)
        if la and cnt:
            raise TranslateError(f'tokenizer.py:{getattr(node, "lineno", "?")}: escape_text: a count-limited substitution with a look-ahead regex is not modelled')
        if la:
            return (cond, 'subla', excl, ''.join(x + y for x, y in la))       # b = the pairs (X, Y): X is matched unless Y follows
        return (cond, 'sub', excl, '') if cnt == 0 else (cond, 'subn', excl, chr(cnt))   # the count travels as the one "character" of b

    def strval(node: ast.expr) -> str:
        if isinstance(node, ast.Constant) and isinstance(node.value, str):
            return node.value
        if isinstance(node, ast.Subscript) and isinstance(node.value, ast.Name) and node.value.id == 'ESCAPES_INV' \
                and isinstance(node.slice, ast.Constant) and isinstance(node.slice.value, str):
            if node.slice.value not in inv_map:
                raise TranslateError(f'tokenizer.py:{node.lineno}: escape_text: ESCAPES_INV[{node.slice.value!r}] does not exist')
            return inv_map[node.slice.value]
        raise TranslateError(f'tokenizer.py:{node.lineno}: escape_text: unrecognised string operand `{ast.unparse(node)}`')

    def cond_of(test: ast.expr) -> int:
        if isinstance(test, ast.Name) and test.id == mvar:
            return C_MULTI
        if isinstance(test, ast.UnaryOp) and isinstance(test.op, ast.Not) and isinstance(test.operand, ast.Name) and test.operand.id == mvar:
            return C_SINGLE
        raise TranslateError(f'tokenizer.py:{test.lineno}: escape_text: unrecognised condition `{ast.unparse(test)}`')

    def both(c1: int, c2: int) -> int | None:
        """Conjunction of two conditions; None = never."""
        if c1 == C_ALWAYS:
            return c2
        if c2 == C_ALWAYS or c1 == c2:
            return c1
        return None

    funcs = _module_funcs(tree)

    def callback_ok(node: ast.expr) -> None:
        """The substitution callback must be the table lookup `m -> ESCAPES_INV[<the matched text>]`: a module-level function
        or a lambda whose (straight-line) body is ESCAPES_INV[m.group()] / ESCAPES_INV[m.group(0)] / ESCAPES_INV[m[0]]."""
        if isinstance(node, ast.Name) and node.id in funcs:
            f = funcs[node.id]
            params, body = [a.arg for a in f.args.posonlyargs + f.args.args], _function_as_expr(f)
            if f.args.kwonlyargs or f.args.vararg or f.args.kwarg:
                body = None
        elif isinstance(node, ast.Lambda):
            params, body = [a.arg for a in node.args.posonlyargs + node.args.args], node.body
        else:
            params, body = [], None
        if body is None or len(params) != 1:
            raise TranslateError(f'tokenizer.py:{node.lineno}: escape_text: substitution callback `{ast.unparse(node)}` is not a recognisable function of the match')
        m = params[0]
        got = ast.unparse(body)
        if got not in (f'ESCAPES_INV[{m}.group()]', f'ESCAPES_INV[{m}.group(0)]', f'ESCAPES_INV[{m}[0]]'):
            raise TranslateError(f'tokenizer.py:{node.lineno}: escape_text: substitution callback computes `{got}`, not the table entry ESCAPES_INV[{m}.group()]')

    def count_of(node: ast.expr) -> int:
        """The `count` argument of sub(): a non-negative int literal, a module-level int constant, or an attribute of `re` whose
        value is an integer (a flag constant that ended up in the count position): 0 = unlimited, n > 0 = the first n matches."""
        if isinstance(node, ast.Constant) and type(node.value) is int and 0 <= node.value < 0x110000:
            return node.value
        if isinstance(node, ast.Attribute) and isinstance(node.value, ast.Name) and node.value.id == 're' and hasattr(re, node.attr):
            v = getattr(re, node.attr)
            if isinstance(v, int) and 0 <= int(v) < 0x110000:
                return int(v)
        if isinstance(node, ast.Name):
            try:
                v2 = _top_assign(tree, node.id)
            except TranslateError:
                v2 = None
            if isinstance(v2, ast.Constant) and type(v2.value) is int and 0 <= v2.value < 0x110000:
                return v2.value
        raise TranslateError(f'tokenizer.py:{node.lineno}: escape_text: count argument `{ast.unparse(node)}` of sub() is not a constant the translator can evaluate')

    def sub_call(node: ast.Call) -> tuple[ast.expr, ast.expr, ast.expr, int] | None:
        """(regex, callback, string, count) of `R.sub(cb, s[, count])` / `re.sub(R, cb, s[, count])`, positional or keyword
        arguments.  count 0 = every match; a positive count limits the substitution to the first matches (modelled as its own
        kind of step, never a plain table substitution).  A flags argument is not modelled: fail closed."""
        f = node.func
        if not (isinstance(f, ast.Attribute) and f.attr == 'sub'):
            return None
        module_form = isinstance(f.value, ast.Name) and f.value.id == 're'
        names = ['pattern', 'repl', 'string', 'count'] if module_form else ['repl', 'string', 'count']
        got: dict[str, ast.expr] = {}
        if any(isinstance(a, ast.Starred) for a in node.args) or any(k.arg is None for k in node.keywords):
            raise TranslateError(f'tokenizer.py:{node.lineno}: escape_text: * / ** arguments in `{ast.unparse(node)}`')
        if len(node.args) > len(names):
            raise TranslateError(f'tokenizer.py:{node.lineno}: escape_text: `{ast.unparse(node)}` passes a flags argument to sub(); '
                                 f'a flagged substitution is not modelled')
        for nme, a in zip(names, node.args):
            got[nme] = a
        for k in node.keywords:
            if k.arg not in names or k.arg in got:
                raise TranslateError(f'tokenizer.py:{node.lineno}: escape_text: argument {k.arg}= of `{ast.unparse(node)}` is not modelled')
            got[k.arg] = k.value
        if set(got) | {'count'} != set(names):
            raise TranslateError(f'tokenizer.py:{node.lineno}: escape_text: `{ast.unparse(node)}` lacks an argument')
        cnt = count_of(got['count']) if 'count' in got else 0
        return (got['pattern'] if module_form else f.value), got['repl'], got['string'], cnt

    def steps_of(node: ast.expr, cond: int) -> list[tuple[int, str, str, str]]:
        """Steps that compute `node` from the current value of the text variable."""
        if isinstance(node, ast.Name) and node.id == tvar:
            return []
        if isinstance(node, ast.Call) and isinstance(node.func, ast.Attribute):
            f = node.func
            sc = sub_call(node)
            if sc is not None:
                rx_node, cb, arg, cnt = sc
                callback_ok(cb)
                inner = steps_of(arg, cond)
                if isinstance(rx_node, ast.IfExp):
                    c = cond_of(rx_node.test)
                    other = C_SINGLE if c == C_MULTI else C_MULTI
                    out = list(inner)
                    for cc, rx in ((c, rx_node.body), (other, rx_node.orelse)):
                        k = both(cond, cc)
                        if k is not None:
                            out.append(sub_step(k, cnt, rx, node))
                    return out
                return inner + [sub_step(cond, cnt, rx_node, node)]
            if f.attr == 'replace' and len(node.args) == 2 and not node.keywords:
                old, new = strval(node.args[0]), strval(node.args[1])
                if not old:
                    raise TranslateError(f'tokenizer.py:{node.lineno}: escape_text: str.replace with an empty pattern is not modelled')
                return steps_of(f.value, cond) + [(cond, 'replace', old, new)]
        raise TranslateError(f'tokenizer.py:{getattr(node, "lineno", e.lineno)}: escape_text: unrecognised expression `{ast.unparse(node)}`')

    def neg(c: int) -> int:
        return C_SINGLE if c == C_MULTI else C_MULTI

    local_env: dict[str, ast.expr] = {}
    assigned: dict[str, int] = {}
    for x in ast.walk(e):
        if isinstance(x, ast.Name) and isinstance(x.ctx, (ast.Store, ast.Del)):
            assigned[x.id] = assigned.get(x.id, 0) + 1

    def local_target(st: ast.stmt) -> str | None:
        tg = st.targets[0] if isinstance(st, ast.Assign) and len(st.targets) == 1 else st.target if isinstance(st, ast.AnnAssign) and st.value is not None else None
        return tg.id if isinstance(tg, ast.Name) and tg.id not in (tvar, mvar) else None

    def subst(node: ast.expr) -> ast.expr:
        return ast.fix_missing_locations(_Subst(local_env).visit(copy.deepcopy(node))) if local_env else node

    def block(stmts: list[ast.stmt], live: int | None, top: bool = False) -> tuple[list[tuple[int, str, str, str]], int | None]:
        """Steps of a statement list entered under condition `live`; second component: the condition under which control
        falls out of its end (None = every path returned)."""
        out: list[tuple[int, str, str, str]] = []
        for st in stmts:
            if live is None:
                raise TranslateError(f'tokenizer.py:{st.lineno}: escape_text: statement after a return on every path')
            if isinstance(st, ast.Return) and st.value is not None:
                out += steps_of(subst(st.value), live)
                live = None
            elif isinstance(st, ast.Assign) and len(st.targets) == 1 and isinstance(st.targets[0], ast.Name) and st.targets[0].id == tvar:
                out += steps_of(subst(st.value), live)
            elif top and isinstance(st, (ast.Assign, ast.AnnAssign)) and local_target(st) is not None:
                # a single-assignment local that does not depend on the text (e.g. `pattern = A if multiline else B`): inlined
                nme = local_target(st)
                val = subst(st.value)
                if nme in local_env or assigned.get(nme, 0) != 1 or any(isinstance(x, ast.Name) and x.id == tvar for x in ast.walk(val)) \
                        or any(isinstance(x, (ast.Call, ast.NamedExpr, ast.Await, ast.Yield)) for x in ast.walk(val)):
                    raise TranslateError(f'tokenizer.py:{st.lineno}: escape_text: local `{nme}` is not a single-assignment, call-free expression independent of the text')
                local_env[nme] = val
            elif isinstance(st, ast.If):
                c = cond_of(st.test)
                lives = []
                for cc, body in ((both(live, c), st.body), (both(live, neg(c)), st.orelse)):
                    if cc is None:
                        continue                      # dead branch
                    s1, l1 = block(body, cc)
                    out += s1
                    if l1 is not None:
                        lives.append(l1)
                if not lives:
                    live = None
                elif len(lives) == 1:
                    live = lives[0]
                else:
                    live = lives[0] if lives[0] == lives[1] else C_ALWAYS
            else:
                raise TranslateError(f'tokenizer.py:{st.lineno}: escape_text: unrecognised statement `{ast.unparse(st).splitlines()[0]}`')
        return out, live

    pipeline, live_end = block(_strip_doc(e), C_ALWAYS, top=True)
    if live_end is not None:
        raise TranslateError('escape_text: a path reaches the end of the body without `return <expr>`')
    return pipeline, regs


_PURE_METHODS = {'sub', 'subn', 'get', 'items', 'keys', 'values', 'join', 'escape', 'compile', 'group', 'replace', 'match', 'search',
                 'fullmatch', 'findall', 'finditer', 'split', 'startswith', 'endswith', 'isascii', 'translate', 'maketrans'}
_BUILTINS_OK = {'str', 'len', 'bool', 'int', 'isinstance', 'None', 'True', 'False', 'ord', 'chr', 'any', 'all', 'min', 'max', 'sorted',
                'tuple', 'frozenset', 'range', 'enumerate', 'zip', 'map', 'filter', 'repr', 'KeyError', 'LookupError', 'TypeError', 'ValueError'}


def funcs_line(tree: ast.Module, name: str) -> int | None:
    """co_firstlineno of the function `_func` finds: the line of its first decorator, else of the `def`."""
    try:
        f = _func(tree, name)
    except TranslateError:
        return None
    return min([f.lineno] + [d.lineno for d in f.decorator_list])


def module_level_bindings(tree: ast.Module, name: str) -> list[int]:
    """Line numbers of the statements that bind `name` at module level (def / class / assignment / import / for / with, also inside
    module-level if / try / with / for blocks; function and class bodies are not entered)."""
    out: list[int] = []

    def names(t: ast.AST) -> set[str]:
        return {x.id for x in ast.walk(t) if isinstance(x, ast.Name)}

    def block(stmts: list[ast.stmt]) -> None:
        for st in stmts:
            if isinstance(st, (ast.FunctionDef, ast.AsyncFunctionDef, ast.ClassDef)):
                if st.name == name:
                    out.append(st.lineno)
                continue
            if isinstance(st, ast.Assign) and any(name in names(t) for t in st.targets if isinstance(t, (ast.Name, ast.Tuple, ast.List))):
                out.append(st.lineno)
            elif isinstance(st, (ast.AnnAssign, ast.AugAssign)) and isinstance(st.target, ast.Name) and st.target.id == name \
                    and (not isinstance(st, ast.AnnAssign) or st.value is not None):
                out.append(st.lineno)
            elif isinstance(st, (ast.Import, ast.ImportFrom)) and any((a.asname or a.name).split('.')[0] == name for a in st.names):
                out.append(st.lineno)
            elif isinstance(st, ast.Delete) and any(name in names(t) for t in st.targets):
                out.append(st.lineno)
            for x in ast.walk(st) if not isinstance(st, (ast.If, ast.Try, ast.With, ast.For, ast.While)) else []:
                if isinstance(x, ast.NamedExpr) and x.target.id == name:
                    out.append(st.lineno)
            if isinstance(st, (ast.For, ast.AsyncFor)) and name in names(st.target):
                out.append(st.lineno)
            if isinstance(st, (ast.With, ast.AsyncWith)) and any(i.optional_vars is not None and name in names(i.optional_vars) for i in st.items):
                out.append(st.lineno)
            for fld in ('body', 'orelse', 'finalbody'):
                sub = getattr(st, fld, None)
                if isinstance(sub, list) and sub and isinstance(sub[0], ast.stmt):
                    block(sub)
            for h in getattr(st, 'handlers', []) or []:
                block(h.body)

    block(tree.body)
    return out


def escape_text_census(tree: ast.Module) -> list[str]:
    """`escape_text` uses no state that outlives the call: the premise of modelling it as a FUNCTION of (text, multiline).
    Looked at: `escape_text` and every module-level function it mentions (the substitution callback, helpers), transitively.
    Listed (each entry is a way for one call to influence a later one - a cache of results keyed by the text alone is wrong as
    soon as the two modes share it):

    * a decorator on one of these functions (memoisation wrappers keep results between calls);
    * a `global` / `nonlocal` statement; a parameter default that is not a literal constant;
    * reading a module-level name that is not a constant: allowed are imported modules, module-level functions, names bound ONCE
      at module level to a literal constant, to a `re.compile(...)` / pure expression of literals and of the escape tables, and
      the escape tables themselves (their immutability is the tokenizer census' `table_mutation`); a name bound to a set / dict /
      list display or constructor call, bound twice, or not bound at module level at all is listed;
    * one of these functions is bound more than once at module level (a later `def` / assignment / wrapper such as
      `escape_text = memoise(escape_text)` replaces what the translator reads; the selection of the Cython version at the bottom of
      the module goes through `globals()` and only happens when the extension module exists - the check compares the objects at run
      time: `public_names_are_the_checked_objects`);
    * calling a method outside a list of non-mutating ones on a module-level name (`_SEEN.add(text)`), storing into / deleting an
      attribute or item of anything that is not a local (`_CACHE[text] = r`, `escape_text.last = r`), reading an attribute of
      one of the functions themselves."""
    funcs = {n.name: n for n in tree.body if isinstance(n, (ast.FunctionDef, ast.AsyncFunctionDef))}
    if 'escape_text' not in funcs:
        return ['escape_text not found at module level']
    imported: set[str] = set()
    binds: dict[str, list[ast.expr | None]] = {}
    for n in ast.walk(tree):
        if isinstance(n, ast.Import):
            imported |= {(a.asname or a.name).split('.')[0] for a in n.names}
        elif isinstance(n, ast.ImportFrom):
            imported |= {a.asname or a.name for a in n.names}
    for n in tree.body:
        tg: list[tuple[ast.expr, ast.expr | None]] = []
        if isinstance(n, ast.Assign):
            tg = [(t, n.value) for t in n.targets]
        elif isinstance(n, ast.AnnAssign) and n.value is not None:
            tg = [(n.target, n.value)]
        elif isinstance(n, ast.AugAssign):
            tg = [(n.target, None)]
        for t, v in tg:
            for x in ast.walk(t):
                if isinstance(x, ast.Name):
                    binds.setdefault(x.id, []).append(v if isinstance(t, ast.Name) else None)
    # names bound below module level by `global` in any function are not constants either
    rebound = {nm for f in ast.walk(tree) if isinstance(f, ast.Global) for nm in f.names}

    def constant_value(v: ast.expr | None, depth: int = 0) -> bool:
        if v is None or depth > 6:
            return False
        if isinstance(v, ast.Constant):
            return True
        if isinstance(v, (ast.Tuple,)):
            return all(constant_value(e, depth + 1) for e in v.elts)
        if isinstance(v, ast.Call) and ast.unparse(v.func) in ('re.compile', 'frozenset', 'tuple') and not any(isinstance(a, ast.Starred) for a in v.args):
            return True          # immutable result; its arguments are evaluated once, at import time
        if isinstance(v, ast.Call) and isinstance(v.func, ast.Name) and v.func.id in funcs and ast.unparse(_resolve(tree, v)) != ast.unparse(v):
            return constant_value(_resolve(tree, v), depth + 1)
        if isinstance(v, (ast.BinOp, ast.JoinedStr)) or (isinstance(v, ast.Call) and isinstance(v.func, ast.Attribute) and v.func.attr == 'join'):
            return True          # str arithmetic: an immutable str
        return False

    def global_ok(nm: str) -> bool:
        if nm in imported or nm in funcs or nm in ('ESCAPES', 'ESCAPES_INV'):
            return True
        if nm in binds:
            return len(binds[nm]) == 1 and nm not in rebound and constant_value(binds[nm][0])
        return nm in _BUILTINS_OK

    out: list[str] = []
    todo, seen = ['escape_text'], set()
    while todo:
        fn = todo.pop()
        if fn in seen:
            continue
        seen.add(fn)
        f = funcs[fn]
        where = module_level_bindings(tree, fn)
        if len(where) != 1:
            out.append(f'{fn}: bound {len(where)} times at module level (lines {where}): the function the translator reads is not necessarily the one callers get')
        if f.decorator_list:
            out.append(f'{fn}:{f.lineno}: decorated with `{ast.unparse(f.decorator_list[0])[:40]}`')
        a = f.args
        for d in list(a.defaults) + [d for d in a.kw_defaults if d is not None]:
            if not isinstance(d, ast.Constant):
                out.append(f'{fn}:{f.lineno}: parameter default `{ast.unparse(d)[:40]}` is evaluated once and shared by every call')
        local = {x.arg for x in a.args + a.kwonlyargs + a.posonlyargs} | ({a.vararg.arg} if a.vararg else set()) | ({a.kwarg.arg} if a.kwarg else set())
        for x in ast.walk(f):
            if isinstance(x, ast.Name) and isinstance(x.ctx, (ast.Store, ast.Del)):
                local.add(x.id)
            elif isinstance(x, ast.Lambda):
                local |= {y.arg for y in x.args.args + x.args.kwonlyargs + x.args.posonlyargs}
            elif isinstance(x, (ast.Global, ast.Nonlocal)):
                out += [f'{fn}:{x.lineno}: {"global" if isinstance(x, ast.Global) else "nonlocal"} {nm}' for nm in x.names]
                local -= set(x.names)
        ann: set[int] = set()
        for x in ast.walk(f):
            for sub in ([x.annotation] if isinstance(x, (ast.AnnAssign, ast.arg)) and x.annotation is not None else []) + \
                    ([x.returns] if isinstance(x, ast.FunctionDef) and x.returns is not None else []):
                ann |= {id(y) for y in ast.walk(sub)}
        for x in ast.walk(f):
            if id(x) in ann:
                continue
            if isinstance(x, ast.Name) and isinstance(x.ctx, ast.Load) and x.id not in local:
                if x.id in funcs:
                    todo.append(x.id)
                elif not global_ok(x.id):
                    how = ('bound at module level to `' + ast.unparse(binds[x.id][0])[:30] + '`' if x.id in binds and len(binds[x.id]) == 1 and binds[x.id][0] is not None
                           else 'bound more than once' if x.id in binds else 'not a module-level constant')
                    out.append(f'{fn}:{x.lineno}: reads `{x.id}` ({how}): not a constant, it can carry information from one call to the next')
            elif isinstance(x, ast.Call) and isinstance(x.func, ast.Attribute) and isinstance(x.func.value, ast.Name) \
                    and x.func.value.id not in local and x.func.attr not in _PURE_METHODS:
                out.append(f'{fn}:{x.lineno}: calls `{x.func.value.id}.{x.func.attr}(...)` on a module-level object')
            elif isinstance(x, (ast.Attribute, ast.Subscript)) and isinstance(x.ctx, (ast.Store, ast.Del)):
                base = x
                while isinstance(base, (ast.Attribute, ast.Subscript)):
                    base = base.value
                if not (isinstance(base, ast.Name) and base.id in local):
                    out.append(f'{fn}:{x.lineno}: stores into `{ast.unparse(x)[:40]}`')
            elif isinstance(x, ast.Attribute) and isinstance(x.ctx, ast.Load) and isinstance(x.value, ast.Name) and x.value.id in funcs and x.value.id not in local:
                out.append(f'{fn}:{x.lineno}: reads the function attribute `{ast.unparse(x)[:40]}`')
    return sorted(set(out), key=out.index)


def casefold_table() -> list[tuple[int, list[int]]]:
    out = []
    for c in range(0x110000):
        s = chr(c)
        f = s.casefold()
        if f != s:
            out.append((c, [ord(x) for x in f]))
    return out


def translate(sample=None) -> tuple[str, dict]:
    """`sample`: optional callable (characters of ESCAPES_INV in order, table) -> (excl_single, excl_multi) or None, used ONLY when
    the body of escape_text (or a regex) is outside the statement language: the check passes a function that runs the real
    escape_text on every single character of the table, so that a per-character stand-in pipeline exists, every file still builds and
    every other obligation and correspondence is still evaluated (`esc_pipeline_translated` is then false and the shape
    obligations fail by name)."""
    text = src_text('tokenizer.py')
    tree = ast.parse(text)
    side: dict = {}

    # ---- ESCAPES
    d = _top_assign(tree, 'ESCAPES')
    if not isinstance(d, ast.Dict) or any(k is None for k in d.keys):
        raise TranslateError('ESCAPES is not a plain dict literal')
    esc: dict[int, int] = {}
    for k, v in zip(d.keys, d.values):
        esc[_char(k, 'ESCAPES key')] = _char(v, 'ESCAPES value')     # Python dict: later duplicate key overwrites in place
    esc_table = list(esc.items())

    # ---- ESCAPES_INV
    inv = _top_assign(tree, 'ESCAPES_INV')
    if not (isinstance(inv, ast.DictComp) and isinstance(inv.value, ast.JoinedStr) and len(inv.value.values) == 2
            and isinstance(inv.value.values[0], ast.Constant) and isinstance(inv.value.values[0].value, str)):
        raise TranslateError(f'ESCAPES_INV: unrecognised construction `{ast.unparse(inv)}`')
    prefix = inv.value.values[0].value
    _expect(inv, '{char: f' + repr(prefix + '{sym}') + ' for sym, char in ESCAPES.items()}', 'ESCAPES_INV', inv.lineno)

    # ---- escape_text as a pipeline of whole-string steps (see _escape_pipeline)
    inv_map: dict[str, str] = {}
    for sym, ch in esc_table:
        inv_map[chr(ch)] = prefix + chr(sym)          # dict comprehension: a later symbol for the same character wins
    pipeline_error: str | None = None
    fallback = 'none'
    try:
        pipeline, regs = _escape_pipeline(tree, inv_map)
    except TranslateError as e:
        pipeline_error = str(e)
        pipeline, regs = [], {}
        got = sample(list(inv_map), dict(inv_map)) if sample is not None else None
        if got is not None:
            pipeline = [(C_SINGLE, 'sub', got[0], ''), (C_MULTI, 'sub', got[1], '')]
            fallback = 'sampled: escape_text run on every single character of ESCAPES_INV, both modes'
    state = escape_text_census(tree)

    # ---- BARE_DISALLOWED
    b = _top_assign(tree, 'BARE_DISALLOWED')
    if not (isinstance(b, ast.Call) and isinstance(b.func, ast.Name) and b.func.id == 'frozenset' and len(b.args) == 1
            and isinstance(b.args[0], ast.Constant) and isinstance(b.args[0].value, str) and not b.keywords):
        raise TranslateError('BARE_DISALLOWED: expected frozenset("<literal>")')
    bare = sorted({ord(c) for c in b.args[0].value})

    # ---- Token enum
    tok_vals: dict[str, int] = {}
    has_value: list[int] | None = None
    for n in tree.body:
        if isinstance(n, ast.ClassDef) and n.name == 'Token':
            for s in n.body:
                if isinstance(s, ast.Assign) and len(s.targets) == 1 and isinstance(s.targets[0], ast.Name) \
                        and isinstance(s.value, ast.Constant) and isinstance(s.value.value, int):
                    tok_vals[s.targets[0].id] = s.value.value
                elif isinstance(s, ast.FunctionDef) and s.name == 'has_value':
                    hb = _strip_doc(s)
                    if len(hb) == 1 and isinstance(hb[0], ast.Return) and isinstance(hb[0].value, ast.Compare) \
                            and ast.unparse(hb[0].value.left) == 'self.value' and isinstance(hb[0].value.ops[0], ast.In) \
                            and isinstance(hb[0].value.comparators[0], (ast.Tuple, ast.Set, ast.List)):
                        has_value = [c.value for c in hb[0].value.comparators[0].elts if isinstance(c, ast.Constant)]
                    else:
                        raise TranslateError('Token.has_value: unrecognised body')
    need = ['EOF', 'STRING', 'NEWLINE', 'PAREN_ARGS', 'DIRECTIVE', 'COMMENT', 'BRACE_OPEN', 'BRACE_CLOSE', 'PAREN_OPEN',
            'PAREN_CLOSE', 'PROP_FLAG', 'BRACK_OPEN', 'BRACK_CLOSE', 'COLON', 'EQUALS', 'PLUS', 'COMMA']
    for t in need:
        if t not in tok_vals:
            raise TranslateError(f'Token.{t} not found')
    if has_value is None:
        raise TranslateError('Token.has_value not found')

    # ---- _OPERATORS
    o = _top_assign(tree, '_OPERATORS')
    if not isinstance(o, ast.Dict):
        raise TranslateError('_OPERATORS is not a dict literal')
    ops: dict[int, int] = {}
    for k, v in zip(o.keys, o.values):
        if not (isinstance(v, ast.Attribute) and isinstance(v.value, ast.Name) and v.value.id == 'Token' and v.attr in tok_vals):
            raise TranslateError('_OPERATORS: value is not a Token member')
        ops[_char(k, '_OPERATORS key')] = tok_vals[v.attr]

    # ---- Tokenizer.__init__ defaults, digests
    defaults: dict[str, bool] = {}
    digests: dict[str, str] = {}
    for n in tree.body:
        if isinstance(n, ast.ClassDef) and n.name == 'Tokenizer':
            for f in n.body:
                if isinstance(f, ast.FunctionDef) and f.name == '__init__':
                    for a, dv in zip(f.args.kwonlyargs, f.args.kw_defaults):
                        if a.arg in OPTION_NAMES:
                            if not (isinstance(dv, ast.Constant) and isinstance(dv.value, bool)):
                                raise TranslateError(f'Tokenizer.__init__: default of {a.arg} is not a bool literal')
                            defaults[a.arg] = dv.value
                if isinstance(f, ast.FunctionDef) and f.name in HAND_MODELLED:
                    digests[f.name] = ast_digest(ast.Module(body=_strip_doc(f), type_ignores=[]))
    for nme in OPTION_NAMES:
        if nme not in defaults:
            raise TranslateError(f'Tokenizer.__init__: option {nme} not found')
    for nme in HAND_MODELLED:
        if nme not in digests:
            raise TranslateError(f'Tokenizer.{nme} not found')

    cf = casefold_table()
    lines = [
        '(* GENERATED by translate/c02_tables.py from /repo/src/srctools/tokenizer.py. Do not edit. *)',
        'From Coq Require Import NArith List.', 'Import ListNotations.', 'Open Scope N_scope.',
        '(* ESCAPES: (symbol after the backslash, character it stands for), in dict order *)',
        f'Definition esc_table : list (N * N) := {_coq_pairs(esc_table)}.',
        '(* literal prefix of the replacement text in ESCAPES_INV *)',
        f'Definition esc_prefix : list N := {_coq_ns(ord(c) for c in prefix)}.',
        '(* escape_text(text, multiline) as whole-string steps applied in order: (condition, kind, a, b);',
        '   condition 0 = always, 1 = only if multiline, 2 = only if not multiline;',
        '   kind 0 = R.sub(_escape_matcher, text) with a = characters of ESCAPES_INV the regex R leaves alone,',
        '   kind 1 = text.replace(a, b),',
        '   kind 2 = the substitution of kind 0 limited to its first n matches, b = [n],',
        '   kind 3 = the substitution of kind 0 whose regex has negative look-aheads, b = X1 Y1 X2 Y2 ...: Xi is matched unless Yi follows *)',
        'Definition esc_pipeline : list (N * N * list N * list N) := ['
        + '; '.join(f'({c}, {dict(sub=0, replace=1, subn=2, subla=3)[k]}, {_coq_ns(map(ord, a))}, {_coq_ns(map(ord, b))})' for c, k, a, b in pipeline) + '].',
        '(* false: the body of escape_text (or a regex) is outside the statement language of the translator; esc_pipeline is then a',
        '   per-character stand-in (sampled from the implementation by the check) or empty, and no shape obligation may hold *)',
        f'Definition esc_pipeline_translated : bool := {"true" if pipeline_error is None else "false"}.',
        '(* escape_text uses no state that outlives the call: findings of escape_text_census (texts as code points; must be empty) *)',
        'Definition esc_state : list (list N) := [' + '; '.join(_coq_ns(map(ord, x)) for x in state) + '].',
        f'Definition bare_disallowed : list N := {_coq_ns(bare)}.',
        '(* _OPERATORS: (character, Token value) *)',
        f'Definition operators : list (N * N) := {_coq_pairs(ops.items())}.',
        f'Definition has_value_set : list N := {_coq_ns(has_value)}.',
    ]
    for t in need:
        lines.append(f'Definition T_{t} : N := {tok_vals[t]}.')
    for nme in OPTION_NAMES:
        lines.append(f'Definition default_{nme} : bool := {"true" if defaults[nme] else "false"}.')
    lines.append('(* str.casefold of the running CPython, for every code point it changes (external behaviour, not source) *)')
    lines.append('Definition casefold_table : list (N * list N) := [')
    lines.append(';\n'.join(f' ({c}, {_coq_ns(f)})' for c, f in cf))
    lines.append('].')
    lines.append('')

    side.update(escapes=[[chr(s), chr(c)] for s, c in esc_table], esc_prefix=prefix,
                escape_pipeline=[{'when': ['always', 'multiline', 'not multiline'][c], 'kind': k, 'a': a, 'b': (ord(b) if k == 'subn' else b)} for c, k, a, b in pipeline],
                regexes={k: {'excluded': v[0], 'lookaheads': [list(p_) for p_ in v[1]]} for k, v in regs.items()},
                escape_text_line=funcs_line(tree, 'escape_text'), escape_text_failed_closed=pipeline_error, escape_text_fallback=fallback, escape_text_state=state,
                bare_disallowed=''.join(chr(c) for c in bare), operators={chr(k): v for k, v in ops.items()},
                token_values=tok_vals, has_value=has_value, option_defaults=defaults, digests=digests,
                casefold_entries=len(cf), pyx_twin=_scan_pyx())
    return '\n'.join(lines), side


# Digests of the hand-modelled functions at the time the model (Text/Tokenizer.v) was written.
MODEL_DIGESTS: dict[str, str] = {'_next_char': '0bbf18d86204', '_get_token': 'f5112b26368c',
                                  '_handle_comment': '124fdad5849e', '_handle_string': '6cc8c104a316'}


def _scan_pyx() -> dict:
    """Information only: the Cython twin cannot be built here; report whether it exists and its size."""
    try:
        t = src_text('_tokenizer.pyx')
    except OSError:
        return {'present': False}
    m = re.findall(r"elif escape_char == b'(.)'", t)
    return {'present': True, 'lines': t.count('\n'), 'verified': False,
            'note': 'Cython twin not buildable in this sandbox; nothing is claimed for it'}


GEN = {'EscTables_gen': translate}
