"""C15 translator: the life cycle of a Frame (vtf.py) -> Gen/VtfFrameSM_gen.v   (fail-closed Python-ast walker)

For every method of class Frame that touches the slots `_data` / `_fileinfo` (directly, through `self.load()`, or by
handing `self._data` to `_format_funcs.load` / `_format_funcs.scale_down`) an abstract interpretation of the body is run
for the four abstract pre-states (data present?, file source present?).  The result per pre-state is the set of
outcomes of all non-raising paths: (where the pixels of `_data` come from, were single texels overwritten afterwards,
what happened to `_fileinfo`).  Conditions on the two slots are decided from the abstract state; every other condition
branches both ways.  The tables are compared in the kernel with the ideal tables of Fmt/VtfFrameSM.v.

Also: a census of every store to `<something>._data` / `<something>._fileinfo` OUTSIDE class Frame, the shape of
VTF.compute_mipmaps (level 0 loaded, guard of the regeneration, parent = previous level) and of the frame loop of VTF.save
(compute_mipmaps() first; per frame load / encode / write order), and whether rescale_from loads the larger frame before
it reads its pixels.
"""
from __future__ import annotations

import ast

from harness.common import TranslateError, src_text
from translate import c15_norm

SLOTS = ('_data', '_fileinfo')
# functions that only read the pixel buffer they are given
READERS = {'alpha_flatten', 'ppm_convert', 'frombuffer', 'memoryview', 'Pixel', 'bytes', 'len'}
D_COQ = {'Keep': 'DKeep', 'None': 'DNoneV', 'Blank': 'DBlank', 'File': 'DFile', 'New': 'DNew', 'Scaled': 'DScaled'}
S_COQ = {'Keep': 'SKeep', 'None': 'SNoneV', 'Set': 'SSet'}


def _err(node, msg):
    raise TranslateError(f'vtf.py line {getattr(node, "lineno", "?")}: {msg}')


def _is_slot(node, owner: str | None = None, slot: str | None = None) -> bool:
    """node is `<owner>.<slot>` (any owner name / any slot when None)."""
    return (isinstance(node, ast.Attribute) and node.attr in SLOTS and (slot is None or node.attr == slot)
            and isinstance(node.value, ast.Name) and (owner is None or node.value.id == owner))


class _St:
    __slots__ = ('data', 'src', 'mod', 'taint', 'loaded', 'unloaded_read')

    def __init__(self, data='Keep', src='Keep', mod=False, taint=None, loaded=frozenset(), unloaded_read=False):
        self.data, self.src, self.mod = data, src, mod
        self.taint = dict(taint or {})
        self.loaded = loaded
        self.unloaded_read = unloaded_read

    def copy(self) -> '_St':
        return _St(self.data, self.src, self.mod, self.taint, self.loaded, self.unloaded_read)


class _Method:
    """Abstract interpretation of one method body for one abstract pre-state."""

    def __init__(self, fn: ast.FunctionDef, pre: tuple[bool, bool], load_table: dict | None, load_raise: dict | None = None) -> None:
        self.fn, self.pre, self.load_table = fn, pre, load_table
        self.load_raise = load_raise
        args = [a.arg for a in fn.args.posonlyargs + fn.args.args + fn.args.kwonlyargs]
        if not args or args[0] != 'self':
            _err(fn, f'{fn.name}: first parameter is not self')
        self.params = set(args[1:])
        self.paths = 0

    # ---- queries
    def data_is_none(self, st: _St) -> bool:
        return st.data == 'None' or (st.data == 'Keep' and not self.pre[0])

    def src_is_none(self, st: _St) -> bool:
        return st.src == 'None' or (st.src == 'Keep' and not self.pre[1])

    def taint_of(self, node: ast.AST, st: _St) -> set[str]:
        t: set[str] = set()
        for n in ast.walk(node):
            if isinstance(n, ast.Name):
                if n.id in self.params:
                    t.add('arg')
                t |= st.taint.get(n.id, set())
            if _is_slot(n, 'self', '_fileinfo'):
                t.add('file')
        return t

    def note_reads(self, node: ast.AST, st: _St) -> None:
        """reading <param>._data before <param>.load() was called"""
        for n in ast.walk(node):
            if _is_slot(n, None, '_data') and n.value.id in self.params and n.value.id not in st.loaded:
                st.unloaded_read = True

    def cond(self, test: ast.expr, st: _St):
        """True / False / None (unknown)."""
        if isinstance(test, ast.UnaryOp) and isinstance(test.op, ast.Not):
            v = self.cond(test.operand, st)
            return None if v is None else not v
        if isinstance(test, ast.BoolOp):
            vals = [self.cond(v, st) for v in test.values]
            if isinstance(test.op, ast.And):
                if any(v is False for v in vals):
                    return False
                return True if all(v is True for v in vals) else None
            if any(v is True for v in vals):
                return True
            return False if all(v is False for v in vals) else None
        if isinstance(test, ast.Compare) and len(test.ops) == 1 and isinstance(test.ops[0], (ast.Is, ast.IsNot)) \
                and isinstance(test.comparators[0], ast.Constant) and test.comparators[0].value is None:
            neg = isinstance(test.ops[0], ast.IsNot)
            x = test.left
            v = None
            if _is_slot(x, 'self', '_data'):
                v = self.data_is_none(st)
            elif _is_slot(x, 'self', '_fileinfo'):
                v = self.src_is_none(st)
            elif _is_slot(x, None, '_data') and x.value.id in self.params:
                if x.value.id in st.loaded:
                    v = False          # load() always leaves pixels behind
                else:
                    st.unloaded_read = True
            if v is None:
                return None
            return (not v) if neg else v
        self.note_reads(test, st)
        return None

    # ---- statements
    def classify_data_value(self, value: ast.expr, st: _St, node) -> str:
        if isinstance(value, ast.Constant) and value.value is None:
            return 'None'
        s = ast.unparse(value)
        if isinstance(value, ast.BinOp) and isinstance(value.op, ast.Mult) and isinstance(value.left, ast.Name) \
                and value.left.id == '_BLANK_PIXEL':
            return 'Blank'
        self.note_reads(value, st)
        t = self.taint_of(value, st)
        if 'file' in t:
            _err(node, f'{self.fn.name}: _data assigned from the file source without the decoder: {s}')
        if 'arg' in t:
            return 'New'
        _err(node, f'{self.fn.name}: cannot classify the value stored in _data: {s}')

    def store(self, tgt: ast.expr, value: ast.expr, st: _St, node) -> None:
        if _is_slot(tgt, 'self', '_data'):
            st.data = self.classify_data_value(value, st, node)
            st.mod = False
        elif _is_slot(tgt, 'self', '_fileinfo'):
            st.src = 'None' if (isinstance(value, ast.Constant) and value.value is None) else 'Set'
        elif _is_slot(tgt):
            _err(node, f'{self.fn.name}: store into a slot of another frame: {ast.unparse(tgt)}')
        elif isinstance(tgt, ast.Subscript) and _is_slot(tgt.value, 'self', '_data'):
            sl = tgt.slice
            if isinstance(sl, ast.Slice) and sl.lower is None and sl.upper is None and sl.step is None:
                self.note_reads(value, st)
                if 'arg' not in self.taint_of(value, st):
                    _err(node, f'{self.fn.name}: whole-buffer copy from an unknown source')
                if self.data_is_none(st):
                    _err(node, f'{self.fn.name}: slice store into _data that is None')
                st.data, st.mod = 'New', False
            else:
                st.mod = True
        elif isinstance(tgt, ast.Subscript) and _is_slot(tgt.value):
            _err(node, f'{self.fn.name}: store into the pixels of another frame')
        elif isinstance(tgt, (ast.Tuple, ast.List)):
            if isinstance(value, (ast.Tuple, ast.List)) and len(value.elts) == len(tgt.elts):
                for t, v in zip(tgt.elts, value.elts):
                    self.store(t, v, st, node)
            else:
                for t in tgt.elts:
                    self.store(t, value, st, node)
        elif isinstance(tgt, ast.Name):
            st.taint[tgt.id] = self.taint_of(value, st)
            self.note_reads(value, st)
        elif isinstance(tgt, ast.Attribute) and isinstance(tgt.value, ast.Name) and tgt.value.id == 'self':
            if self.fn.name != '__init__':
                _err(node, f'{self.fn.name}: store to self.{tgt.attr}')
        elif isinstance(tgt, ast.Subscript):
            pass        # some other container
        else:
            _err(node, f'{self.fn.name}: unsupported assignment target {ast.unparse(tgt)}')

    def call(self, c: ast.Call, st: _St) -> None:
        f = c.func
        # self.load()
        if isinstance(f, ast.Attribute) and isinstance(f.value, ast.Name) and f.value.id == 'self':
            if f.attr == 'load' and not c.args and not c.keywords:
                if self.load_table is None:
                    _err(c, f'{self.fn.name}: recursive self.load()')
                d, s = not self.data_is_none(st), not self.src_is_none(st)
                outs = self.load_table[(d, s)]
                if len(outs) != 1:
                    _err(c, f'{self.fn.name}: load() is not deterministic, cannot inline it')
                (od, om, os_), = outs
                if od != 'Keep':
                    st.data, st.mod = od, om
                if os_ != 'Keep':
                    st.src = os_
                return
            _err(c, f'{self.fn.name}: call of self.{f.attr}() not understood')
        # <param>.load()
        if isinstance(f, ast.Attribute) and f.attr == 'load' and isinstance(f.value, ast.Name) and f.value.id in self.params \
                and not c.args and not c.keywords:
            st.loaded = st.loaded | {f.value.id}
            return
        name = f.attr if isinstance(f, ast.Attribute) else f.id if isinstance(f, ast.Name) else None
        owner = ast.unparse(f.value) if isinstance(f, ast.Attribute) else ''
        if owner == '_format_funcs' and name == 'load':
            if len(c.args) != 5 or not _is_slot(c.args[1], 'self', '_data'):
                _err(c, f'{self.fn.name}: _format_funcs.load call shape')
            if self.data_is_none(st):
                _err(c, f'{self.fn.name}: decoding into _data that is None')
            t = self.taint_of(c.args[2], st)
            if 'file' in t and 'arg' not in t:
                if self.src_is_none(st) and st.src == 'Keep':
                    _err(c, f'{self.fn.name}: decodes the file source that is None')
                st.data = 'File'
            elif 'arg' in t and 'file' not in t:
                st.data = 'New'
            else:
                _err(c, f'{self.fn.name}: source of the decoded bytes is unclear: {ast.unparse(c.args[2])}')
            st.mod = False
            return
        if owner == '_format_funcs' and name == 'scale_down':
            if len(c.args) != 7 or not _is_slot(c.args[6], 'self', '_data') or not _is_slot(c.args[5], None, '_data') \
                    or c.args[5].value.id not in self.params:
                _err(c, f'{self.fn.name}: _format_funcs.scale_down call shape')
            if self.data_is_none(st):
                _err(c, f'{self.fn.name}: scaling into _data that is None')
            self.note_reads(c.args[5], st)
            st.data, st.mod = 'Scaled', False
            return
        # anything else: may read, must not be handed a slot of self unless it is a known reader
        for a in list(c.args) + [k.value for k in c.keywords]:
            for n in ast.walk(a):
                if _is_slot(n, 'self') and name not in READERS:
                    _err(c, f'{self.fn.name}: self.{n.attr} handed to unknown function {ast.unparse(f)}')
            self.note_reads(a, st)
            for n in ast.walk(a):
                if isinstance(n, ast.Call):
                    self.call(n, st) if self._touches(n) else None

    @staticmethod
    def _touches(node: ast.AST) -> bool:
        for n in ast.walk(node):
            if _is_slot(n):
                return True
            if isinstance(n, ast.Call) and isinstance(n.func, ast.Attribute) and n.func.attr == 'load':
                return True
            if isinstance(n, ast.Attribute) and ast.unparse(n) in ('_format_funcs.load', '_format_funcs.scale_down'):
                return True
        return False

    # ---- exits by exception
    @staticmethod
    def _own_exprs(s: ast.stmt) -> list[ast.AST]:
        """the expressions a statement evaluates itself (not the statements nested in it)"""
        if isinstance(s, ast.If):
            return [s.test]
        if isinstance(s, (ast.For, ast.While, ast.With, ast.Try)):
            return [s]              # never touches the slots (checked by run): any call inside may raise, the state is the one before
        return [s]

    def _is_self_load(self, c: ast.Call) -> bool:
        f = c.func
        return (isinstance(f, ast.Attribute) and f.attr == 'load' and isinstance(f.value, ast.Name) and f.value.id == 'self'
                and not c.args and not c.keywords)

    @staticmethod
    def _cannot_raise(c: ast.Call) -> bool:
        """calls that do not raise whatever they are given"""
        f = c.func
        if isinstance(f, ast.Name) and f.id == 'isinstance' and len(c.args) == 2:
            return True
        if isinstance(f, ast.Name) and f.id == 'getattr' and len(c.args) == 3:
            return True
        return False

    @staticmethod
    def _typed_bytes(v: ast.expr) -> bool:
        """an expression whose elements are known to be integers in 0..255"""
        if isinstance(v, ast.Call) and isinstance(v.func, ast.Name) and v.func.id == 'array' and v.args \
                and isinstance(v.args[0], ast.Constant) and v.args[0].value == 'B':
            return True
        if isinstance(v, ast.Subscript) and isinstance(v.slice, ast.Slice) and _is_slot(v.value, None, '_data'):
            return True
        return False

    def raise_exits(self, s: ast.stmt, st: _St) -> list[tuple[str, _St]]:
        """The states in which statement `s` can be left by an exception, BEFORE it has any effect of its own: one exit
        per explicit `raise`, `assert`, import and per call that can raise; `self.load()` contributes the exits of load()."""
        if isinstance(s, ast.Raise):
            return []               # run() ends the path there
        out: list[tuple[str, _St]] = []
        if isinstance(s, (ast.Assert, ast.Import, ast.ImportFrom)):
            out.append(('raise', st.copy()))
        if isinstance(s, ast.Assign):
            # several elements of the pixel array stored by one statement (`[d[o], d[o + 1], ...] = value`): an array('B')
            # rejects an element that is not an integer in 0..255, so the statement can raise after the first elements
            # were stored - unless the value is itself an array('B') (already validated) or a slice of a pixel array
            for t in s.targets:
                if isinstance(t, (ast.Tuple, ast.List)):
                    elems = [e for e in t.elts if isinstance(e, ast.Subscript) and _is_slot(e.value, 'self', '_data')]
                    if len(elems) > 1 and not self._typed_bytes(s.value):
                        st2 = st.copy()
                        st2.mod = True
                        out.append(('raise', st2))
        for e in self._own_exprs(s):
            for c in ast.walk(e):
                if not isinstance(c, ast.Call) or self._cannot_raise(c):
                    continue
                if self._is_self_load(c):
                    if self.load_raise is None:
                        _err(c, f'{self.fn.name}: recursive self.load()')
                    d, sr = not self.data_is_none(st), not self.src_is_none(st)
                    for od, om, os_ in self.load_raise[(d, sr)]:
                        st2 = st.copy()
                        if od not in ('Keep', 'None') or (od == 'None' and d):
                            st2.data, st2.mod = od, om
                        if os_ not in ('Keep', 'None') or (os_ == 'None' and sr):
                            st2.src = os_
                        out.append(('raise', st2))
                else:
                    out.append(('raise', st.copy()))
        return out

    def run(self, stmts: list[ast.stmt], st: _St) -> list[tuple[str, _St]]:
        if not stmts:
            return [('fall', st)]
        pre = self.raise_exits(stmts[0], st)
        return pre + self.run1(stmts, st)

    def run1(self, stmts: list[ast.stmt], st: _St) -> list[tuple[str, _St]]:
        """-> [(how the path ends: 'fall' | 'return' | 'raise', state)]"""
        if not stmts:
            return [('fall', st)]
        s, rest = stmts[0], stmts[1:]
        self.paths += 1
        if self.paths > 4000:
            _err(s, f'{self.fn.name}: too many paths')
        if isinstance(s, (ast.Import, ast.ImportFrom, ast.Pass, ast.Assert)):
            return self.run(rest, st)
        if isinstance(s, ast.Expr):
            if isinstance(s.value, ast.Constant):
                return self.run(rest, st)
            if isinstance(s.value, ast.Call):
                self.call(s.value, st)
                return self.run(rest, st)
            if isinstance(s.value, (ast.Yield, ast.YieldFrom)):
                return self.run(rest, st)
            _err(s, f'{self.fn.name}: unsupported expression statement')
        if isinstance(s, ast.Return):
            if s.value is not None:
                self.note_reads(s.value, st)
                for n in ast.walk(s.value):
                    if isinstance(n, ast.Call) and isinstance(n.func, ast.Attribute) and n.func.attr in ('load', 'scale_down') \
                            and self._touches(n):
                        self.call(n, st)
            return [('return', st)]
        if isinstance(s, ast.Raise):
            return [('raise', st)]
        if isinstance(s, ast.Assign):
            if isinstance(s.value, ast.Call) and self._touches(s.value.func):
                self.call(s.value, st)
            for t in s.targets:
                self.store(t, s.value, st, s)
            return self.run(rest, st)
        if isinstance(s, ast.AnnAssign):
            if s.value is not None:
                self.store(s.target, s.value, st, s)
            return self.run(rest, st)
        if isinstance(s, ast.If):
            v = self.cond(s.test, st)
            out: list[tuple[str, _St]] = []
            for branch, take in ((s.body, v is not False), (s.orelse, v is not True)):
                if not take:
                    continue
                for how, st2 in self.run(list(branch), st.copy()):
                    if how == 'fall':
                        out += self.run(rest, st2)
                    else:
                        out.append((how, st2))
            return out
        if isinstance(s, (ast.For, ast.While, ast.With, ast.Try, ast.AugAssign, ast.Delete)):
            if self._touches(s):
                _err(s, f'{self.fn.name}: {type(s).__name__} statement touching the frame slots')
            return self.run(rest, st)
        _err(s, f'{self.fn.name}: unsupported statement {type(s).__name__}')


def _touching_methods(cls: ast.ClassDef) -> list[ast.FunctionDef]:
    out = []
    for n in cls.body:
        if isinstance(n, ast.FunctionDef) and _Method._touches(n):
            if any(isinstance(d, ast.Name) and d.id == 'overload' for d in n.decorator_list):
                continue
            out.append(n)
    return out


def _table(fn: ast.FunctionDef, load_table: dict | None, load_raise: dict | None = None) -> tuple[dict, bool, dict]:
    """-> ({(d, s): sorted outcomes of the paths that return}, reads a parameter frame's pixels before loading it,
           {(d, s): sorted outcomes at the exits by exception})
    For load() itself (load_table None) the exits of load are computed directly; every other method inlines them at self.load()."""
    table: dict[tuple[bool, bool], list[tuple[str, bool, str]]] = {}
    rtable: dict[tuple[bool, bool], list[tuple[str, bool, str]]] = {}
    unloaded = False
    for d in (False, True):
        for s in (False, True):
            m = _Method(fn, (d, s), load_table, load_raise)
            outs = set()
            routs = set()
            for how, st in m.run(list(fn.body), _St()):
                unloaded = unloaded or st.unloaded_read
                dd = st.data
                if dd == 'Keep' and not d:
                    dd = 'None'
                ss = st.src
                if ss == 'Keep' and not s:
                    ss = 'None'
                if how == 'raise':
                    routs.add((dd, bool(st.mod) and dd != 'None', ss))
                    continue
                if dd == 'File' and not s:
                    _err(fn, f'{fn.name}: decodes a file source that is absent')
                outs.add((dd, bool(st.mod) and dd != 'None', ss))
            table[(d, s)] = sorted(outs)
            rtable[(d, s)] = sorted(routs)
    return table, unloaded, rtable


def _table_coq(t: dict) -> str:
    rows = []
    for d in (False, True):
        for s in (False, True):
            outs = '; '.join(f'({D_COQ[a]}, {"true" if m else "false"}, {S_COQ[c]})' for a, m, c in t[(d, s)])
            rows.append(f'(({"true" if d else "false"}, {"true" if s else "false"}), [{outs}])')
    return '[' + ';\n   '.join(rows) + ']'


def _external_stores(tree: ast.Module) -> list[tuple[str, str, str]]:
    """stores to <x>._data / <x>._fileinfo outside class Frame: (function, slot, kind)."""
    out = []
    for cls in tree.body:
        if isinstance(cls, ast.ClassDef) and cls.name == 'Frame':
            continue
        for fn in ast.walk(cls):
            if not isinstance(fn, (ast.FunctionDef, ast.AsyncFunctionDef)):
                continue
            fresh: set[str] = set()      # expressions known to hold a Frame constructed in this function
            for st in ast.walk(fn):
                if isinstance(st, ast.Assign) and isinstance(st.value, ast.Call) and ast.unparse(st.value.func) == 'Frame':
                    for t in st.targets:
                        fresh.add(ast.unparse(t))
            for st in ast.walk(fn):
                tgts = []
                if isinstance(st, ast.Assign):
                    tgts = [(t, st.value) for t in st.targets]
                elif isinstance(st, (ast.AugAssign, ast.AnnAssign)) and st.value is not None:
                    tgts = [(st.target, st.value)]
                elif isinstance(st, ast.Delete):
                    tgts = [(t, None) for t in st.targets]
                flat = []
                for t, v in tgts:
                    if isinstance(t, (ast.Tuple, ast.List)):
                        flat += [(e, v) for e in t.elts]
                    else:
                        flat.append((t, v))
                for t, v in flat:
                    base = t.value if isinstance(t, ast.Subscript) else t
                    if isinstance(base, ast.Attribute) and base.attr in SLOTS:
                        owner = ast.unparse(base.value)
                        if isinstance(t, ast.Subscript):
                            kind = 'pixels'
                        elif isinstance(v, ast.Constant) and v.value is None:
                            kind = 'none'
                        elif owner in fresh:
                            kind = 'attach_fresh'
                        else:
                            kind = 'set'
                        out.append((fn.name, base.attr, kind))
            # setattr / object.__setattr__ tricks
            for n in ast.walk(fn):
                if isinstance(n, ast.Call) and ast.unparse(n.func) in ('setattr', 'object.__setattr__'):
                    if any(isinstance(a, ast.Constant) and a.value in SLOTS for a in n.args):
                        out.append((fn.name, 'setattr', 'set'))
    return sorted(set(out))


MUTATING_CALLS = {'pop', 'popitem', 'clear', 'update', 'setdefault', 'append', 'extend', 'insert', 'remove', 'sort', 'reverse', 'add', 'discard',
                  '__setitem__', '__delitem__', '__setattr__', '__delattr__'}


def _vtf_self_stores(vtf: ast.ClassDef) -> list[tuple[str, str]]:
    """Every place where a method of class VTF other than __init__ changes the object itself: (method, attribute) for
    `self.<a> = / += / del`, `self.<a>[...] = / del`, a mutating method called on `self.<a>`, setattr(self, ...).
    (Frames are changed through their own methods and the two external stores of the census above.)"""
    out = []
    # attributes that hold a Frame (assigned `Frame(...)` in __init__): calling a method on them is a Frame method call, covered by the
    # effect tables and exits of class Frame
    frame_attrs = set()
    for fn in vtf.body:
        if isinstance(fn, ast.FunctionDef) and fn.name == '__init__':
            for n in ast.walk(fn):
                if isinstance(n, ast.Assign) and isinstance(n.value, ast.Call) and ast.unparse(n.value.func) == 'Frame':
                    for t in n.targets:
                        if isinstance(t, ast.Attribute) and isinstance(t.value, ast.Name) and t.value.id == 'self':
                            frame_attrs.add(t.attr)
    for fn in vtf.body:
        if not isinstance(fn, (ast.FunctionDef, ast.AsyncFunctionDef)) or fn.name == '__init__':
            continue
        args = [a.arg for a in fn.args.posonlyargs + fn.args.args]
        if not args or any(isinstance(d, ast.Name) and d.id in ('classmethod', 'staticmethod') for d in fn.decorator_list):
            continue
        me = args[0]

        def own(node) -> str | None:
            """`self.<a>` or `self.<a>[...]` -> a"""
            if isinstance(node, ast.Subscript):
                node = node.value
            if isinstance(node, ast.Attribute) and isinstance(node.value, ast.Name) and node.value.id == me:
                return node.attr
            return None
        for n in ast.walk(fn):
            tgts = []
            if isinstance(n, ast.Assign):
                tgts = list(n.targets)
            elif isinstance(n, (ast.AugAssign, ast.AnnAssign)):
                tgts = [n.target] if getattr(n, 'value', True) is not None else []
            elif isinstance(n, ast.Delete):
                tgts = list(n.targets)
            elif isinstance(n, (ast.For, ast.AsyncFor)):
                tgts = [n.target]
            elif isinstance(n, (ast.With, ast.AsyncWith)):
                tgts = [i.optional_vars for i in n.items if i.optional_vars is not None]
            elif isinstance(n, ast.NamedExpr):
                tgts = [n.target]
            flat = []
            while tgts:
                t = tgts.pop()
                if isinstance(t, (ast.Tuple, ast.List)):
                    tgts += t.elts
                elif isinstance(t, ast.Starred):
                    tgts.append(t.value)
                else:
                    flat.append(t)
            for t in flat:
                a = own(t)
                if a is not None:
                    out.append((fn.name, a))
            if isinstance(n, ast.Call):
                f = n.func
                if isinstance(f, ast.Attribute) and f.attr in MUTATING_CALLS and own(f.value) is not None \
                        and not (isinstance(f.value, ast.Attribute) and own(f.value) in frame_attrs):
                    out.append((fn.name, own(f.value)))
                if isinstance(f, ast.Name) and f.id in ('setattr', 'delattr') and n.args and isinstance(n.args[0], ast.Name) and n.args[0].id == me:
                    out.append((fn.name, 'setattr'))
                if isinstance(f, ast.Attribute) and f.attr in ('__setattr__', '__delattr__') and n.args \
                        and isinstance(n.args[0], ast.Name) and n.args[0].id == me:
                    out.append((fn.name, 'setattr'))
                if isinstance(f, ast.Name) and f.id == 'vars' or (isinstance(f, ast.Attribute) and f.attr == '__dict__'):
                    out.append((fn.name, '__dict__'))
            if isinstance(n, ast.Attribute) and n.attr == '__dict__' and isinstance(n.value, ast.Name) and n.value.id == me:
                out.append((fn.name, '__dict__'))
    return sorted(set(out))


def _guard(test: ast.expr, var: str) -> str:
    s = ast.unparse(test)
    d, f = f'{var}._data is None', f'{var}._fileinfo is None'
    if s == d:
        return 'GDataNone'
    if s in (f'{d} and {f}', f'{f} and {d}'):
        return 'GDataNoneAndSrcNone'
    if s == 'True':
        return 'GAlways'
    return 'GOther'


def _compute_mipmaps(fn: ast.FunctionDef) -> dict:
    info = {'loads_level0': False, 'guard': 'GOther', 'from_previous': False, 'line': fn.lineno}
    loop = None
    for n in ast.walk(fn):
        if isinstance(n, ast.For) and isinstance(n.target, ast.Name) and ast.unparse(n.iter) == 'range(1, self.mipmap_count)':
            if loop is not None:
                _err(n, 'compute_mipmaps: more than one level loop')
            loop = n
    if loop is None:
        _err(fn, 'compute_mipmaps: `for <m> in range(1, self.mipmap_count)` not found')
    mv = loop.target.id
    # the statement before the loop in the same block loads level 0
    for n in ast.walk(fn):
        body = getattr(n, 'body', None)
        if isinstance(body, list) and loop in body:
            before = body[:body.index(loop)]
            for st in before:
                if isinstance(st, ast.Expr) and isinstance(st.value, ast.Call) and isinstance(st.value.func, ast.Attribute) \
                        and st.value.func.attr == 'load' and isinstance(st.value.func.value, ast.Subscript) \
                        and ast.unparse(st.value.func.value.value) == 'self._frames' \
                        and isinstance(st.value.func.value.slice, ast.Tuple) and ast.unparse(st.value.func.value.slice.elts[-1]) == '0':
                    info['loads_level0'] = True
    frm = None
    frm_key: list[str] | None = None
    calls = []
    for st in loop.body:
        if isinstance(st, ast.Assign) and len(st.targets) == 1 and isinstance(st.targets[0], ast.Name) \
                and isinstance(st.value, ast.Subscript) and ast.unparse(st.value.value) == 'self._frames' \
                and isinstance(st.value.slice, ast.Tuple) and ast.unparse(st.value.slice.elts[-1]) == mv:
            frm = st.targets[0].id
            frm_key = [ast.unparse(e) for e in st.value.slice.elts[:-1]]
    if frm is None:
        # no local names the level: the lookup expression itself is used (`self._frames[f, s, m]._data`, `....rescale_from(`)
        lookups = {ast.unparse(n): n for st in loop.body for n in ast.walk(st)
                   if isinstance(n, ast.Subscript) and ast.unparse(n.value) == 'self._frames' and isinstance(n.slice, ast.Tuple)
                   and ast.unparse(n.slice.elts[-1]) == mv}
        if len(lookups) != 1:
            _err(loop, 'compute_mipmaps: level lookup not recognised')
        frm, node = lookups.popitem()
        frm_key = [ast.unparse(e) for e in node.slice.elts[:-1]]

    def find_calls(stmts, guard):
        for st in stmts:
            if isinstance(st, ast.If):
                if st.orelse:
                    _err(st, 'compute_mipmaps: else branch in the level loop')
                g = _guard(st.test, frm)
                find_calls(st.body, g if guard == 'GAlways' else 'GOther')
            elif isinstance(st, ast.Expr) and isinstance(st.value, ast.Call) and isinstance(st.value.func, ast.Attribute) \
                    and st.value.func.attr == 'rescale_from':
                calls.append((guard, st.value))
            elif isinstance(st, ast.Assign):
                continue
            else:
                if _Method._touches(st):
                    _err(st, 'compute_mipmaps: statement in the level loop not understood')
    find_calls(loop.body, 'GAlways')
    if len(calls) != 1:
        _err(loop, f'compute_mipmaps: {len(calls)} rescale_from calls in the level loop')
    g, c = calls[0]
    info['guard'] = g
    if ast.unparse(c.func.value) != frm:
        _err(c, 'compute_mipmaps: rescale_from is not called on the looked-up level')
    a0 = c.args[0] if c.args else None
    info['from_previous'] = (isinstance(a0, ast.Subscript) and ast.unparse(a0.value) == 'self._frames' and isinstance(a0.slice, ast.Tuple)
                             and ast.unparse(a0.slice.elts[-1]) == f'{mv} - 1'
                             and [ast.unparse(e) for e in a0.slice.elts[:-1]] == frm_key)
    return info


def _save_frames(fn: ast.FunctionDef) -> dict:
    info = {'computes_first': False, 'steps': [], 'line': fn.lineno}
    loop = None
    for n in ast.walk(fn):
        if isinstance(n, ast.For) and ast.unparse(n.iter) == 'reversed(range(self.mipmap_count))':
            loop = n
    if loop is None:
        _err(fn, 'save: frame loop not found')
    top = fn.body
    if loop not in top:
        _err(loop, 'save: frame loop is not a top-level statement of save')
    for st in top[:top.index(loop)]:
        if isinstance(st, ast.Expr) and ast.unparse(st.value) == 'self.compute_mipmaps()':
            info['computes_first'] = True
    inner = loop
    while True:
        fors = [b for b in inner.body if isinstance(b, ast.For)]
        if len(fors) != 1:
            break
        inner = fors[0]
    var = None
    buf = None          # the local that holds the encoded bytes of the frame (whatever it is called)
    steps: list[str] = []
    def _is_lookup_stmt(x) -> bool:
        if isinstance(x, ast.Try):
            return any(_is_lookup_stmt(y) for y in x.body)
        return isinstance(x, ast.Assign) and isinstance(x.value, ast.Subscript) and ast.unparse(x.value.value) == 'self._frames'
    if not any(_is_lookup_stmt(x) for x in inner.body):
        # no local names the looked-up frame: the lookup expression itself is used throughout
        exprs = {ast.unparse(y) for x in inner.body for y in ast.walk(x) if isinstance(y, ast.Subscript) and ast.unparse(y.value) == 'self._frames'}
        if len(exprs) == 1:
            var = exprs.pop()
    for st in inner.body:
        if isinstance(st, ast.Try) and len(st.body) == 1 and not st.orelse and not st.finalbody and len(st.handlers) == 1 \
                and len(st.handlers[0].body) == 1 and isinstance(st.handlers[0].body[0], ast.Assign) \
                and isinstance(st.handlers[0].body[0].value, ast.Call) and ast.unparse(st.handlers[0].body[0].value.func) == 'Frame' \
                and isinstance(st.body[0], ast.Assign) and ast.unparse(st.body[0].targets[0]) == ast.unparse(st.handlers[0].body[0].targets[0]):
            # `try: frame = self._frames[key]  except KeyError: frame = Frame(...)`: a side the object does not have is a fresh
            # frame (no pixels, no file source: written blank); the shape of the handler is judged by the layout translator
            st = st.body[0]
        if isinstance(st, ast.Assign) and isinstance(st.value, ast.Subscript) and ast.unparse(st.value.value) == 'self._frames':
            var = st.targets[0].id if isinstance(st.targets[0], ast.Name) else None
            continue
        if var is None:
            _err(st, 'save: statement before the frame lookup')
        s = ast.unparse(st)
        if s == f'{var}.load()':
            steps.append('SvLoad')
        elif buf is not None and isinstance(st, ast.If) and ast.unparse(st.test) == f'{var}._data is not None' and not st.orelse and len(st.body) == 1 \
                and ast.unparse(st.body[0]).startswith(f'_format_funcs.save(self.format, {var}._data, {buf},'):
            steps.append('SvEncodeIfData')
        elif buf is not None and s.startswith(f'_format_funcs.save(self.format, {var}._data, {buf},'):
            steps.append('SvEncodeAlways')
        elif buf is not None and s == f'file.write({buf})':
            steps.append('SvWrite')
        elif isinstance(st, ast.Assign) and len(st.targets) == 1 and isinstance(st.targets[0], ast.Name) \
                and ast.unparse(st.value).startswith('bytearray(self.format.frame_size(') and buf in (None, st.targets[0].id):
            buf = st.targets[0].id
            continue
        else:
            _err(st, f'save: statement in the frame loop not understood: {s[:70]}')
    info['steps'] = steps
    return info


def frame_info() -> dict:
    tree = c15_norm.normalised_tree(src_text('vtf.py'))
    frame = next((n for n in tree.body if isinstance(n, ast.ClassDef) and n.name == 'Frame'), None)
    vtf = next((n for n in tree.body if isinstance(n, ast.ClassDef) and n.name == 'VTF'), None)
    if frame is None or vtf is None:
        raise TranslateError('vtf.py: class Frame / VTF not found')
    slots = None
    for st in frame.body:
        if isinstance(st, ast.Assign) and ast.unparse(st.targets[0]) == '__slots__':
            slots = ast.literal_eval(st.value)
    if slots is None or set(slots) != {'width', 'height', '_data', '_fileinfo'}:
        raise TranslateError(f'Frame.__slots__ changed: {slots}')
    methods = {m.name: m for m in _touching_methods(frame)}
    if 'load' not in methods:
        raise TranslateError('Frame.load not found')
    load_t, _, load_r = _table(methods['load'], None)
    load_inl = {k: v for k, v in load_t.items()}
    tables = {'load': load_t}
    rtables = {'load': load_r}
    unloaded = {}
    for name, fn in methods.items():
        if name == 'load':
            continue
        t, u, r = _table(fn, load_inl, load_r)
        tables[name] = t
        rtables[name] = r
        unloaded[name] = u
    vm = {n.name: n for n in vtf.body if isinstance(n, ast.FunctionDef)}
    for need in ('compute_mipmaps', 'save'):
        if need not in vm:
            raise TranslateError(f'VTF.{need} not found')
    return {'tables': tables, 'raise_tables': rtables, 'unloaded_reads': unloaded, 'external': _external_stores(tree), 'vtf_self_stores': _vtf_self_stores(vtf),
            'compute': _compute_mipmaps(vm['compute_mipmaps']), 'save': _save_frames(vm['save'])}


NAMED = ['__init__', 'load', 'clear', 'fill', 'copy_from', 'rescale_from', '__setitem__']


def translate_frame() -> tuple[str, dict]:
    info = frame_info()
    t = info['tables']
    b = lambda x: 'true' if x else 'false'
    L = ['(* GENERATED by translate/c15_frame.py from src/srctools/vtf.py. Do not edit. *)',
         'From Coq Require Import List Bool String.', 'From SV Require Import Fmt.VtfFrameSM.', 'Import ListNotations.',
         'Open Scope string_scope.', '']
    for name in NAMED:
        cname = name.strip('_')
        if name in t:
            L.append(f'Definition gen_eff_{cname} : efftable :=\n  {_table_coq(t[name])}.')
        else:
            L.append(f'Definition gen_eff_{cname} : efftable := [].   (* method not found or does not touch the slots *)')
    others = [n for n in t if n not in NAMED]
    L.append('(* every other method of Frame that touches _data / _fileinfo *)')
    L.append('Definition gen_eff_others : list (string * efftable) := [')
    L.append(';\n'.join(f'  ("{n}", {_table_coq(t[n])})' for n in others))
    L.append('].')
    L.append('(* the exits by exception of every method of Frame that touches _data / _fileinfo: per abstract pre-state the outcomes reached at an explicit')
    L.append('   raise, an assert, an import or a call that can raise (self.load() contributes the exits of load); meaning: Fmt/VtfFrameRaise.v *)')
    L.append('Definition gen_raise_tables : list (string * efftable) := [')
    L.append(';\n'.join(f'  ("{n}", {_table_coq(rt)})' for n, rt in info['raise_tables'].items()))
    L.append('].')
    L.append('(* methods that read the pixels of a frame passed as a parameter before calling its load() *)')
    L.append('Definition gen_unloaded_reads : list string := [' + '; '.join(f'"{n}"' for n, u in info['unloaded_reads'].items() if u) + '].')
    L.append('(* stores to the slots outside class Frame: (function, slot, kind) *)')
    L.append('Definition gen_external_stores : list (string * string * string) := ['
             + '; '.join(f'("{f}", "{s}", "{k}")' for f, s, k in info['external']) + '].')
    L.append('(* places where a method of VTF other than __init__ changes an attribute of the object itself: (method, attribute) *)')
    L.append('Definition gen_vtf_self_stores : list (string * string) := ['
             + '; '.join(f'("{f}", "{a}")' for f, a in info['vtf_self_stores']) + '].')
    cm, sv = info['compute'], info['save']
    L.append(f'(* VTF.compute_mipmaps, vtf.py:{cm["line"]}; VTF.save, vtf.py:{sv["line"]} *)')
    L.append('Definition gen_chaincfg : chaincfg := {|')
    L.append(f'  cm_loads_level0 := {b(cm["loads_level0"])}; cm_guard := {cm["guard"]}; cm_from_previous := {b(cm["from_previous"])};')
    L.append(f'  rs_loads_parent := {b(not info["unloaded_reads"].get("rescale_from", True))};')
    L.append(f'  sv_computes_first := {b(sv["computes_first"])}; sv_steps := [{"; ".join(sv["steps"])}] |}}.')
    L.append('')
    side = {'tables': {n: {f'{int(k[0])}{int(k[1])}': v for k, v in tb.items()} for n, tb in t.items()},
            'raise_tables': {n: {f'{int(k[0])}{int(k[1])}': v for k, v in tb.items()} for n, tb in info['raise_tables'].items()},
            'unloaded_reads': info['unloaded_reads'], 'external': info['external'], 'vtf_self_stores': info['vtf_self_stores'], 'compute': cm, 'save': sv}
    return '\n'.join(L), side


GEN = {'VtfFrameSM_gen': translate_frame}
