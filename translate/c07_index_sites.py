"""C07 translator: census of every site that writes Entity._keys or updates VMF.by_class / VMF.by_target,
in every module of srctools  ->  Gen/IndexSites_gen.v.

Fail-closed: an unknown method called on a `._keys` attribute, an index update whose shape is not recognised, or an
assignment to `.by_class` / `.by_target` / `._keys` outside a constructor raises TranslateError.

What is generated
  key_writers   : (function, how)      every function containing a store into / mutating call on `X._keys`
  index_sites   : (function, index, add|remove, key class, guarded)
                  key class: KFolded  `<e>.casefold()`            (by_class)
                             KFoldedOrNone `<e>.casefold() or None`
                             KLit "..." / KNone                   literal key
                             KRaw                                 anything else (an un-folded value)
                  guarded  : for `.add(self)` inside an Entity method, is it under an `if` that tests membership in the
                             map (`self in self.map.entities` / `self is self.map.spawn`)?  true for non-Entity sites.
"""
from __future__ import annotations

import ast
import copy

from harness.common import SRC, TranslateError, ast_digest

KEYS_READ_ONLY = {'get', 'items', 'keys', 'values', 'copy', '__contains__', '__len__', '__iter__'}
KEYS_MUTATORS = {'pop', 'clear', 'update', 'setdefault', 'popitem', '__setitem__', '__delitem__'}
INDEXES = ('by_class', 'by_target')


def _functions(tree: ast.AST):
    """Yield (qualified name, class name, FunctionDef) for every outermost function of the module / its classes."""
    def walk(node, cls):
        for ch in ast.iter_child_nodes(node):
            if isinstance(ch, ast.ClassDef):
                yield from walk(ch, ch.name)
            elif isinstance(ch, (ast.FunctionDef, ast.AsyncFunctionDef)):
                yield (f'{cls}.{ch.name}' if cls else ch.name), cls, ch
            elif isinstance(ch, (ast.If, ast.Try, ast.With)):
                yield from walk(ch, cls)
    yield from walk(tree, None)


def _is_attr(node, name) -> bool:
    return isinstance(node, ast.Attribute) and node.attr == name


def _index_of(node) -> str | None:
    """`<x>.by_class` / `<x>.by_target` -> index name."""
    if isinstance(node, ast.Attribute) and node.attr in INDEXES:
        return node.attr
    return None


def _key_class(node) -> str:
    def folded(n) -> bool:
        return (isinstance(n, ast.Call) and isinstance(n.func, ast.Attribute) and n.func.attr == 'casefold'
                and not n.args and not n.keywords)
    if folded(node):
        return 'KFolded'
    if isinstance(node, ast.BoolOp) and isinstance(node.op, ast.Or) and len(node.values) == 2 \
            and folded(node.values[0]) and isinstance(node.values[1], ast.Constant) and node.values[1].value is None:
        return 'KFoldedOrNone'
    if isinstance(node, ast.Constant) and node.value is None:
        return 'KNone'
    if isinstance(node, ast.Constant) and isinstance(node.value, str):
        if '"' in node.value or not node.value.isascii():
            raise TranslateError(f'line {node.lineno}: literal index key {node.value!r} not representable')
        return f'(KLit "{node.value}")'
    return 'KRaw'


def _key_source(node: ast.expr, fn: ast.AST) -> str:
    """Where the value that is folded into an index key comes from.
    SGet "k"  : <entity>['k'] / <entity>['k', ''] / <entity>.get('k'...)  (Entity.__getitem__: case-insensitive lookup)
    SOrig     : a variable assigned from self._keys.get(...) / self._keys[...] in this function (the previous value)
    SNew      : a variable assigned from conv_kv(...) in this function (the value being stored)
    SLitKey   : a literal key;   SOther : anything else."""
    if isinstance(node, ast.Constant):
        return 'SLitKey'
    if isinstance(node, ast.BoolOp) and isinstance(node.op, ast.Or) and len(node.values) == 2 \
            and isinstance(node.values[1], ast.Constant) and node.values[1].value is None:
        node = node.values[0]
    if not (isinstance(node, ast.Call) and isinstance(node.func, ast.Attribute) and node.func.attr == 'casefold' and not node.args):
        return 'SOther'
    v = node.func.value
    if isinstance(v, ast.BoolOp) and isinstance(v.op, ast.Or) and len(v.values) == 2 \
            and isinstance(v.values[1], ast.Constant) and v.values[1].value == '':
        v = v.values[0]                                   # (orig_val or '')
    if isinstance(v, ast.Subscript) and isinstance(v.value, ast.Name):
        k = v.slice
        if isinstance(k, ast.Tuple) and len(k.elts) == 2 and isinstance(k.elts[1], ast.Constant) and k.elts[1].value == '':
            k = k.elts[0]
        if isinstance(k, ast.Constant) and isinstance(k.value, str) and k.value.isidentifier():
            return f'(SGet "{k.value}" "{v.value.id}")'
        return 'SOther'
    if isinstance(v, ast.Call) and isinstance(v.func, ast.Name) and v.func.id == 'conv_kv':
        return 'SNew'                                     # the converted new value, inlined
    if isinstance(v, ast.Name):
        for n in ast.walk(fn):
            if isinstance(n, ast.Assign) and any(isinstance(t, ast.Name) and t.id == v.id for t in n.targets):
                val = n.value
                if isinstance(val, ast.Call) and isinstance(val.func, ast.Name) and val.func.id == 'conv_kv':
                    return 'SNew'
                if any(_is_attr(x, '_keys') for x in ast.walk(val)):
                    return 'SOrig'
        return 'SOther'
    return 'SOther'


def _stores(fn: ast.AST) -> dict[str, int]:
    """How often each plain name is bound inside `fn` (any binding form)."""
    cnt: dict[str, int] = {}

    def bump(name: str, n: int = 1) -> None:
        cnt[name] = cnt.get(name, 0) + n
    for n in ast.walk(fn):
        if isinstance(n, ast.Name) and isinstance(n.ctx, (ast.Store, ast.Del)):
            bump(n.id)
        elif isinstance(n, ast.arg):
            bump(n.arg)
        elif isinstance(n, (ast.Global, ast.Nonlocal)):
            for nm in n.names:
                bump(nm, 2)
        elif isinstance(n, ast.ExceptHandler) and n.name:
            bump(n.name)
        elif isinstance(n, (ast.Import, ast.ImportFrom)):
            for a in n.names:
                bump((a.asname or a.name).split('.')[0])
        elif isinstance(n, (ast.FunctionDef, ast.AsyncFunctionDef, ast.ClassDef)) and n is not fn:
            bump(n.name, 2)
    return cnt


def _inlinable(e: ast.AST) -> bool:
    for x in ast.walk(e):
        if isinstance(x, ast.Call):
            f = x.func
            if not ((isinstance(f, ast.Attribute) and f.attr in ('casefold', 'get')) or (isinstance(f, ast.Name) and f.id == 'conv_kv')):
                return False
        elif not isinstance(x, (ast.Name, ast.Attribute, ast.Constant, ast.BoolOp, ast.UnaryOp, ast.Compare, ast.Subscript, ast.Tuple,
                                ast.expr_context, ast.boolop, ast.unaryop, ast.cmpop, ast.keyword)):
            return False
    return True


class _Subst(ast.NodeTransformer):
    def __init__(self, env: dict[str, ast.expr]) -> None:
        self.env = env
        self.changed = False

    def visit_Name(self, node: ast.Name) -> ast.AST:
        if isinstance(node.ctx, ast.Load) and node.id in self.env:
            self.changed = True
            return copy.deepcopy(self.env[node.id])
        return node


def _normalised(fn: ast.AST) -> ast.AST:
    """A copy of `fn` in which every local that is bound exactly once, by a plain `name = <expression>`, is replaced
    by that expression wherever it is read (key locals such as `old = (orig_val or '').casefold()`, boolean locals
    such as `in_map = self in self.map.entities`, aliases such as `ix = self.by_class`).  Only used to *classify* the
    index-update sites (is the key folded, where does it come from, which tests guard it)."""
    fn = copy.deepcopy(fn)
    cnt = _stores(fn)
    env: dict[str, ast.expr] = {}
    for n in ast.walk(fn):
        tgt = val = None
        if isinstance(n, ast.Assign) and len(n.targets) == 1:
            tgt, val = n.targets[0], n.value
        elif isinstance(n, ast.AnnAssign) and n.value is not None:
            tgt, val = n.target, n.value
        # (keys, tests and aliases only: names, attributes, subscripts, constants, boolean operators, comparisons and the
        # calls .casefold() / .get(...) / conv_kv(...) — not `worldspawn = Entity.parse(...)`, which makes an object)
        if isinstance(tgt, ast.Name) and cnt.get(tgt.id) == 1 and _inlinable(val):
            env[tgt.id] = val
    for _ in range(8):                   # locals defined in terms of other locals
        sub = _Subst(env)
        for k in list(env):
            env[k] = sub.visit(copy.deepcopy(env[k]))
        if not sub.changed:
            break
    else:
        raise TranslateError(f'line {getattr(fn, "lineno", 0)}: cyclic local definitions')
    return ast.fix_missing_locations(_Subst(env).visit(fn))


def _exits(block: list[ast.stmt]) -> bool:
    return bool(block) and isinstance(block[-1], (ast.Return, ast.Raise, ast.Continue, ast.Break))


def _branch(tests: list[str]) -> str:
    """Which keyvalue the innermost positive enclosing test is about."""
    for t in reversed(tests):
        if t.startswith('not ('):
            continue
        if "'classname'" in t:
            return 'classname'
        if "'targetname'" in t:
            return 'targetname'
    return ''


def _guard_tests(fn: ast.AST, target: ast.AST) -> list[str]:
    """Source text of the tests that hold when `target` inside `fn` is reached: the tests of all enclosing `if`
    statements, and the negation of the test of every earlier `if c: ...; return/raise` of an enclosing block
    (an early exit is `if c: ... else: <the rest of the block>`)."""
    out: list[str] = []

    def block(stmts: list[ast.stmt], tests: list[str]) -> bool:
        tests = list(tests)
        for st in stmts:
            if walk(st, tests):
                return True
            if isinstance(st, ast.If):
                if _exits(st.body) and not _exits(st.orelse):
                    tests.append('not (' + ast.unparse(st.test) + ')')
                elif _exits(st.orelse) and not _exits(st.body):
                    tests.append(ast.unparse(st.test))
        return False

    def walk(node, tests) -> bool:
        if node is target:
            out.extend(tests)
            return True
        if isinstance(node, ast.If):
            if block(node.body, tests + [ast.unparse(node.test)]):
                return True
            if block(node.orelse, tests + ['not (' + ast.unparse(node.test) + ')']):
                return True
            return walk(node.test, tests)
        for name, val in ast.iter_fields(node):
            if isinstance(val, list) and val and all(isinstance(x, ast.stmt) for x in val):
                if block(val, tests):
                    return True
            elif isinstance(val, list):
                for ch in val:
                    if isinstance(ch, ast.AST) and walk(ch, tests):
                        return True
            elif isinstance(val, ast.AST) and walk(val, tests):
                return True
        return False
    walk(fn, [])
    return out


READ_BUILTINS = {'len', 'iter', 'list', 'dict', 'sorted', 'set', 'tuple', 'bool', 'repr', 'str', 'frozenset', 'enumerate', 'reversed'}
LIST_ONLY_MUTATORS = {'append', 'extend', 'insert', 'remove', 'sort', 'reverse'}
LIST_OR_DICT_MUTATORS = {'pop', 'clear', 'update', 'setdefault', 'popitem', '__setitem__', '__delitem__'}
FGD_MODULES = {'fgd.py', '_engine_db.py', '_fgd_helpers.py', '_class_resources.py'}   # `.entities` is the FGD's dict there


def _callee_name(call: ast.Call) -> str:
    f = call.func
    if isinstance(f, ast.Name):
        return f.id
    if isinstance(f, ast.Attribute):
        return f.attr
    return '?'


def _key_dict_escapes(qual: str, fn: ast.AST, rel: str, out: list) -> None:
    """Every occurrence of `X._keys` that is neither a recognised read nor one of the writer forms handled by the
    main loop lets the dict escape (alias, argument, return value): record (function, how)."""
    parent: dict[int, ast.AST] = {}
    for n in ast.walk(fn):
        for ch in ast.iter_child_nodes(n):
            parent[id(ch)] = n
    for n in ast.walk(fn):
        if not _is_attr(n, '_keys'):
            continue
        p = parent.get(id(n))
        if isinstance(p, ast.Subscript) and p.value is n:
            continue                                    # self._keys[k]  load / store / del
        if isinstance(p, ast.Attribute) and p.value is n:
            pp = parent.get(id(p))
            if isinstance(pp, ast.Call) and pp.func is p:
                continue                                # self._keys.meth(...)  classified by the main loop
            out.append((qual, f'bound-method:{p.attr}', rel, n.lineno))
            continue
        if isinstance(p, (ast.Assign, ast.AnnAssign, ast.AugAssign)) and (n in getattr(p, 'targets', []) or getattr(p, 'target', None) is n):
            continue                                    # self._keys = ...  recorded as 'assign'
        if isinstance(p, (ast.For, ast.comprehension)) and p.iter is n:
            continue                                    # for k in self._keys
        if isinstance(p, ast.Compare) and n in p.comparators and all(isinstance(o, (ast.In, ast.NotIn)) for o in p.ops):
            continue                                    # k in self._keys
        if isinstance(p, ast.Call) and n in p.args and isinstance(p.func, ast.Name) and p.func.id in READ_BUILTINS:
            continue                                    # len(self._keys) ...
        if isinstance(p, ast.Return):
            out.append((qual, 'return', rel, n.lineno))
        elif isinstance(p, ast.keyword):
            pp = parent.get(id(p))
            out.append((qual, f'arg:{_callee_name(pp) if isinstance(pp, ast.Call) else "?"}', rel, n.lineno))
        elif isinstance(p, ast.Call) and n in p.args:
            out.append((qual, f'arg:{_callee_name(p)}', rel, n.lineno))
        elif isinstance(p, (ast.Assign, ast.AnnAssign)):
            out.append((qual, 'alias', rel, n.lineno))
        else:
            out.append((qual, f'other:{type(p).__name__}', rel, n.lineno))


def _entity_list_writers(qual: str, fn: ast.AST, rel: str, out_list: list, out_spawn: list) -> None:
    """Mutations of a `.entities` list and assignments to `.spawn`."""
    for n in ast.walk(fn):
        if isinstance(n, ast.Call) and isinstance(n.func, ast.Attribute) and _is_attr(n.func.value, 'entities'):
            m = n.func.attr
            if m in LIST_ONLY_MUTATORS or (m in LIST_OR_DICT_MUTATORS and rel not in FGD_MODULES):
                out_list.append((qual, m, rel, n.lineno))
        if isinstance(n, (ast.Assign, ast.AugAssign, ast.AnnAssign, ast.Delete)):
            tgts = n.targets if isinstance(n, (ast.Assign, ast.Delete)) else [n.target]
            for t in tgts:
                for sub in ast.walk(t):
                    if rel not in FGD_MODULES:
                        if isinstance(sub, ast.Subscript) and _is_attr(sub.value, 'entities'):
                            out_list.append((qual, 'del' if isinstance(n, ast.Delete) else 'store', rel, n.lineno))
                        elif _is_attr(sub, 'entities') and sub is t:
                            out_list.append((qual, 'augassign' if isinstance(n, ast.AugAssign) else 'assign', rel, n.lineno))
                    if rel == 'vmf.py' and _is_attr(sub, 'spawn') and sub is t:
                        out_spawn.append((qual, 'assign', rel, n.lineno))


def _remove_ent_guards(fn: ast.FunctionDef) -> tuple[bool, bool]:
    """VMF.remove_ent: are the index removals reached only when the item is not the worldspawn / is no longer in the
    entity list (it may have been added more than once)?  Recognised: an earlier `if <a> or <b>: return` at the top
    level of the function, or an enclosing `if <not a> and <not b>:`; a test may be held in a local.  The membership
    test only counts when it is evaluated after `self.entities.remove(item)`."""
    if len(fn.args.args) != 2:
        raise TranslateError('VMF.remove_ent: unexpected parameters')
    item = fn.args.args[1].arg
    env: dict[str, tuple[ast.expr, bool]] = {}

    def is_item(e: ast.AST) -> bool:
        return isinstance(e, ast.Name) and e.id == item

    def pos(t: ast.expr, removed: bool, depth: int = 0) -> set[str]:
        """the facts among {spawn, listed} each of which makes `t` true (t: a disjunction)"""
        if depth > 8:
            return set()
        if isinstance(t, ast.BoolOp) and isinstance(t.op, ast.Or):
            return set().union(*(pos(x, removed, depth + 1) for x in t.values))
        if isinstance(t, ast.UnaryOp) and isinstance(t.op, ast.Not):
            return neg(t.operand, removed, depth + 1)
        if isinstance(t, ast.Name) and t.id in env:
            return pos(env[t.id][0], env[t.id][1], depth + 1)
        if isinstance(t, ast.Compare) and len(t.ops) == 1:
            a, b = t.left, t.comparators[0]
            if isinstance(t.ops[0], ast.Is) and ((is_item(a) and _is_attr(b, 'spawn')) or (is_item(b) and _is_attr(a, 'spawn'))):
                return {'spawn'}
            if isinstance(t.ops[0], ast.In) and is_item(a) and _is_attr(b, 'entities') and removed:
                return {'listed'}
        return set()

    def neg(t: ast.expr, removed: bool, depth: int = 0) -> set[str]:
        """the facts that are excluded when `t` is true (t: a conjunction of negated facts)"""
        if depth > 8:
            return set()
        if isinstance(t, ast.BoolOp) and isinstance(t.op, ast.And):
            return set().union(*(neg(x, removed, depth + 1) for x in t.values))
        if isinstance(t, ast.UnaryOp) and isinstance(t.op, ast.Not):
            return pos(t.operand, removed, depth + 1)
        if isinstance(t, ast.Name) and t.id in env:
            return neg(env[t.id][0], env[t.id][1], depth + 1)
        if isinstance(t, ast.Compare) and len(t.ops) == 1:
            a, b = t.left, t.comparators[0]
            if isinstance(t.ops[0], ast.IsNot) and ((is_item(a) and _is_attr(b, 'spawn')) or (is_item(b) and _is_attr(a, 'spawn'))):
                return {'spawn'}
            if isinstance(t.ops[0], ast.NotIn) and is_item(a) and _is_attr(b, 'entities') and removed:
                return {'listed'}
        return set()

    excluded: set[str] = set()
    removed = False
    stores = _stores(fn)
    for st in fn.body:
        if any(isinstance(n, ast.Call) and isinstance(n.func, ast.Name) and n.func.id == '_remove_copyset' for n in ast.walk(st)):
            if isinstance(st, ast.If) and not any(
                    isinstance(n, ast.Call) and isinstance(n.func, ast.Name) and n.func.id == '_remove_copyset'
                    for o in st.orelse for n in ast.walk(o)):
                excluded |= neg(st.test, removed)
            break
        if any(isinstance(n, ast.Call) and isinstance(n.func, ast.Attribute) and n.func.attr == 'remove'
               and _is_attr(n.func.value, 'entities') for n in ast.walk(st)):
            removed = True
        if isinstance(st, ast.AnnAssign) and st.value is not None:
            st = ast.Assign(targets=[st.target], value=st.value, lineno=st.lineno)
        if isinstance(st, ast.Assign) and len(st.targets) == 1 and isinstance(st.targets[0], ast.Name) \
                and stores.get(st.targets[0].id) == 1:
            env[st.targets[0].id] = (st.value, removed)
        if isinstance(st, ast.If) and _exits(st.body) and isinstance(st.body[-1], ast.Return) and not st.orelse:
            excluded |= pos(st.test, removed)
    return 'spawn' in excluded, 'listed' in excluded


def translate() -> tuple[str, dict]:
    remove_guards: tuple[bool, bool] | None = None
    key_escapes: list[tuple[str, str, str, int]] = []
    key_sources: list[tuple] = []      # func, index, is_add, source, entity expression, branch
    ent_list_writers: list[tuple[str, str, str, int]] = []
    spawn_writers: list[tuple[str, str, str, int]] = []
    key_writers: list[tuple[str, str, str, int]] = []     # func, how, file, line
    index_sites: list[tuple[str, str, str, str, bool, str, int]] = []
    method_calls: list[tuple[str, str]] = []
    digests: dict[str, str] = {}
    for path in sorted(SRC.glob('*.py')):
        rel = path.name
        try:
            tree = ast.parse(path.read_text(encoding='utf8'))
        except SyntaxError as e:
            raise TranslateError(f'{rel}: {e}') from None
        # reflective access (getattr(x, '_keys'), vars(x)['by_class'], ...) would bypass the census: fail closed
        for n in ast.walk(tree):
            if isinstance(n, ast.Constant) and n.value in ('_keys', 'by_class', 'by_target'):
                raise TranslateError(f'{rel}:{n.lineno}: the name {n.value!r} appears as a string (reflective access?)')
        for qual, cls, fn in _functions(tree):
            if rel == 'vmf.py' and qual in ('VMF.search', 'Entity.make_unique', 'CopySet.__iter__', '_remove_copyset'):
                digests[qual] = ast_digest(fn)
            if rel == 'vmf.py' and qual == 'VMF.remove_ent':
                remove_guards = _remove_ent_guards(fn)
            _key_dict_escapes(qual, fn, rel, key_escapes)
            _entity_list_writers(qual, fn, rel, ent_list_writers, spawn_writers)
            # round 4: `<x>.spawn = <local>` as a top-level statement of the function makes `<x>.spawn` another name of that
            # local for every site further down (the entity that is filed may be written either way)
            spawn_alias: dict[str, tuple[str, int]] = {}
            for st in getattr(fn, 'body', []):
                if isinstance(st, ast.Assign) and len(st.targets) == 1 and isinstance(st.targets[0], ast.Attribute) \
                        and st.targets[0].attr == 'spawn' and isinstance(st.value, ast.Name):
                    spawn_alias[ast.unparse(st.targets[0])] = (st.value.id, st.lineno)
            for node in ast.walk(fn):
                # ---- Entity._keys writers
                if isinstance(node, (ast.Assign, ast.AugAssign, ast.AnnAssign, ast.Delete)):
                    tgts = node.targets if isinstance(node, (ast.Assign, ast.Delete)) else [node.target]
                    for t in tgts:
                        for sub in ast.walk(t):
                            if isinstance(sub, ast.Subscript) and _is_attr(sub.value, '_keys'):
                                key_writers.append((qual, 'del' if isinstance(node, ast.Delete) else 'store', rel, node.lineno))
                            elif _is_attr(sub, '_keys') and sub is t:
                                key_writers.append((qual, 'assign', rel, node.lineno))
                            ix = _index_of(sub.value) if isinstance(sub, ast.Subscript) else None
                            if ix is not None:
                                # `x.by_class[k] = ...` / `del x.by_class[k]` outside _remove_copyset
                                if qual != '_remove_copyset':
                                    raise TranslateError(f'{rel}:{node.lineno}: direct store/delete on {ix} in {qual}')
                            if _index_of(sub) is not None and sub is t and not qual.endswith('.__init__'):
                                raise TranslateError(f'{rel}:{node.lineno}: {sub.attr} re-assigned in {qual}')
                if isinstance(node, ast.Call) and isinstance(node.func, ast.Attribute):
                    recv, meth = node.func.value, node.func.attr
                    if _is_attr(recv, '_keys'):
                        if meth in KEYS_MUTATORS:
                            key_writers.append((qual, meth, rel, node.lineno))
                        elif meth not in KEYS_READ_ONLY:
                            raise TranslateError(f'{rel}:{node.lineno}: unknown method _keys.{meth} in {qual}')
            # ---- index updates, classified on the normalised function (single-assignment locals inlined)
            touches = any((isinstance(n, ast.Attribute) and n.attr in INDEXES) or (isinstance(n, ast.Name) and n.id == '_remove_copyset')
                          for n in ast.walk(fn))
            if rel == 'vmf.py' and cls is not None:
                for n in ast.walk(fn):
                    if isinstance(n, ast.Call) and isinstance(n.func, ast.Attribute) and isinstance(n.func.value, ast.Name) \
                            and n.func.value.id == 'self':
                        method_calls.append((qual, f'{cls}.{n.func.attr}'))
            fn0, fn = fn, (_normalised(fn) if touches else fn)
            for node in (ast.walk(fn) if touches else ()):
                if isinstance(node, ast.Call) and isinstance(node.func, ast.Attribute):
                    recv, meth = node.func.value, node.func.attr
                    # x.by_class[KEY].add(ENT)
                    if isinstance(recv, ast.Subscript) and _index_of(recv.value) is not None:
                        ix = _index_of(recv.value)
                        if meth == 'add':
                            guarded = True
                            if cls == 'Entity':
                                tests = ' ; '.join(_guard_tests(fn, node))
                                guarded = ('self.map.entities' in tests) or ('self.map.spawn' in tests)
                            index_sites.append((qual, ix, 'add', _key_class(recv.slice), guarded, rel, node.lineno))
                            ent = '?'
                            if len(node.args) == 1 and isinstance(node.args[0], (ast.Name, ast.Attribute)):
                                ent = ast.unparse(node.args[0])
                                if ent in spawn_alias and node.lineno > spawn_alias[ent][1]:
                                    ent = spawn_alias[ent][0]
                            key_sources.append((qual, ix, True, _key_source(recv.slice, fn), ent,
                                                _branch(_guard_tests(fn, node)) if cls == 'Entity' else ''))
                        elif meth in ('discard', 'remove', 'clear', 'update', 'pop', 'difference_update',
                                      'intersection_update', 'symmetric_difference_update'):
                            raise TranslateError(f'{rel}:{node.lineno}: index set mutated with .{meth} in {qual}')
                    if _index_of(recv) is not None and meth in ('clear', 'pop', 'popitem', 'update', 'setdefault'):
                        raise TranslateError(f'{rel}:{node.lineno}: {recv.attr}.{meth}() in {qual}')
                if isinstance(node, ast.Call) and isinstance(node.func, ast.Name) and node.func.id == '_remove_copyset':
                    if len(node.args) != 3 or _index_of(node.args[0]) is None:
                        raise TranslateError(f'{rel}:{node.lineno}: unrecognised _remove_copyset call in {qual}')
                    index_sites.append((qual, _index_of(node.args[0]), 'remove', _key_class(node.args[1]), True, rel, node.lineno))
                    ent = node.args[2].id if isinstance(node.args[2], ast.Name) else (
                        ast.unparse(node.args[2]) if isinstance(node.args[2], ast.Attribute) else '?')
                    key_sources.append((qual, _index_of(node.args[0]), False, _key_source(node.args[1], fn), ent,
                                        _branch(_guard_tests(fn, node)) if cls == 'Entity' else ''))
    if not key_writers or not index_sites:
        raise TranslateError('no Entity._keys writer / index update site found: vmf.py not recognised')
    for need in ('VMF.search', 'Entity.make_unique', '_remove_copyset'):
        if need not in digests:
            raise TranslateError(f'{need} not found in vmf.py')
    writers = sorted({(f, h) for f, h, _, _ in key_writers})
    lines = [
        '(* GENERATED by translate/c07_index_sites.py from /repo/src/srctools/*.py. Do not edit. *)',
        'From Coq Require Import List String.', 'Import ListNotations.', 'Open Scope string_scope.',
        'Inductive keyclass := KFolded | KFoldedOrNone | KNone | KLit (s : string) | KRaw.',
        '(* every function that stores into / mutates an Entity._keys dict, and how *)',
        'Definition key_writers : list (string * string) := [',
        ';\n'.join(f'  ("{f}", "{h}")' for f, h in writers),
        '].',
        '(* every place where an Entity._keys dict escapes (returned, passed on, aliased): function, how *)',
        'Definition key_escapes : list (string * string) := [',
        ';\n'.join(f'  ("{f}", "{h}")' for f, h in sorted({(f, h) for f, h, _, _ in key_escapes})),
        '].',
        '(* every function mutating a VMF.entities list / assigning VMF.spawn *)',
        'Definition entity_list_writers : list (string * string) := [',
        ';\n'.join(f'  ("{f}", "{h}")' for f, h in sorted({(f, h) for f, h, _, _ in ent_list_writers})),
        '].',
        '(* VMF.remove_ent returns before touching the indexes when the item is the worldspawn / is still listed *)',
        f'Definition remove_ent_skips_worldspawn : bool := {"true" if remove_guards[0] else "false"}.',
        f'Definition remove_ent_skips_still_listed : bool := {"true" if remove_guards[1] else "false"}.',
        'Definition spawn_writers : list (string * string) := [',
        ';\n'.join(f'  ("{f}", "{h}")' for f, h in sorted({(f, h) for f, h, _, _ in spawn_writers})),
        '].',
        '(* where the folded value of every index update comes from: function, index, is_add, source, the entity',
        '   added / removed, the keyvalue the enclosing branch of an Entity method is about *)',
        'Inductive keysrc := SGet (key ent : string) | SOrig | SNew | SLitKey | SOther.',
        'Definition index_key_sources : list (string * string * bool * keysrc * string * string) := [',
        ';\n'.join(f'  ("{f}", "{ix}", {"true" if a else "false"}, {src}, "{ent}", "{br}")' for f, ix, a, src, ent, br in key_sources),
        '].',
        '(* calls `self.<method>(...)` from a function that touches the indexes to a method that has index sites *)',
        'Definition index_writer_calls : list (string * string) := [',
        ';\n'.join(f'  ("{a}", "{b}")' for a, b in sorted({(a, b) for a, b in method_calls if b in {s[0] for s in index_sites} and a != b})),
        '].',
        '(* every update of by_class / by_target: function, index, is_add, class of the key expression, guarded *)',
        'Definition index_sites : list (string * string * bool * keyclass * bool) := [',
        ';\n'.join(f'  ("{f}", "{ix}", {"true" if k == "add" else "false"}, {kc}, {"true" if g else "false"})'
                   for f, ix, k, kc, g, _, _ in index_sites),
        '].',
        '',
    ]
    if remove_guards is None:
        raise TranslateError('VMF.remove_ent not found in vmf.py')
    if not ent_list_writers or not spawn_writers:
        raise TranslateError('no VMF.entities writer / VMF.spawn assignment found: vmf.py not recognised')
    side = {'key_writers': [list(k) for k in key_writers], 'index_sites': [list(s) for s in index_sites],
            'key_escapes': [list(k) for k in key_escapes], 'key_sources': [list(k) for k in key_sources], 'entity_list_writers': [list(k) for k in ent_list_writers],
            'spawn_writers': [list(k) for k in spawn_writers], 'digests': digests}
    return '\n'.join(lines), side


GEN = {'IndexSites_gen': translate}
