"""C13 translator: the nested dictionaries `VPK._fileinfo[ext][folder][name]` -> Gen/VpkNested_gen.v.

  * `VPK.__delitem__`: the statements that follow the pop of the file (the clean-up of dicts that became empty) are compiled into a
    program of SM/VpkNested.v [dprog]: `folders.pop(path)` / `del folders[path]` -> PPopFolder, `self._fileinfo.pop(ext)` /
    `del self._fileinfo[ext]` -> PPopExt, `if <emptiness test of files|folders>` -> PIf, `return` ends the program; what follows an
    `if` is continued in both branches, so nested ifs, early returns and if/else are the same program when they behave the same.
    Which local is the files dict and which the folders dict is decided by what they are bound to (`self._fileinfo[<ext>]`,
    `<folders>[<path>]`), not by their names; <ext>/<path>/<name> by their position in `_get_file_parts(...)`'s result.
  * census: in `__getitem__`, `__contains__`, `__delitem__` and `new_file` every subscript chain that starts at `self._fileinfo`
    (directly or through locals) indexes by extension, then folder, then name.
Fail-closed: TranslateError on any other statement in the clean-up.
"""
from __future__ import annotations

import ast

from harness.common import TranslateError, ast_digest, src_text
from translate.c13_nullstr import find_def, fn_body, is_name


def _parts_roles(fn: ast.FunctionDef) -> dict[str, str]:
    """`path, filename, ext = _get_file_parts(...)` -> {local: 'P'|'N'|'E'}"""
    for n in ast.walk(fn):
        if isinstance(n, ast.Assign) and len(n.targets) == 1 and isinstance(n.targets[0], ast.Tuple) and isinstance(n.value, ast.Call) \
                and is_name(n.value.func, '_get_file_parts') and len(n.targets[0].elts) == 3 and all(isinstance(e, ast.Name) for e in n.targets[0].elts):
            p, nm, e = (x.id for x in n.targets[0].elts)
            if len({p, nm, e}) == 3:
                return {p: 'P', nm: 'N', e: 'E'}
    raise TranslateError(f'{fn.name}: `path, name, ext = _get_file_parts(...)` not found')


def _is_root(e) -> bool:
    return isinstance(e, ast.Attribute) and e.attr == '_fileinfo' and is_name(e.value, 'self')


def _chain(e, aliases: dict[str, list[str]], roles: dict[str, str]) -> list[str] | None:
    """Expression denoting a dict of the nest -> list of the roles it was indexed by, from the root; None = not a nest expression."""
    if _is_root(e):
        return []
    if isinstance(e, ast.Name) and e.id in aliases:
        return list(aliases[e.id])
    if isinstance(e, ast.Subscript):
        base = _chain(e.value, aliases, roles)
        if base is None:
            return None
        if isinstance(e.slice, ast.Name) and e.slice.id in roles:
            return base + [roles[e.slice.id]]
        return base + ['?']
    return None


def _aliases(fn: ast.FunctionDef, roles: dict[str, str]) -> dict[str, list[str]]:
    """Locals bound (possibly several times, e.g. in try and except) to dicts of the nest; all bindings must agree."""
    al: dict[str, list[str]] = {}
    changed = True
    while changed:
        changed = False
        for n in ast.walk(fn):
            if isinstance(n, ast.Assign):
                names = [t.id for t in n.targets if isinstance(t, ast.Name)]
                if not names:
                    continue
                # `a = b = <nest>[k] = {}` binds a and b to the dict stored at <nest>[k]
                ch = None
                for t in n.targets:
                    if isinstance(t, ast.Subscript):
                        ch = _chain(t, al, roles)
                if ch is None:
                    ch = _chain(n.value, al, roles)
                if ch is None or (ch == [] and not _is_root(n.value)):
                    continue
                for nm in names:
                    if nm in roles:
                        continue
                    if nm not in al:
                        al[nm] = ch
                        changed = True
                    elif al[nm] != ch:
                        raise TranslateError(f'{fn.name}: local {nm} is bound to different levels of _fileinfo')
    return al


def chains_ok(fn: ast.FunctionDef) -> tuple[bool, list]:
    roles = _parts_roles(fn)
    al = _aliases(fn, roles)
    want = ['E', 'P', 'N']
    seen = []
    ok = True
    for n in ast.walk(fn):
        ch = None
        if isinstance(n, ast.Subscript):
            ch = _chain(n, al, roles)
        elif isinstance(n, ast.Compare) and len(n.ops) == 1 and isinstance(n.ops[0], (ast.In, ast.NotIn)):
            base = _chain(n.comparators[0], al, roles)
            if base is not None:
                ch = base + [roles.get(n.left.id, '?') if isinstance(n.left, ast.Name) else '?']
        elif isinstance(n, ast.Call) and isinstance(n.func, ast.Attribute) and n.func.attr in ('pop', 'get', 'setdefault') and n.args:
            base = _chain(n.func.value, al, roles)
            if base is not None:
                ch = base + [roles.get(n.args[0].id, '?') if isinstance(n.args[0], ast.Name) else '?']
        if ch is not None:
            seen.append(''.join(ch))
            if ch != want[:len(ch)]:
                ok = False
    return ok and bool(seen), sorted(set(seen))


def _dtest(t, files: str, folders: str) -> str:
    def which(e):
        if is_name(e, files):
            return 'TFilesEmpty'
        if is_name(e, folders):
            return 'TFoldersEmpty'
        return None
    if isinstance(t, ast.UnaryOp) and isinstance(t.op, ast.Not):
        inner = which(t.operand)
        return inner if inner else f'(TNot {_dtest(t.operand, files, folders)})'
    if which(t):
        return f'(TNot {which(t)})'
    if isinstance(t, ast.Compare) and len(t.ops) == 1:
        l, op, r = t.left, t.ops[0], t.comparators[0]
        if isinstance(l, ast.Call) and is_name(l.func, 'len') and len(l.args) == 1 and which(l.args[0]) and isinstance(r, ast.Constant) and type(r.value) is int:
            w = which(l.args[0])
            if (isinstance(op, ast.Eq) and r.value == 0) or (isinstance(op, ast.Lt) and r.value == 1) or (isinstance(op, ast.LtE) and r.value == 0):
                return w
            if (isinstance(op, ast.NotEq) and r.value == 0) or (isinstance(op, ast.Gt) and r.value == 0) or (isinstance(op, ast.GtE) and r.value == 1):
                return f'(TNot {w})'
        if which(l) and isinstance(r, ast.Dict) and not r.keys and isinstance(op, (ast.Eq, ast.NotEq)):
            return which(l) if isinstance(op, ast.Eq) else f'(TNot {which(l)})'
    raise TranslateError(f'line {getattr(t, "lineno", "?")}: __delitem__: test {ast.unparse(t)[:60]!r} is not an emptiness test of the files/folders dict')


def _pop_target(s: ast.stmt):
    """`d.pop(k)` / `del d[k]` as a statement -> (dict expression, key expression)"""
    if isinstance(s, ast.Expr) and isinstance(s.value, ast.Call) and isinstance(s.value.func, ast.Attribute) and s.value.func.attr == 'pop' \
            and len(s.value.args) == 1 and not s.value.keywords:
        return s.value.func.value, s.value.args[0]
    if isinstance(s, ast.Delete) and len(s.targets) == 1 and isinstance(s.targets[0], ast.Subscript):
        return s.targets[0].value, s.targets[0].slice
    return None


def _compile(stmts: list[ast.stmt], files: str, folders: str, inv: dict[str, str], depth: int = 0) -> str:
    if depth > 12:
        raise TranslateError('__delitem__: clean-up too deeply nested')
    if not stmts:
        return 'PEnd'
    s, rest = stmts[0], stmts[1:]
    if isinstance(s, ast.Pass):
        return _compile(rest, files, folders, inv, depth)
    if isinstance(s, ast.Return) and s.value is None:
        return 'PEnd'
    if isinstance(s, ast.If):
        t = _dtest(s.test, files, folders)
        return f'(PIf {t} {_compile(list(s.body) + rest, files, folders, inv, depth + 1)} {_compile(list(s.orelse) + rest, files, folders, inv, depth + 1)})'
    pt = _pop_target(s)
    if pt is not None:
        d, k = pt
        if is_name(d, folders) and is_name(k, inv['P']):
            return f'(PPopFolder {_compile(rest, files, folders, inv, depth)})'
        if _is_root(d) and is_name(k, inv['E']):
            return f'(PPopExt {_compile(rest, files, folders, inv, depth)})'
    raise TranslateError(f'line {s.lineno}: __delitem__: clean-up statement {ast.unparse(s)[:70]!r} not understood')


def translate_del(fn: ast.FunctionDef) -> dict:
    roles = _parts_roles(fn)
    inv = {v: k for k, v in roles.items()}
    al = _aliases(fn, roles)
    folders = [k for k, v in al.items() if v == ['E']]
    files = [k for k, v in al.items() if v == ['E', 'P']]
    if len(folders) != 1 or len(files) != 1:
        raise TranslateError(f'__delitem__: locals for the folders dict {folders} / files dict {files} not recognised')
    folders, files = folders[0], files[0]
    body = fn_body(fn)
    # first statement: the writability check, before anything is touched
    chk = bool(body) and isinstance(body[0], ast.Expr) and isinstance(body[0].value, ast.Call) and isinstance(body[0].value.func, ast.Attribute) \
        and body[0].value.func.attr == '_check_writable' and is_name(body[0].value.func.value, 'self')
    # locate the statement that pops the file: top level or inside the try whose handler re-raises KeyError
    idx = None
    keyerr = False
    for i, s in enumerate(body):
        cands = [s]
        if isinstance(s, ast.Try) and not s.finalbody and not s.orelse:
            cands = list(s.body)
            hs = s.handlers
            keyerr = len(hs) == 1 and hs[0].type is not None and ast.unparse(hs[0].type) == 'KeyError' and len(hs[0].body) == 1 \
                and isinstance(hs[0].body[0], ast.Raise) and hs[0].body[0].exc is not None and ast.unparse(hs[0].body[0].exc).startswith('KeyError')
        for j, c in enumerate(cands):
            pt = _pop_target(c)
            if pt is not None and is_name(pt[0], files) and is_name(pt[1], inv['N']):
                if idx is not None:
                    raise TranslateError('__delitem__: the file is popped twice')
                idx = i
                if cands is not [s] and isinstance(s, ast.Try) and j != len(cands) - 1:
                    raise TranslateError('__delitem__: statements after the pop of the file inside the try block')
    if idx is None:
        raise TranslateError('__delitem__: `files.pop(filename)` / `del files[filename]` not found')
    # nothing before the pop may mutate the nest
    for s in body[:idx]:
        for n in ast.walk(s):
            if _pop_target(n) is not None if isinstance(n, ast.stmt) else False:
                raise TranslateError('__delitem__: a dict is popped before the file')
    prog = _compile(body[idx + 1:], files, folders, inv)
    return {'prog': prog, 'files': files, 'folders': folders, 'checks_writable_first': chk, 'keyerror_reraised': keyerr or not isinstance(body[idx], ast.Try)}


def translate() -> tuple[str, dict]:
    tree = ast.parse(src_text('vpk.py'))
    vpk = find_def(tree.body, ast.ClassDef, 'VPK')
    fns = {nm: find_def(vpk.body, ast.FunctionDef, nm) for nm in ('__getitem__', '__contains__', '__delitem__', 'new_file')}
    d = translate_del(fns['__delitem__'])
    cens = {nm: chains_ok(f) for nm, f in fns.items()}
    side = {'delitem': d, 'chains': {k: v[1] for k, v in cens.items()}, 'digests': {k: ast_digest(f) for k, f in fns.items()},
            'lines': {k: f.lineno for k, f in fns.items()}}
    b = lambda x: 'true' if x else 'false'
    text = '\n'.join([
        '(* GENERATED by translate/c13_nested.py from /repo/src/srctools/vpk.py. Do not edit. *)',
        'From Coq Require Import List NArith Bool.', 'From SV Require Import Fmt.VpkDir SM.Vpk SM.VpkNested.', 'Import ListNotations.',
        f'(* VPK.__delitem__ (line {fns["__delitem__"].lineno}): files dict = {d["files"]}, folders dict = {d["folders"]} *)',
        f'Definition g_del_prog : dprog := {d["prog"]}.',
        f'Definition g_del_checks_writable_first : bool := {b(d["checks_writable_first"])}.',
        f'Definition g_del_keyerror : bool := {b(d["keyerror_reraised"])}.',
        f'Definition g_nest_order_ext_folder_name : bool := {b(all(v[0] for v in cens.values()))}.',
        '',
    ])
    return text, side


GEN = {'VpkNested_gen': translate}
