"""C13 translator: the nested dictionaries `VPK._fileinfo[ext][folder][name]` -> Gen/VpkNested_gen.v.

  * `VPK.__delitem__`: the statements that follow the pop of the file (the clean-up of dicts that became empty) are compiled into a
    program of SM/VpkNested.v [dprog]: `folders.pop(path)` / `del folders[path]` -> PPopFolder, `self._fileinfo.pop(ext)` /
    `del self._fileinfo[ext]` -> PPopExt, `if <emptiness test of files|folders>` -> PIf, `return` ends the program; what follows an
    `if` is continued in both branches, so nested ifs, early returns and if/else are the same program when they behave the same.
    Which local is the files dict and which the folders dict is decided by what they are bound to (`self._fileinfo[<ext>]`,
    `<folders>[<path>]`), not by their names; <ext>/<path>/<name> by their position in `_get_file_parts(...)`'s result.
  * census: in `__getitem__`, `__contains__`, `__delitem__` and `new_file` every subscript chain that starts at `self._fileinfo`
    (directly or through locals) indexes by extension, then folder, then name.
  * `VPK.new_file` is executed symbolically on a small heap for the four situations (extension dict present?, folder dict present?,
    name present?): per level, whether the dict found is reused / replaced by a new one / a detached new one is used, and whether a
    missing one is created and stored / created but not stored / KeyError (SM/VpkNestedMap.v [goc]); try/except KeyError,
    `if k not in d`, `setdefault`, `get` + `is None` are the same behaviour when they behave the same.
Fail-closed: TranslateError on any other statement in the clean-up / anything the executor does not understand.
"""
from __future__ import annotations

import ast

from harness.common import TranslateError, ast_digest, src_text
from translate.c13_nullstr import find_def, fn_body, is_name


def _parts_roles(fn: ast.FunctionDef) -> dict[str, str]:
    """`path, filename, ext = _get_file_parts(...)` -> {local: 'P'|'N'|'E'}"""
    for n in ast.walk(fn):
        if isinstance(n, ast.Assign) and len(n.targets) == 1 and isinstance(n.targets[0], ast.Tuple) and isinstance(n.value, ast.Call) \
                and is_name(n.value.func, '_get_file_parts') and len(n.targets[0].elts) == 3 and all(isinstance(e, ast.Name) for e in n.targets[0].elts):
            p, nm, e = (x.id for x in n.targets[0].elts)
            if len({p, nm, e}) == 3:
                return {p: 'P', nm: 'N', e: 'E'}
    raise TranslateError(f'{fn.name}: `path, name, ext = _get_file_parts(...)` not found')


def _is_root(e) -> bool:
    return isinstance(e, ast.Attribute) and e.attr == '_fileinfo' and is_name(e.value, 'self')


def _chain(e, aliases: dict[str, list[str]], roles: dict[str, str]) -> list[str] | None:
    """Expression denoting a dict of the nest -> list of the roles it was indexed by, from the root; None = not a nest expression."""
    if _is_root(e):
        return []
    if isinstance(e, ast.Name) and e.id in aliases:
        return list(aliases[e.id])
    if isinstance(e, ast.Subscript):
        base = _chain(e.value, aliases, roles)
        if base is None:
            return None
        if isinstance(e.slice, ast.Name) and e.slice.id in roles:
            return base + [roles[e.slice.id]]
        return base + ['?']
    return None


def _aliases(fn: ast.FunctionDef, roles: dict[str, str]) -> dict[str, list[str]]:
    """Locals bound (possibly several times, e.g. in try and except) to dicts of the nest; all bindings must agree."""
    al: dict[str, list[str]] = {}
    changed = True
    while changed:
        changed = False
        for n in ast.walk(fn):
            if isinstance(n, ast.Assign):
                names = [t.id for t in n.targets if isinstance(t, ast.Name)]
                if not names:
                    continue
                # `a = b = <nest>[k] = {}` binds a and b to the dict stored at <nest>[k]
                ch = None
                for t in n.targets:
                    if isinstance(t, ast.Subscript):
                        ch = _chain(t, al, roles)
                if ch is None:
                    ch = _chain(n.value, al, roles)
                if ch is None or (ch == [] and not _is_root(n.value)):
                    continue
                for nm in names:
                    if nm in roles:
                        continue
                    if nm not in al:
                        al[nm] = ch
                        changed = True
                    elif al[nm] != ch:
                        raise TranslateError(f'{fn.name}: local {nm} is bound to different levels of _fileinfo')
    return al


def chains_ok(fn: ast.FunctionDef) -> tuple[bool, list]:
    roles = _parts_roles(fn)
    al = _aliases(fn, roles)
    want = ['E', 'P', 'N']
    seen = []
    ok = True
    for n in ast.walk(fn):
        ch = None
        if isinstance(n, ast.Subscript):
            ch = _chain(n, al, roles)
        elif isinstance(n, ast.Compare) and len(n.ops) == 1 and isinstance(n.ops[0], (ast.In, ast.NotIn)):
            base = _chain(n.comparators[0], al, roles)
            if base is not None:
                ch = base + [roles.get(n.left.id, '?') if isinstance(n.left, ast.Name) else '?']
        elif isinstance(n, ast.Call) and isinstance(n.func, ast.Attribute) and n.func.attr in ('pop', 'get', 'setdefault') and n.args:
            base = _chain(n.func.value, al, roles)
            if base is not None:
                ch = base + [roles.get(n.args[0].id, '?') if isinstance(n.args[0], ast.Name) else '?']
        if ch is not None:
            seen.append(''.join(ch))
            if ch != want[:len(ch)]:
                ok = False
    return ok and bool(seen), sorted(set(seen))


def _dtest(t, files: str, folders: str) -> str:
    def which(e):
        if is_name(e, files):
            return 'TFilesEmpty'
        if is_name(e, folders):
            return 'TFoldersEmpty'
        return None
    if isinstance(t, ast.UnaryOp) and isinstance(t.op, ast.Not):
        inner = which(t.operand)
        return inner if inner else f'(TNot {_dtest(t.operand, files, folders)})'
    if which(t):
        return f'(TNot {which(t)})'
    if isinstance(t, ast.Compare) and len(t.ops) == 1:
        l, op, r = t.left, t.ops[0], t.comparators[0]
        if isinstance(l, ast.Call) and is_name(l.func, 'len') and len(l.args) == 1 and which(l.args[0]) and isinstance(r, ast.Constant) and type(r.value) is int:
            w = which(l.args[0])
            if (isinstance(op, ast.Eq) and r.value == 0) or (isinstance(op, ast.Lt) and r.value == 1) or (isinstance(op, ast.LtE) and r.value == 0):
                return w
            if (isinstance(op, ast.NotEq) and r.value == 0) or (isinstance(op, ast.Gt) and r.value == 0) or (isinstance(op, ast.GtE) and r.value == 1):
                return f'(TNot {w})'
        if which(l) and isinstance(r, ast.Dict) and not r.keys and isinstance(op, (ast.Eq, ast.NotEq)):
            return which(l) if isinstance(op, ast.Eq) else f'(TNot {which(l)})'
    raise TranslateError(f'line {getattr(t, "lineno", "?")}: __delitem__: test {ast.unparse(t)[:60]!r} is not an emptiness test of the files/folders dict')


def _pop_target(s: ast.stmt):
    """`d.pop(k)` / `del d[k]` as a statement -> (dict expression, key expression)"""
    if isinstance(s, ast.Expr) and isinstance(s.value, ast.Call) and isinstance(s.value.func, ast.Attribute) and s.value.func.attr == 'pop' \
            and len(s.value.args) == 1 and not s.value.keywords:
        return s.value.func.value, s.value.args[0]
    if isinstance(s, ast.Delete) and len(s.targets) == 1 and isinstance(s.targets[0], ast.Subscript):
        return s.targets[0].value, s.targets[0].slice
    return None


def _compile(stmts: list[ast.stmt], files: str, folders: str, inv: dict[str, str], depth: int = 0) -> str:
    if depth > 12:
        raise TranslateError('__delitem__: clean-up too deeply nested')
    if not stmts:
        return 'PEnd'
    s, rest = stmts[0], stmts[1:]
    if isinstance(s, ast.Pass):
        return _compile(rest, files, folders, inv, depth)
    if isinstance(s, ast.Return) and s.value is None:
        return 'PEnd'
    if isinstance(s, ast.If):
        t = _dtest(s.test, files, folders)
        return f'(PIf {t} {_compile(list(s.body) + rest, files, folders, inv, depth + 1)} {_compile(list(s.orelse) + rest, files, folders, inv, depth + 1)})'
    pt = _pop_target(s)
    if pt is not None:
        d, k = pt
        if is_name(d, folders) and is_name(k, inv['P']):
            return f'(PPopFolder {_compile(rest, files, folders, inv, depth)})'
        if _is_root(d) and is_name(k, inv['E']):
            return f'(PPopExt {_compile(rest, files, folders, inv, depth)})'
    raise TranslateError(f'line {s.lineno}: __delitem__: clean-up statement {ast.unparse(s)[:70]!r} not understood')


def translate_del(fn: ast.FunctionDef, read_member: str = 'READ') -> dict:
    roles = _parts_roles(fn)
    inv = {v: k for k, v in roles.items()}
    al = _aliases(fn, roles)
    folders = [k for k, v in al.items() if v == ['E']]
    files = [k for k, v in al.items() if v == ['E', 'P']]
    if len(folders) != 1 or len(files) != 1:
        raise TranslateError(f'__delitem__: locals for the folders dict {folders} / files dict {files} not recognised')
    folders, files = folders[0], files[0]
    body = fn_body(fn)
    # first statement: the writability check, before anything is touched
    from translate import c13_api      # `self._check_writable()` or an inlined `if <not writable>: raise`
    chk = bool(body) and c13_api._is_guard(body[0], c13_api.is_self, read_member)
    # locate the statement that pops the file: top level or inside the try whose handler re-raises KeyError
    idx = None
    keyerr = False
    for i, s in enumerate(body):
        cands = [s]
        if isinstance(s, ast.Try) and not s.finalbody and not s.orelse:
            cands = list(s.body)
            hs = s.handlers
            keyerr = len(hs) == 1 and hs[0].type is not None and ast.unparse(hs[0].type) == 'KeyError' and len(hs[0].body) == 1 \
                and isinstance(hs[0].body[0], ast.Raise) and hs[0].body[0].exc is not None and ast.unparse(hs[0].body[0].exc).startswith('KeyError')
        for j, c in enumerate(cands):
            pt = _pop_target(c)
            if pt is not None and is_name(pt[0], files) and is_name(pt[1], inv['N']):
                if idx is not None:
                    raise TranslateError('__delitem__: the file is popped twice')
                idx = i
                if cands is not [s] and isinstance(s, ast.Try) and j != len(cands) - 1:
                    raise TranslateError('__delitem__: statements after the pop of the file inside the try block')
    if idx is None:
        raise TranslateError('__delitem__: `files.pop(filename)` / `del files[filename]` not found')
    # nothing before the pop may mutate the nest
    for s in body[:idx]:
        for n in ast.walk(s):
            if _pop_target(n) is not None if isinstance(n, ast.stmt) else False:
                raise TranslateError('__delitem__: a dict is popped before the file')
    prog = _compile(body[idx + 1:], files, folders, inv)
    return {'prog': prog, 'files': files, 'folders': folders, 'checks_writable_first': chk, 'keyerror_reraised': keyerr or not isinstance(body[idx], ast.Try)}


# ------------------------------------------------------------------------------------------------ new_file: symbolic execution on a small heap
class _KeyErr(Exception):
    pass


class _Stop(Exception):
    def __init__(self, kind: str, what):
        self.kind, self.what = kind, what


class _Heap:
    """Dict objects by id -> {role: id of what is stored under the key with that role}. 'R' = self._fileinfo, 'F1' = the dict found for
    the extension, 'F2' = the dict found for the folder, 'OLD' = a FileInfo that exists under the name; 'n<i>' = dicts created here."""
    def __init__(self, ext_present: bool, path_present: bool, name_present: bool):
        self.h: dict[str, dict[str, str]] = {'R': {}, 'F1': {}, 'F2': {}}
        if ext_present:
            self.h['R']['E'] = 'F1'
            if path_present:
                self.h['F1']['P'] = 'F2'
                if name_present:
                    self.h['F2']['N'] = 'OLD'
        self.env: dict[str, str] = {}
        self.static: set[str] = set()
        self.n = 0

    def new(self) -> str:
        self.n += 1
        o = f'n{self.n}'
        self.h[o] = {}
        return o


def _nf_role(e, roles) -> str:
    if isinstance(e, ast.Name) and e.id in roles:
        return roles[e.id]
    raise TranslateError(f'line {getattr(e, "lineno", "?")}: new_file: key {ast.unparse(e)[:40]!r} is not the folder, name or extension of the file')


def _nf_static_locals(fn: ast.FunctionDef, roles) -> set[str]:
    """Locals used as a dict keyed by a part of the name somewhere in the function (`X[path]`, `name in X`, `X.get(ext)` ...)."""
    out: set[str] = set()
    isrole = lambda e: isinstance(e, ast.Name) and e.id in roles
    for n in ast.walk(fn):
        if isinstance(n, ast.Subscript) and isinstance(n.value, ast.Name) and isrole(n.slice):
            out.add(n.value.id)
        if isinstance(n, ast.Compare) and len(n.ops) == 1 and isinstance(n.ops[0], (ast.In, ast.NotIn)) and isrole(n.left) and isinstance(n.comparators[0], ast.Name):
            out.add(n.comparators[0].id)
        if isinstance(n, ast.Call) and isinstance(n.func, ast.Attribute) and isinstance(n.func.value, ast.Name) and n.args and isrole(n.args[0]):
            out.add(n.func.value.id)
    return out - set(roles)


def _nf_mentions(node, hp: _Heap) -> bool:
    for n in ast.walk(node):
        if _is_root(n) or (isinstance(n, ast.Name) and (n.id in hp.env or n.id in hp.static)):
            return True
    return False


def _nf_eval(e, hp: _Heap, roles) -> str:
    if _is_root(e):
        return 'R'
    if isinstance(e, ast.Name) and e.id in hp.env:
        return hp.env[e.id]
    if isinstance(e, ast.Constant) and e.value is None:
        return 'NONE'
    if (isinstance(e, ast.Dict) and not e.keys) or (isinstance(e, ast.Call) and is_name(e.func, 'dict') and not e.args and not e.keywords):
        return hp.new()
    if isinstance(e, ast.Call) and is_name(e.func, 'FileInfo'):
        return 'INFO'
    if isinstance(e, ast.Subscript):
        o = _nf_eval(e.value, hp, roles)
        if o not in hp.h:
            raise TranslateError(f'line {e.lineno}: new_file: subscript of something that is not a dict of the nest')
        v = hp.h[o].get(_nf_role(e.slice, roles))
        if v is None:
            raise _KeyErr()
        return v
    if isinstance(e, ast.Call) and isinstance(e.func, ast.Attribute) and e.func.attr in ('setdefault', 'get') and 1 <= len(e.args) <= 2 and not e.keywords:
        o = _nf_eval(e.func.value, hp, roles)
        if o not in hp.h:
            raise TranslateError(f'line {e.lineno}: new_file: {e.func.attr}() on something that is not a dict of the nest')
        r = _nf_role(e.args[0], roles)
        cur = hp.h[o].get(r)
        if e.func.attr == 'get':
            return cur if cur is not None else (_nf_eval(e.args[1], hp, roles) if len(e.args) == 2 else 'NONE')
        if len(e.args) != 2:
            raise TranslateError(f'line {e.lineno}: new_file: setdefault without a default')
        dflt = _nf_eval(e.args[1], hp, roles)       # the default is evaluated whether or not it is used
        if cur is None:
            hp.h[o][r] = cur = dflt
        return cur
    raise TranslateError(f'line {getattr(e, "lineno", "?")}: new_file: expression {ast.unparse(e)[:60]!r} not understood')


def _nf_test(t, hp: _Heap, roles) -> bool:
    if isinstance(t, ast.UnaryOp) and isinstance(t.op, ast.Not):
        return not _nf_test(t.operand, hp, roles)
    if isinstance(t, ast.BoolOp):
        vs = [_nf_test(x, hp, roles) for x in t.values]
        return all(vs) if isinstance(t.op, ast.And) else any(vs)
    if isinstance(t, ast.Compare) and len(t.ops) == 1:
        op, l, r = t.ops[0], t.left, t.comparators[0]
        if isinstance(op, (ast.In, ast.NotIn)):
            o = _nf_eval(r, hp, roles)
            if o not in hp.h:
                raise TranslateError(f'line {t.lineno}: new_file: membership test on something that is not a dict of the nest')
            res = hp.h[o].get(_nf_role(l, roles)) is not None
            return res if isinstance(op, ast.In) else not res
        if isinstance(op, (ast.Is, ast.IsNot)) and isinstance(r, ast.Constant) and r.value is None:
            res = _nf_eval(l, hp, roles) == 'NONE'
            return res if isinstance(op, ast.Is) else not res
    raise TranslateError(f'line {getattr(t, "lineno", "?")}: new_file: test {ast.unparse(t)[:60]!r} not understood')


def _nf_exec(stmts, hp: _Heap, roles, depth: int = 0) -> None:
    if depth > 8:
        raise TranslateError('new_file: too deeply nested')
    for s in stmts:
        if isinstance(s, ast.Return):
            raise _Stop('return', None if s.value is None else (_nf_eval(s.value, hp, roles) if _nf_mentions(s.value, hp) else '?'))
        if isinstance(s, ast.Raise):
            raise _Stop('raise', ast.unparse(s.exc.func if isinstance(s.exc, ast.Call) else s.exc) if s.exc is not None else '?')
        if not _nf_mentions(s, hp):
            continue        # validation of the name, the writability check: not about the nest
        if isinstance(s, ast.Assign):
            v = _nf_eval(s.value, hp, roles)
            for t in s.targets:
                if isinstance(t, ast.Name):
                    if t.id in roles:
                        raise TranslateError(f'line {s.lineno}: new_file: the name parts are reassigned')
                    hp.env[t.id] = v
                elif isinstance(t, ast.Subscript):
                    o = _nf_eval(t.value, hp, roles)
                    if o not in hp.h:
                        raise TranslateError(f'line {s.lineno}: new_file: store into something that is not a dict of the nest')
                    hp.h[o][_nf_role(t.slice, roles)] = v
                else:
                    raise TranslateError(f'line {s.lineno}: new_file: assignment target not understood')
        elif isinstance(s, ast.Try) and not s.finalbody:
            try:
                _nf_exec(list(s.body), hp, roles, depth + 1)
            except _KeyErr:
                for h in s.handlers:
                    if h.type is None or ast.unparse(h.type) in ('KeyError', 'LookupError', 'Exception'):
                        _nf_exec(list(h.body), hp, roles, depth + 1)
                        break
                else:
                    raise
            else:
                _nf_exec(list(s.orelse), hp, roles, depth + 1)
        elif isinstance(s, ast.If):
            _nf_exec(list(s.body) if _nf_test(s.test, hp, roles) else list(s.orelse), hp, roles, depth + 1)
        elif isinstance(s, ast.Expr) and isinstance(s.value, ast.Call):
            _nf_eval(s.value, hp, roles)        # e.g. a bare setdefault()
        else:
            raise TranslateError(f'line {s.lineno}: new_file: statement {ast.unparse(s)[:70]!r} not understood')


def translate_ins(fn: ast.FunctionDef) -> dict:
    """Run new_file on the four situations (extension dict present?, folder dict present?, name present?) and read off, per level, what
    happens to the dict of that level: see SM/VpkNestedMap.v [goc]."""
    roles = _parts_roles(fn)
    out: dict[tuple, tuple] = {}
    for scen in ((False, False, False), (True, False, False), (True, True, False), (True, True, True)):
        hp = _Heap(*scen)
        hp.static = _nf_static_locals(fn, roles)
        try:
            _nf_exec(fn_body(fn), hp, roles)
            res = ('return', None)
        except _Stop as st:
            res = (st.kind, st.what)
        except _KeyErr:
            res = ('raise', 'KeyError')
        out[scen] = (res, hp)
    # the name exists already: FileExistsError, nothing changed
    res, hp = out[(True, True, True)]
    exists_chk = res == ('raise', 'FileExistsError') and hp.h['R'].get('E') == 'F1' and hp.h['F1'].get('P') == 'F2' and hp.h['F2'].get('N') == 'OLD'

    def classify(scen):
        (res, hp) = out[scen]
        ext_p, path_p, _ = scen
        if res == ('raise', 'KeyError'):
            # which level raised: the extension's when it is absent, else the folder's
            return ('ARaise', None) if not ext_p else ('PReuse' if hp.h['R'].get('E') == 'F1' else 'PReplace', 'ARaise')
        if res[0] != 'return':
            raise TranslateError(f'new_file: raises {res[1]} for a name that does not exist yet')
        holders = [o for o, m in hp.h.items() if m.get('N') == 'INFO']
        if len(holders) != 1:
            raise TranslateError('new_file: the new FileInfo is not stored under the name in exactly one dict')
        t = holders[0]
        if res[1] not in ('INFO', '?') and res[1] is not None:
            raise TranslateError('new_file: does not return the new FileInfo')
        d1s = [o for o, m in hp.h.items() if m.get('P') == t]
        root_e = hp.h['R'].get('E')
        d1 = root_e if root_e in d1s else (d1s[0] if d1s else None)
        if ext_p:
            l1 = 'PReuse' if root_e == 'F1' and d1 in ('F1', None) else 'PReplace' if (d1 is None or root_e == d1) else 'PDetached'
        else:
            l1 = 'ACreate' if root_e is not None and (d1 is None or root_e == d1) else 'ADetached'
        if path_p and d1 not in ('F1', None) and t != 'F2':
            l2 = None       # the folder was looked up in another (new) extension dict: what happens to an existing folder dict is not observable
        elif path_p:
            l2 = 'PReuse' if t == 'F2' and d1 is not None else 'PReplace' if d1 is not None else 'PDetached'
        else:
            l2 = 'ACreate' if d1 is not None else 'ADetached'
        return l1, l2

    c000, c100, c110 = classify((False, False, False)), classify((True, False, False)), classify((True, True, False))
    g1_abs, g1_pre = c000[0], c100[0]
    if c110[0] != g1_pre:
        raise TranslateError(f'new_file: what happens to the extension dict depends on the folder ({g1_pre} / {c110[0]})')
    g2_pre = c110[1] or 'PReuse'
    g2_abs_a, g2_abs_b = c000[1], c100[1]
    if g2_abs_a is not None and g2_abs_a != g2_abs_b:
        raise TranslateError(f'new_file: what happens to a new folder dict depends on the extension ({g2_abs_a} / {g2_abs_b})')
    return {'ext': (g1_pre, g1_abs), 'dir': (g2_pre, g2_abs_b), 'exists_check': exists_chk}



def translate() -> tuple[str, dict]:
    tree = ast.parse(src_text('vpk.py'))
    vpk = find_def(tree.body, ast.ClassDef, 'VPK')
    fns = {nm: find_def(vpk.body, ast.FunctionDef, nm) for nm in ('__getitem__', '__contains__', '__delitem__', 'new_file')}
    om = find_def(tree.body, ast.ClassDef, 'OpenModes')
    rm = [n.targets[0].id for n in om.body if isinstance(n, ast.Assign) and isinstance(n.value, ast.Constant) and n.value.value == 'r']
    d = translate_del(fns['__delitem__'], rm[0] if rm else 'READ')
    cens = {nm: chains_ok(f) for nm, f in fns.items()}
    ins = translate_ins(fns['new_file'])
    side = {'delitem': d, 'new_file': ins, 'chains': {k: v[1] for k, v in cens.items()}, 'digests': {k: ast_digest(f) for k, f in fns.items()},
            'lines': {k: f.lineno for k, f in fns.items()}}
    b = lambda x: 'true' if x else 'false'
    text = '\n'.join([
        '(* GENERATED by translate/c13_nested.py from /repo/src/srctools/vpk.py. Do not edit. *)',
        'From Coq Require Import List NArith Bool.', 'From SV Require Import Fmt.VpkDir SM.Vpk SM.VpkNested SM.VpkNestedMap.', 'Import ListNotations.',
        f'(* VPK.__delitem__ (line {fns["__delitem__"].lineno}): files dict = {d["files"]}, folders dict = {d["folders"]} *)',
        f'Definition g_del_prog : dprog := {d["prog"]}.',
        f'Definition g_del_checks_writable_first : bool := {b(d["checks_writable_first"])}.',
        f'Definition g_del_keyerror : bool := {b(d["keyerror_reraised"])}.',
        f'Definition g_nest_order_ext_folder_name : bool := {b(all(v[0] for v in cens.values()))}.',
        f'(* VPK.new_file (line {fns["new_file"].lineno}): what happens to the dict of the level when the key is present / absent *)',
        f'Definition g_ins_ext : goc := {{| g_present := {ins["ext"][0]}; g_absent := {ins["ext"][1]} |}}.',
        f'Definition g_ins_dir : goc := {{| g_present := {ins["dir"][0]}; g_absent := {ins["dir"][1]} |}}.',
        f'Definition g_ins_exists_check : bool := {b(ins["exists_check"])}.',
        '',
    ])
    return text, side


GEN = {'VpkNested_gen': translate}
