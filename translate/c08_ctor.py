"""C08, round 5: the constructor of every ID-bearing class as a step list, and the shape of its destructor.

Question answered for the Coq model SM/IdCtor.v: when a constructor call RAISES half-way (the caller catches the exception and
carries on), can the destructor of the half-built object release an ID that the object never registered?  That needs three things
read off the source:

* the order of the stores.  For a hand-written `__init__` the statements in source order; for an attrs class the steps of the
  `__init__` attrs generates: one store per field in DECLARATION order (`self.id = id` stores the value the caller asked for),
  a converter runs inside the store of its field, a factory is called inside the store of its field, validators run after all
  stores, then `__attrs_post_init__` runs;
* which steps can raise: converters, validators, factories other than plain containers / constant constructor calls, `on_setattr`
  hooks, `__attrs_pre_init__`, and every statement of a hand-written body other than `self.x = <name or constant>`;
* the destructor: does `__del__` release `self.id` at all, and only under an ownership flag that the constructor sets?

Steps: GCStoreRaw (self.id := a value that is not a get_id result), GCMayRaise, GCRegister (self.id := <manager>.get_id(..)),
GCSetOwned (the flag the destructor tests := True).  Consecutive GCMayRaise steps are merged (failing at either leaves the same
object).  Fail-closed: class shapes that cannot be read (bases with fields, mixed attr.ib / annotation fields, unknown field
options, a store to `.id` inside a compound statement of a constructor, a flag written outside the constructor) are TranslateErrors.
"""
from __future__ import annotations

import ast

from harness.common import TranslateError

ID_CLASSES = {'Entity': ('KEnt', 'ent_id'), 'Solid': ('KSolid', 'solid_id'), 'Side': ('KFace', 'face_id'),
              'VisGroup': ('KVis', 'vis_id'), 'EntityGroup': ('KGroup', 'group_id')}
MANAGERS = {'ent_id', 'solid_id', 'face_id', 'group_id', 'vis_id', 'node_id'}
ATTRS_DECOS = {'define', 'mutable', 'frozen', 's', 'attrs', 'attributes'}
FIELD_FUNCS = {'field', 'ib', 'attrib', 'attr'}
FIELD_HARMLESS = {'default', 'repr', 'eq', 'order', 'hash', 'kw_only', 'metadata', 'alias', 'type', 'init', 'factory', 'converter',
                  'validator', 'on_setattr', 'cmp'}
SAFE_FACTORIES = {'list', 'dict', 'set', 'tuple', 'frozenset', 'bool', 'int', 'float', 'str'}


def _is_self_attr(node: ast.AST, attr: str | None = None) -> bool:
    return isinstance(node, ast.Attribute) and isinstance(node.value, ast.Name) and node.value.id == 'self' \
        and (attr is None or node.attr == attr)


def _deco_name(d: ast.AST) -> tuple[str | None, ast.Call | None]:
    call = d if isinstance(d, ast.Call) else None
    f = d.func if call is not None else d
    if isinstance(f, ast.Attribute) and isinstance(f.value, ast.Name) and f.value.id in ('attrs', 'attr'):
        return f.attr, call
    if isinstance(f, ast.Name):
        return f.id, call
    return None, call


def _const_expr(e: ast.AST) -> bool:
    """An expression whose evaluation cannot depend on the caller's input and cannot fail for it: constants, literals of
    constants, a call of a plain name / dotted name on such arguments (`Vec(255, 255, 255)`)."""
    if isinstance(e, ast.Constant):
        return True
    if isinstance(e, (ast.Tuple, ast.List, ast.Set)):
        return all(_const_expr(x) for x in e.elts)
    if isinstance(e, ast.UnaryOp) and isinstance(e.op, (ast.USub, ast.UAdd)):
        return _const_expr(e.operand)
    if isinstance(e, ast.Call) and not e.keywords and isinstance(e.func, (ast.Name, ast.Attribute)):
        f = e.func
        while isinstance(f, ast.Attribute):
            f = f.value
        return isinstance(f, ast.Name) and all(_const_expr(a) for a in e.args)
    return False


def _safe_factory(e: ast.AST) -> bool:
    if isinstance(e, ast.Name) and e.id in SAFE_FACTORIES:
        return True
    if isinstance(e, ast.Lambda) and not (e.args.args or e.args.vararg or e.args.kwarg or e.args.kwonlyargs or e.args.posonlyargs):
        return _const_expr(e.body)
    return False


def _is_get_id(v: ast.AST | None) -> bool:
    return (isinstance(v, ast.Call) and isinstance(v.func, ast.Attribute) and v.func.attr == 'get_id'
            and isinstance(v.func.value, ast.Attribute) and v.func.value.attr in MANAGERS)


def _trivial(e: ast.AST) -> bool:
    """Evaluating `e` cannot raise: a name, a constant, `self.x`."""
    return isinstance(e, (ast.Name, ast.Constant)) or _is_self_attr(e)


def _single_assignment(fn: ast.FunctionDef, name: str) -> ast.AST | None:
    hits = [n for n in ast.walk(fn) if isinstance(n, ast.Assign) and any(isinstance(t, ast.Name) and t.id == name for t in n.targets)]
    if len(hits) == 1 and len(hits[0].targets) == 1:
        return hits[0].value
    return None


def _body_steps(cls: str, fn: ast.FunctionDef, flag: str | None, own_set: bool) -> list[tuple[str, str]]:
    """The statements of a hand-written constructor body (`__init__`, `__attrs_post_init__`), in source order."""
    out: list[tuple[str, str]] = []
    for st in fn.body:
        where = f'{cls}.{fn.name}:{st.lineno}'
        if isinstance(st, ast.Pass) or (isinstance(st, ast.Expr) and isinstance(st.value, ast.Constant)):
            continue
        if isinstance(st, ast.Assign) and len(st.targets) == 1 and _is_self_attr(st.targets[0]):
            attr = st.targets[0].attr
            v = st.value
            if attr == 'id':
                if isinstance(v, ast.Name):
                    v = _single_assignment(fn, v.id) or v
                    if _is_get_id(v):
                        # `new = <manager>.get_id(..)` earlier, `self.id = new` here: registered at the earlier statement; anything
                        # in between was recorded as able to raise, which only leaks.  Treated as registration here (the slot holds
                        # nothing before).
                        out.append(('GCRegister', f'{where} self.id = {ast.unparse(st.value)} (= {ast.unparse(v)})'))
                        continue
                if _is_get_id(v):
                    if not all(_trivial(a) for a in v.args) or v.keywords and not all(_trivial(k.value) for k in v.keywords):
                        out.append(('GCMayRaise', f'{where} arguments of get_id'))
                    out.append(('GCRegister', f'{where} self.id = {ast.unparse(v)}'))
                else:
                    if not _trivial(v):
                        out.append(('GCMayRaise', f'{where} {ast.unparse(v)}'))
                    out.append(('GCStoreRaw', f'{where} self.id = {ast.unparse(v)}'))
                continue
            if flag is not None and attr == flag:
                if isinstance(v, ast.Constant) and v.value is True:
                    out.append(('GCSetOwned', f'{where} self.{flag} = True'))
                    own_set = True
                    continue
                if isinstance(v, ast.Constant) and v.value is False and not own_set:
                    continue
                raise TranslateError(f'{where}: the ownership flag self.{flag} is given a value the model has no step for: {ast.unparse(st)}')
            if _trivial(v):
                continue
            out.append(('GCMayRaise', f'{where} {ast.unparse(st)[:60]}'))
            continue
        # any other statement: may raise; it must not hide a store to .id or to the flag
        for n in ast.walk(st):
            if isinstance(n, ast.Attribute) and isinstance(n.ctx, (ast.Store, ast.Del)) and (n.attr == 'id' or n.attr == flag) \
                    and isinstance(n.value, ast.Name) and n.value.id == 'self':
                raise TranslateError(f'{where}: self.{n.attr} is written inside a compound / unusual statement of a constructor: '
                                     f'{ast.unparse(st)[:80]}')
        out.append(('GCMayRaise', f'{where} {ast.unparse(st).splitlines()[0][:60]}'))
    return out


def _release_in_del(cls: ast.ClassDef, mgr: str) -> tuple[bool, str | None, str]:
    """(releases self.id, guarding flag or None, description) for the class's destructor.  A release inside a private method
    that `__del__` calls on `self` counts (one level)."""
    methods = {f.name: f for f in cls.body if isinstance(f, ast.FunctionDef)}
    d = methods.get('__del__')
    if d is None:
        return False, None, 'no __del__'

    def flag_of(test: ast.AST) -> str | None:
        """`self.<flag>` / `getattr(self, '<flag>', False)`, alone or as one conjunct."""
        if isinstance(test, ast.BoolOp) and isinstance(test.op, ast.And):
            for v in test.values:
                f = flag_of(v)
                if f:
                    return f
            return None
        if _is_self_attr(test) and test.attr != 'id':
            return test.attr
        if isinstance(test, ast.Call) and isinstance(test.func, ast.Name) and test.func.id == 'getattr' and len(test.args) == 3 \
                and isinstance(test.args[0], ast.Name) and test.args[0].id == 'self' and isinstance(test.args[1], ast.Constant) \
                and isinstance(test.args[2], ast.Constant) and test.args[2].value is False and test.args[1].value != 'id':
            return str(test.args[1].value)
        return None

    found: list[tuple[str | None, int]] = []

    def is_release(n: ast.AST) -> bool:
        return (isinstance(n, ast.Call) and isinstance(n.func, ast.Attribute) and n.func.attr in ('discard', 'remove')
                and isinstance(n.func.value, ast.Attribute) and n.func.value.attr == mgr)

    def ends(body: list[ast.stmt]) -> bool:
        return bool(body) and isinstance(body[-1], (ast.Return, ast.Raise))

    def walk(stmts: list[ast.stmt], guard: str | None, depth: int) -> str | None:
        """Records the releases with the flag that guards them; returns the guard that holds after the statements."""
        g = guard
        for st in stmts:
            if isinstance(st, ast.If):
                f = flag_of(st.test)
                neg = isinstance(st.test, ast.UnaryOp) and isinstance(st.test.op, ast.Not) and flag_of(st.test.operand)
                if neg and ends(st.body) and not st.orelse:
                    walk(st.body, g, depth)
                    g = g or neg          # `if not flag: return` guards everything that follows
                    continue
                walk(st.body, g or f, depth)
                walk(st.orelse, g, depth)
                continue
            if isinstance(st, ast.Try):
                g_body = walk(st.body, g, depth)
                for h in st.handlers:
                    walk(h.body, g, depth)
                walk(st.orelse, g_body, depth)
                walk(st.finalbody, g, depth)
                if all(ends(h.body) for h in st.handlers) and not st.finalbody:
                    g = g_body            # what follows the try is reached only through its body
                continue
            if isinstance(st, (ast.With, ast.For, ast.While)):
                walk(st.body, g, depth)
                continue
            for n in ast.walk(st):
                if is_release(n):
                    found.append((g, n.lineno))
                if depth == 0 and isinstance(n, ast.Call) and _is_self_attr(n.func) and n.func.attr in methods and n.func.attr != '__del__':
                    walk(methods[n.func.attr].body, g, 1)
        return g
    walk(d.body, None, 0)
    if not found:
        return False, None, '__del__ does not release the ' + mgr + ' ID'
    flags = {g for g, _ in found}
    if None in flags or len(flags) != 1:
        return True, None, f'__del__ releases self.id unconditionally (line {found[0][1]})'
    flag = next(iter(flags))
    return True, flag, f'__del__ releases self.id only when self.{flag} is set (line {found[0][1]})'


def _merge(steps: list[tuple[str, str]]) -> list[tuple[str, str]]:
    out: list[tuple[str, str]] = []
    for s, d in steps:
        if s == 'GCMayRaise' and out and out[-1][0] == 'GCMayRaise':
            out[-1] = (s, out[-1][1] + ' | ' + d)
        else:
            out.append((s, d))
    return out


def ctor_steps(tree: ast.Module) -> list[dict]:
    classes = {n.name: n for n in tree.body if isinstance(n, ast.ClassDef)}
    rows = []
    for name, (kind, mgr) in ID_CLASSES.items():
        cls = classes.get(name)
        if cls is None:
            raise TranslateError(f'class {name} not found')
        methods = {f.name: f for f in cls.body if isinstance(f, ast.FunctionDef)}
        releases, flag, del_desc = _release_in_del(cls, mgr)
        deco = [(n, c) for n, c in (_deco_name(d) for d in cls.decorator_list) if n in ATTRS_DECOS]
        steps: list[tuple[str, str]] = []
        if '__init__' in methods:
            if deco and not any(k.arg == 'init' and isinstance(k.value, ast.Constant) and k.value.value is False
                                for _, c in deco if c is not None for k in c.keywords):
                raise TranslateError(f'{name}: an attrs class with a hand-written __init__ but without init=False')
            steps = _body_steps(name, methods['__init__'], flag, False)
            if any(isinstance(n, ast.Call) and isinstance(n.func, ast.Attribute) and n.func.attr in ('__attrs_init__', '__attrs_post_init__')
                   for n in ast.walk(methods['__init__'])):
                raise TranslateError(f'{name}.__init__ calls the attrs-generated initialiser: not modelled')
        elif deco:
            for b in cls.bases:
                bn = b.id if isinstance(b, ast.Name) else None
                if bn is None or bn in classes:
                    raise TranslateError(f'{name}: attrs class with a base class ({ast.unparse(b)}) whose fields would come first')
            dn, dcall = deco[0]
            class_hooks = False
            for k in (dcall.keywords if dcall is not None else []):
                if k.arg == 'on_setattr' and not (isinstance(k.value, ast.Constant) and k.value.value is None):
                    class_hooks = True
                if k.arg == 'init' and isinstance(k.value, ast.Constant) and k.value.value is False:
                    raise TranslateError(f'{name}: init=False without a hand-written __init__')
            if '__attrs_pre_init__' in methods:
                steps.append(('GCMayRaise', f'{name}.__attrs_pre_init__'))
            validators: list[str] = []
            default_methods: set[str] = set()
            for f in methods.values():
                for d in f.decorator_list:
                    if isinstance(d, ast.Attribute) and isinstance(d.value, ast.Name) and d.attr == 'validator':
                        validators.append(f'validator method {f.name} of field {d.value.id}')
                    if isinstance(d, ast.Attribute) and isinstance(d.value, ast.Name) and d.attr == 'default':
                        default_methods.add(d.value.id)
            id_hooked = False
            own_set = False
            for st in cls.body:
                if isinstance(st, ast.Assign) and isinstance(st.value, ast.Call) and _deco_name(st.value.func)[0] in FIELD_FUNCS:
                    raise TranslateError(f'{name}:{st.lineno}: field declared without annotation ({ast.unparse(st)[:60]}): field order '
                                         'of mixed declarations is not modelled')
                if not (isinstance(st, ast.AnnAssign) and isinstance(st.target, ast.Name)):
                    continue
                if 'ClassVar' in ast.unparse(st.annotation):
                    continue
                fname = st.target.id
                where = f'{name}.{fname}:{st.lineno}'
                conv = val = hook = False
                factory: ast.AST | None = None
                default: ast.AST | None = None
                init = True
                v = st.value
                if isinstance(v, ast.Call) and _deco_name(v.func)[0] in FIELD_FUNCS:
                    if v.args:
                        raise TranslateError(f'{where}: positional arguments of field() are not modelled')
                    for k in v.keywords:
                        if k.arg not in FIELD_HARMLESS:
                            raise TranslateError(f'{where}: unknown field option {k.arg}')
                        none = isinstance(k.value, ast.Constant) and k.value.value is None
                        if k.arg == 'converter' and not none:
                            conv = True
                        elif k.arg == 'validator' and not none and not (isinstance(k.value, (ast.List, ast.Tuple)) and not k.value.elts):
                            val = True
                        elif k.arg == 'on_setattr' and not none:
                            hook = True
                        elif k.arg == 'factory':
                            factory = k.value
                        elif k.arg == 'default':
                            default = k.value
                            if isinstance(default, ast.Call) and _deco_name(default.func)[0] == 'Factory':
                                factory = default.args[0] if default.args else None
                                if default.keywords or factory is None:
                                    factory = ast.Name(id='<takes_self factory>', ctx=ast.Load())
                        elif k.arg == 'init' and isinstance(k.value, ast.Constant):
                            init = bool(k.value.value)
                elif v is not None:
                    default = v
                may = []
                if conv:
                    may.append('converter')
                if factory is not None and not _safe_factory(factory):
                    may.append(f'factory {ast.unparse(factory)[:40]}')
                if fname in default_methods:
                    may.append('default method (takes self)')
                if val:
                    validators.append(f'validator of field {fname}')
                if fname == 'id':
                    id_hooked = conv or val or hook or class_hooks
                    if may:
                        steps.append(('GCMayRaise', f'{where} ' + ', '.join(may)))
                    steps.append(('GCStoreRaw', f'{where} generated __init__: self.id = id (the value the caller asked for)'))
                    continue
                if flag is not None and fname == flag:
                    # the destructor's flag as a field: what the generated __init__ stores at this position
                    if init:
                        steps.append(('GCSetOwned', f'{where} the flag is a constructor argument: the caller can set it'))
                        own_set = True
                    elif isinstance(default, ast.Constant) and default.value is False and factory is None:
                        pass
                    else:
                        steps.append(('GCSetOwned', f'{where} the flag does not start as False: {ast.unparse(st)[:60]}'))
                        own_set = True
                    continue
                if may:
                    steps.append(('GCMayRaise', f'{where} ' + ', '.join(may)))
            if validators:
                steps.append(('GCMayRaise', 'after all stores: ' + '; '.join(validators)))
            if '__attrs_post_init__' in methods:
                post = _body_steps(name, methods['__attrs_post_init__'], flag, own_set)
                if id_hooked:
                    # a converter / validator / on_setattr hook of the `id` field also runs on `self.id = <get_id result>`: when it
                    # raises there, the manager has handed an ID out that nobody holds and self.id still holds the caller's value
                    post = [x for s in post for x in ((('GCMayRaise', 'hooks of the id field run on the store of the get_id result'), s)
                                                      if s[0] == 'GCRegister' else (s,))]
                steps += post
        else:
            raise TranslateError(f'{name}: neither a hand-written __init__ nor an attrs class')
        # the flag, if any, is written nowhere else
        if flag is not None:
            for fn in ast.walk(tree):
                if isinstance(fn, ast.FunctionDef):
                    for n in ast.walk(fn):
                        if isinstance(n, ast.Attribute) and n.attr == flag and isinstance(n.ctx, (ast.Store, ast.Del)):
                            if not (fn.name in ('__init__', '__attrs_post_init__') and fn in cls.body):
                                raise TranslateError(f'vmf.py:{n.lineno}: the ownership flag .{flag} of {name} is written in {fn.name}, outside the constructor')
        steps = _merge(steps)
        rows.append(dict(cls=name, kind=kind, steps=[s for s, _ in steps], detail=[f'{s}: {d}' for s, d in steps],
                         del_releases=releases, del_guarded=flag is not None, flag=flag, destructor=del_desc,
                         generated_init=bool(deco) and '__init__' not in methods))
    return rows


def shallow_copy_rows(tree: ast.Module, rows: list[dict]) -> list[tuple[str, str, bool, str]]:
    """copy.copy(obj): does it go through the class's own copy() (and so through the constructor), or does the default protocol
    duplicate the fields -- ID and ownership flag included -- into an object that registered nothing?  A class that customises pickling (`__reduce__`, `__reduce_ex__`, `__getnewargs__`..) is not modelled."""
    classes = {n.name: n for n in tree.body if isinstance(n, ast.ClassDef)}
    out = []
    for r in rows:
        cls = classes[r['cls']]
        names = {f.name: f for f in cls.body if isinstance(f, ast.FunctionDef)}
        for bad in ('__reduce__', '__reduce_ex__', '__getnewargs__', '__getnewargs_ex__', '__new__'):
            if bad in names:
                raise TranslateError(f'{r["cls"]}.{bad}: customised object creation is not modelled')
        hook = False
        desc = 'no __copy__: copy.copy() duplicates the fields'
        f = names.get('__copy__')
        if f is not None:
            body = [st for st in f.body if not (isinstance(st, ast.Expr) and isinstance(st.value, ast.Constant))]
            if len(body) == 1 and isinstance(body[0], ast.Return) and isinstance(body[0].value, ast.Call) \
                    and _is_self_attr(body[0].value.func, 'copy'):
                hook, desc = True, f'__copy__ returns {ast.unparse(body[0].value)}'
            elif body and isinstance(body[-1], ast.Raise):
                hook, desc = True, '__copy__ refuses'
            else:
                desc = '__copy__ is not `return self.copy(..)`'
        for st in cls.body:
            if isinstance(st, ast.Assign) and any(isinstance(t, ast.Name) and t.id == '__copy__' for t in st.targets):
                if isinstance(st.value, ast.Name) and st.value.id == 'copy':
                    hook, desc = True, '__copy__ = copy'
                else:
                    hook, desc = False, f'__copy__ = {ast.unparse(st.value)}'
        # without a releasing destructor the shared ID is never handed out again, but the copy is still a second object with the same ID
        out.append((r['kind'], r['cls'], hook, desc + ('' if r['del_releases'] else ' (no releasing destructor)')))
    return out


def coq_rows(rows: list[dict]) -> list[str]:
    b = {True: 'true', False: 'false'}
    return [
        '(* round 5: the constructor of every ID-bearing class as a step list (attrs classes: the generated __init__, field by field,',
        '   then validators, then __attrs_post_init__), whether the destructor releases self.id, and whether only under an ownership flag *)',
        'Inductive ctor_step := GCStoreRaw | GCMayRaise | GCRegister | GCSetOwned.',
        'Definition ctor_classes : list (kind * string * list ctor_step * bool * bool) := [',
        ';\n'.join('  (%s, "%s", [%s], %s, %s)' % (r['kind'], r['cls'], '; '.join(r['steps']), b[r['del_releases']], b[r['del_guarded']])
                   for r in rows),
        '].',
    ]
