"""C13 translator: the parts of the VPK API around the state machine -> Gen/VpkApi_gen.v (consumed by SM/VpkApi.v).

  * `OpenModes.writable` is *evaluated* for every member of the enum (`self.value in 'wa'`, `self is not OpenModes.READ`,
    `self in (OpenModes.WRITE, OpenModes.APPEND)` ... are the same table): g_writable_r / _w / _a.
  * `VPK.__exit__` is executed symbolically for the four combinations of (no exception, mode writable): how often
    `self.write_dirfile()` is called and whether the method returns something true (which would swallow the exception):
    g_exit_table.  Nested ifs, early returns, `and`/`or`/`not`, `is None`/`is not None` on the exception type or value are all
    the same table.
  * every mutating method (`new_file`, `add_file`, `add_folder`, `__delitem__`, `write_dirfile`, `FileInfo.write`) reaches a
    writability guard (`self._check_writable()`, `if not <vpk>.mode.writable: raise`, or a call of another guarded method of the same
    archive) before any statement that is not on the list of side-effect-free preparations; `_check_writable` itself raises exactly
    when the mode is not writable; census: no other method of VPK / FileInfo stores into the nest or the entry fields.
  * `VPK.load_dirfile`: on every path `_fileinfo` is emptied and `footer_data` is reset/assigned before the directory is read and
    before every normal return (calling it a second time on the same object is a reopen).
  * the listing methods `__iter__`, `__len__`, `filenames()`, `fileinfos()` are specialised to their default arguments (constant
    folding of `if ext:`, `ext is not None`, `x.startswith('')`, inlining of `self._iter_folders(ext)`) and must then be a full walk over
    the three levels of the nest.
Fail-closed: TranslateError on anything not understood.
"""
from __future__ import annotations

import ast

from harness.common import TranslateError, ast_digest, src_text
from translate.c13_nullstr import find_def, fn_body, is_name

MUTATORS_VPK = ('new_file', 'add_file', 'add_folder', '__delitem__', 'write_dirfile')
ENTRY_FIELDS = ('crc', 'arch_index', 'offset', 'arch_len', 'start_data', 'footer_data', '_fileinfo')
# calls that may precede the guard: they neither touch the archive nor the file system
PURE_CALLS = {'_check_arch_index', '_get_file_parts', '_check_is_ascii', 'checksum', 'len', 'isinstance', 'str', 'bool'}


def _b(x: bool) -> str:
    return 'true' if x else 'false'


def is_attr(e, base_test, attr: str) -> bool:
    return isinstance(e, ast.Attribute) and e.attr == attr and base_test(e.value)


def is_self(e) -> bool:
    return is_name(e, 'self')


def is_self_vpk(e) -> bool:
    return is_attr(e, is_self, 'vpk')


# ------------------------------------------------------------------------------------------------ OpenModes.writable
class _Member:
    def __init__(self, name, value):
        self.name, self.value = name, value


def _eval_mode_expr(e, me: _Member, members: dict[str, _Member], cls: str):
    """Concrete evaluation of the `writable` expression for one member."""
    ev = lambda x: _eval_mode_expr(x, me, members, cls)
    if is_self(e):
        return me
    if is_attr(e, is_self, 'value'):
        return me.value
    if is_attr(e, is_self, 'name'):
        return me.name
    if isinstance(e, ast.Attribute) and is_name(e.value, cls) and e.attr in members:
        return members[e.attr]
    if isinstance(e, ast.Attribute) and e.attr in ('value', 'name') and isinstance(e.value, ast.Attribute) and is_name(e.value.value, cls) \
            and e.value.attr in members:
        return getattr(members[e.value.attr], e.attr)
    if isinstance(e, ast.Constant) and isinstance(e.value, (str, bool)):
        return e.value
    if isinstance(e, (ast.Tuple, ast.List, ast.Set)):
        return [ev(x) for x in e.elts]
    if isinstance(e, ast.UnaryOp) and isinstance(e.op, ast.Not):
        v = ev(e.operand)
        if not isinstance(v, bool):
            raise TranslateError('OpenModes.writable: `not` of a non-boolean')
        return not v
    if isinstance(e, ast.BoolOp):
        vs = [ev(x) for x in e.values]
        if not all(isinstance(v, bool) for v in vs):
            raise TranslateError('OpenModes.writable: and/or of non-booleans')
        return all(vs) if isinstance(e.op, ast.And) else any(vs)
    if isinstance(e, ast.Compare) and len(e.ops) == 1:
        l, r, op = ev(e.left), ev(e.comparators[0]), e.ops[0]
        same = (l is r) if isinstance(l, _Member) or isinstance(r, _Member) else (l == r)
        if isinstance(op, (ast.Eq, ast.Is)):
            return same
        if isinstance(op, (ast.NotEq, ast.IsNot)):
            return not same
        if isinstance(op, (ast.In, ast.NotIn)):
            if isinstance(r, str) and isinstance(l, str):
                res = l in r
            elif isinstance(r, list):
                res = any((l is x) if isinstance(l, _Member) or isinstance(x, _Member) else (l == x) for x in r)
            else:
                raise TranslateError('OpenModes.writable: `in` with an unsupported container')
            return res if isinstance(op, ast.In) else not res
    raise TranslateError(f'OpenModes.writable: expression {ast.unparse(e)[:60]!r} not understood')


def mode_table(om: ast.ClassDef) -> dict[str, bool]:
    members: dict[str, _Member] = {}
    for n in om.body:
        if isinstance(n, ast.Assign) and len(n.targets) == 1 and isinstance(n.targets[0], ast.Name) and isinstance(n.value, ast.Constant) \
                and isinstance(n.value.value, str):
            members[n.targets[0].id] = _Member(n.targets[0].id, n.value.value)
    if sorted(m.value for m in members.values()) != ['a', 'r', 'w']:
        raise TranslateError(f'OpenModes: members with the values r, w, a expected, found {sorted(m.value for m in members.values())}')
    fn = find_def(om.body, ast.FunctionDef, 'writable')
    body = fn_body(fn)
    if len(body) != 1 or not isinstance(body[0], ast.Return) or body[0].value is None:
        raise TranslateError('OpenModes.writable: a single return statement expected')
    out = {}
    for m in members.values():
        v = _eval_mode_expr(body[0].value, m, members, om.name)
        if not isinstance(v, bool):
            raise TranslateError('OpenModes.writable: does not evaluate to a boolean')
        out[m.value] = v
    return out


# ------------------------------------------------------------------------------------------------ boolean tests over atoms
def _wtest(e, vpk_test, modes_cls: str, read_member: str):
    """`<vpk>.mode.writable` and comparisons of `<vpk>.mode` with OpenModes.READ -> ('W', positive?) or None"""
    is_mode = lambda x: is_attr(x, vpk_test, 'mode')
    if is_attr(e, is_mode, 'writable'):
        return True
    if isinstance(e, ast.Compare) and len(e.ops) == 1 and is_mode(e.left):
        r = e.comparators[0]
        if isinstance(r, ast.Attribute) and is_name(r.value, modes_cls) and r.attr == read_member:
            if isinstance(e.ops[0], (ast.Is, ast.Eq)):
                return False
            if isinstance(e.ops[0], (ast.IsNot, ast.NotEq)):
                return True
    return None


def eval_bool(e, atoms):
    """Evaluate a test under a truth assignment; `atoms(e)` returns True/False for an atomic test or None."""
    a = atoms(e)
    if a is not None:
        return a
    if isinstance(e, ast.UnaryOp) and isinstance(e.op, ast.Not):
        return not eval_bool(e.operand, atoms)
    if isinstance(e, ast.BoolOp):
        vs = [eval_bool(x, atoms) for x in e.values]
        return all(vs) if isinstance(e.op, ast.And) else any(vs)
    if isinstance(e, ast.Constant) and isinstance(e.value, bool):
        return e.value
    raise TranslateError(f'line {getattr(e, "lineno", "?")}: test {ast.unparse(e)[:70]!r} not understood')


# ------------------------------------------------------------------------------------------------ __exit__
def exit_table(fn: ast.FunctionDef, read_member: str) -> list[tuple[bool, bool, int, bool]]:
    args = [a.arg for a in fn.args.posonlyargs + fn.args.args]
    if len(args) != 4 or fn.args.vararg or fn.args.kwarg:
        raise TranslateError('__exit__: (self, exc_type, exc_value, traceback) expected')
    exc_names = set(args[1:3])
    rows = []
    for noexc in (False, True):
        for wr in (False, True):
            def atoms(e, noexc=noexc, wr=wr):
                w = _wtest(e, is_self, 'OpenModes', read_member)
                if w is not None:
                    return wr if w else not wr
                if isinstance(e, ast.Compare) and len(e.ops) == 1 and isinstance(e.left, ast.Name) and e.left.id in exc_names \
                        and isinstance(e.comparators[0], ast.Constant) and e.comparators[0].value is None:
                    if isinstance(e.ops[0], (ast.Is, ast.Eq)):
                        return noexc
                    if isinstance(e.ops[0], (ast.IsNot, ast.NotEq)):
                        return not noexc
                if isinstance(e, ast.Name) and e.id == args[1]:       # an exception type is true, None is not
                    return not noexc
                return None
            calls, ret = 0, False
            stack = list(fn_body(fn))
            steps = 0
            while stack:
                steps += 1
                if steps > 200:
                    raise TranslateError('__exit__: too long')
                s = stack.pop(0)
                if isinstance(s, ast.Pass):
                    continue
                if isinstance(s, ast.Return):
                    if s.value is None or (isinstance(s.value, ast.Constant) and s.value.value in (None, False)):
                        break
                    if isinstance(s.value, ast.Constant) and s.value.value is True:
                        ret = True
                        break
                    ret = bool(eval_bool(s.value, atoms))
                    break
                if isinstance(s, ast.If):
                    stack = list(s.body if eval_bool(s.test, atoms) else s.orelse) + stack
                    continue
                if isinstance(s, ast.Expr) and isinstance(s.value, ast.Call) and is_attr(s.value.func, is_self, 'write_dirfile') \
                        and not s.value.args and not s.value.keywords:
                    calls += 1
                    continue
                raise TranslateError(f'line {s.lineno}: __exit__: statement {ast.unparse(s)[:70]!r} not understood')
            rows.append((noexc, wr, calls, ret))
    return rows


# ------------------------------------------------------------------------------------------------ writability guards
def _w_atoms(vpk_test, read_member: str, wr: bool):
    def atoms(e):
        w = _wtest(e, vpk_test, 'OpenModes', read_member)
        return None if w is None else (wr if w else not wr)
    return atoms


def _is_guard(s: ast.stmt, vpk_test, read_member: str) -> bool:
    """`<vpk>._check_writable()` or `if <test that is true exactly when the mode is not writable>: raise ...`"""
    if isinstance(s, ast.Expr) and isinstance(s.value, ast.Call) and is_attr(s.value.func, vpk_test, '_check_writable') and not s.value.args:
        return True
    if isinstance(s, ast.If) and not s.orelse and len(s.body) == 1 and isinstance(s.body[0], ast.Raise) and s.body[0].exc is not None:
        try:
            return eval_bool(s.test, _w_atoms(vpk_test, read_member, True)) is False and eval_bool(s.test, _w_atoms(vpk_test, read_member, False)) is True
        except TranslateError:
            return False
    return False


def _is_pure(s: ast.stmt) -> bool:
    """A statement that cannot change the archive or the file system: only calls of PURE_CALLS, no stores except to plain locals."""
    exc_calls = {id(n.exc) for n in ast.walk(s) if isinstance(n, ast.Raise) and isinstance(n.exc, ast.Call) and isinstance(n.exc.func, ast.Name)}
    for n in ast.walk(s):
        if id(n) in exc_calls:
            continue        # constructing the exception that is raised
        if isinstance(n, ast.Call) and not (isinstance(n.func, ast.Name) and n.func.id in PURE_CALLS):
            return False
        if isinstance(n, (ast.Attribute, ast.Subscript)) and isinstance(getattr(n, 'ctx', None), (ast.Store, ast.Del)):
            return False
        if isinstance(n, (ast.With, ast.For, ast.While, ast.Try, ast.Delete, ast.Global, ast.Nonlocal, ast.Yield, ast.YieldFrom, ast.Await, ast.Return)):
            return False
    return True


def _first_effect_call(node):
    """The first call in evaluation order that is not a PURE_CALLS call; None if there is none."""
    if isinstance(node, ast.Call):
        for sub in [node.func] + list(node.args) + [k.value for k in node.keywords]:
            c = _first_effect_call(sub)
            if c is not None:
                return c
        if isinstance(node.func, ast.Name) and node.func.id in PURE_CALLS:
            return None
        return node
    for ch in ast.iter_child_nodes(node):
        c = _first_effect_call(ch)
        if c is not None:
            return c
    return None


def guard_ok(fn: ast.FunctionDef, vpk_test, guarded: set[str], read_member: str) -> bool:
    """Before anything else happens the method reaches a guard, or calls a guarded method of the same archive."""
    for s in fn_body(fn):
        if _is_guard(s, vpk_test, read_member):
            return True
        if _is_pure(s):
            continue
        if (isinstance(s, (ast.Expr, ast.Return)) and s.value is not None) or (isinstance(s, ast.Assign) and all(isinstance(t, ast.Name) for t in s.targets)):
            c = _first_effect_call(s.value)
            return c is not None and isinstance(c.func, ast.Attribute) and vpk_test(c.func.value) and c.func.attr in guarded
        return False
    return False


def check_writable_def(fn: ast.FunctionDef, read_member: str) -> bool:
    body = fn_body(fn)
    return len(body) == 1 and _is_guard(body[0], is_self, read_member)


def _nest_locals(fn: ast.FunctionDef) -> set[str]:
    """Locals bound from an expression that mentions self._fileinfo (or another such local): possible aliases of dicts of the nest."""
    al: set[str] = set()
    changed = True
    while changed:
        changed = False
        for n in ast.walk(fn):
            tg, val = [], None
            if isinstance(n, ast.Assign):
                tg, val = [t.id for t in n.targets if isinstance(t, ast.Name)], n.value
                if any(isinstance(t, ast.Subscript) and _mentions_nest(t, al) for t in n.targets):
                    val = n.targets[0] if val is None else ast.Tuple(elts=[val] + [t for t in n.targets if isinstance(t, ast.Subscript)], ctx=ast.Load())
            elif isinstance(n, ast.For):
                tg = [x.id for x in ast.walk(n.target) if isinstance(x, ast.Name)]
                val = n.iter
            if val is not None and _mentions_nest(val, al):
                for t in tg:
                    if t not in al:
                        al.add(t)
                        changed = True
    return al


def _mentions_nest(e, al: set[str]) -> bool:
    for n in ast.walk(e):
        if is_attr(n, is_self, '_fileinfo') or (isinstance(n, ast.Name) and n.id in al):
            return True
    return False


def mutates(fn: ast.FunctionDef) -> list[str]:
    """Why this method counts as mutating the archive contents (empty list = it does not)."""
    al = _nest_locals(fn)
    why = []
    for n in ast.walk(fn):
        if isinstance(n, ast.Subscript) and isinstance(n.ctx, (ast.Store, ast.Del)) and _mentions_nest(n.value, al):
            why.append(f'store into the nest (line {n.lineno})')
        if isinstance(n, ast.Call) and isinstance(n.func, ast.Attribute) and n.func.attr in ('pop', 'clear', 'setdefault', 'update', 'popitem', '__setitem__', '__delitem__') \
                and _mentions_nest(n.func.value, al):
            why.append(f'{n.func.attr}() on the nest (line {n.lineno})')
        if isinstance(n, ast.Attribute) and isinstance(n.ctx, (ast.Store, ast.Del)) and n.attr in ENTRY_FIELDS and (is_self(n.value) or is_self_vpk(n.value)):
            why.append(f'assignment to .{n.attr} (line {n.lineno})')
    return why


# ------------------------------------------------------------------------------------------------ load_dirfile resets the object
def load_resets(fn: ast.FunctionDef) -> tuple[bool, str]:
    """Path analysis: `_fileinfo` is emptied and `footer_data` assigned before the tree is read (first for/with/while statement) and
    before every return / the end of the function."""
    def is_clear(s):
        if isinstance(s, ast.Expr) and isinstance(s.value, ast.Call) and isinstance(s.value.func, ast.Attribute) and s.value.func.attr == 'clear' \
                and is_attr(s.value.func.value, is_self, '_fileinfo') and not s.value.args:
            return True
        if isinstance(s, ast.Assign) and any(is_attr(t, is_self, '_fileinfo') for t in s.targets):
            v = s.value
            return (isinstance(v, ast.Dict) and not v.keys) or (isinstance(v, ast.Call) and is_name(v.func, 'dict') and not v.args and not v.keywords)
        return False

    def sets_footer(s):
        return isinstance(s, ast.Assign) and any(is_attr(t, is_self, 'footer_data') for t in s.targets)

    problems: list[str] = []

    def walk(stmts, cl: bool, ft: bool, in_loop: bool) -> tuple[bool, bool, bool]:
        """-> (cleared, footer set, control can fall out of the block)"""
        for s in stmts:
            if is_clear(s):
                cl = True
            elif sets_footer(s):
                ft = True
            elif isinstance(s, ast.Return):
                if not (cl and ft):
                    problems.append(f'return at line {s.lineno} with _fileinfo cleared={cl}, footer_data set={ft}')
                return cl, ft, False
            elif isinstance(s, ast.Raise):
                return cl, ft, False
            elif isinstance(s, ast.If):
                c1, f1, o1 = walk(s.body, cl, ft, in_loop)
                c2, f2, o2 = walk(s.orelse, cl, ft, in_loop)
                if not (o1 or o2):
                    return cl, ft, False
                cl = (c1 or not o1) and (c2 or not o2)
                ft = (f1 or not o1) and (f2 or not o2)
            elif isinstance(s, ast.Try):
                c1, f1, o1 = walk(list(s.body) + list(s.orelse), cl, ft, in_loop)
                outs = [(c1, f1, o1)] + [walk(h.body, cl, ft, in_loop) for h in s.handlers]
                if s.finalbody:
                    raise TranslateError('load_dirfile: try/finally not understood')
                live = [(c, f) for c, f, o in outs if o]
                if not live:
                    return cl, ft, False
                cl, ft = all(c for c, _ in live), all(f for _, f in live)
            elif isinstance(s, (ast.With, ast.For, ast.While)):
                if not cl:
                    problems.append(f'the directory is read at line {s.lineno} before _fileinfo is emptied')
                c1, f1, o1 = walk(s.body, cl, ft, True)
                if isinstance(s, ast.With):
                    cl, ft = c1, f1
                    if not o1:
                        return cl, ft, False
                # loops: zero iterations possible, state unchanged afterwards
            elif isinstance(s, (ast.Break, ast.Continue)):
                return cl, ft, in_loop
            # any other simple statement: no effect on the two facts
        return cl, ft, True

    cl, ft, out = walk(fn_body(fn), False, False, False)
    if out and not (cl and ft):
        problems.append(f'end of load_dirfile reached with _fileinfo cleared={cl}, footer_data set={ft}')
    return not problems, '; '.join(problems)


# ------------------------------------------------------------------------------------------------ listing walks
class _Walk:
    """Result of specialising a listing method to its default arguments."""


def _fold(e, env: dict):
    """Constant folding over parameters bound to their default values. Returns a Python constant wrapped in ('c', v), or None."""
    if isinstance(e, ast.Constant):
        return ('c', e.value)
    if isinstance(e, ast.Name) and e.id in env:
        return ('c', env[e.id])
    if isinstance(e, ast.UnaryOp) and isinstance(e.op, ast.Not):
        v = _fold(e.operand, env)
        return None if v is None else ('c', not v[1])
    if isinstance(e, ast.Compare) and len(e.ops) == 1:
        l, r = _fold(e.left, env), _fold(e.comparators[0], env)
        if l is not None and r is not None:
            op = e.ops[0]
            if isinstance(op, ast.Is):
                return ('c', l[1] is r[1])
            if isinstance(op, ast.IsNot):
                return ('c', l[1] is not r[1])
            if isinstance(op, ast.Eq):
                return ('c', l[1] == r[1])
            if isinstance(op, ast.NotEq):
                return ('c', l[1] != r[1])
    if isinstance(e, ast.Call) and isinstance(e.func, ast.Attribute) and e.func.attr == 'startswith' and len(e.args) == 1 and not e.keywords:
        a = _fold(e.args[0], env)
        if a is not None and a[1] == '':
            return ('c', True)       # every string starts with ''
    if isinstance(e, ast.BoolOp):       # Python's value semantics, left to right with short circuit: `'' and <anything>` is '', `'' or None` is None
        v = None
        for x in e.values:
            v = _fold(x, env)
            if v is None:
                return None
            if isinstance(e.op, ast.And) and not v[1]:
                return v
            if isinstance(e.op, ast.Or) and v[1]:
                return v
        return v
    return None


def _specialise(stmts: list[ast.stmt], env: dict) -> list[ast.stmt]:
    """Drop the branches that the default arguments do not take; `if c: continue` with c false disappears."""
    out: list[ast.stmt] = []
    for s in stmts:
        if isinstance(s, ast.If):
            v = _fold(s.test, env)
            if v is not None:
                out += _specialise(list(s.body) if v[1] else list(s.orelse), env)
                continue
            raise TranslateError(f'line {s.lineno}: listing method: test {ast.unparse(s.test)[:60]!r} does not fold under the default arguments')
        if isinstance(s, ast.For):
            s2 = ast.For(target=s.target, iter=s.iter, body=_specialise(list(s.body), env), orelse=[], lineno=s.lineno, col_offset=0)
            out.append(s2)
            continue
        if isinstance(s, ast.AnnAssign) and s.value is None:
            continue
        if isinstance(s, ast.Pass):
            continue
        if isinstance(s, ast.Try):
            raise TranslateError(f'line {s.lineno}: listing method: try statement not understood')
        out.append(s)
    return out


def _defaults(fn: ast.FunctionDef, partial: bool = False) -> dict:
    env = {}
    pos = fn.args.posonlyargs + fn.args.args
    for a, d in zip(pos[len(pos) - len(fn.args.defaults):], fn.args.defaults):
        if not isinstance(d, ast.Constant):
            raise TranslateError(f'{fn.name}: default of {a.arg} is not a constant')
        env[a.arg] = d.value
    for a, d in zip(fn.args.kwonlyargs, fn.args.kw_defaults):
        if d is None or not isinstance(d, ast.Constant):
            raise TranslateError(f'{fn.name}: default of {a.arg} is not a constant')
        env[a.arg] = d.value
    if len(pos) - len(fn.args.defaults) != 1 and not partial:
        raise TranslateError(f'{fn.name}: cannot be called without arguments')
    return env


def _level_iter(e, kind_of: dict[str, int], cls: ast.ClassDef, env: dict, depth: int = 0):
    """An iterable over the dicts of the next level: returns (level of the container it walks, 'values'|'items'|'keys') or None.
    Level 0 is self._fileinfo (-> folders dicts), level 1 a folders dict (-> files dicts), level 2 a files dict (-> infos)."""
    if isinstance(e, ast.Call) and isinstance(e.func, ast.Attribute) and e.func.attr in ('values', 'items', 'keys') and not e.args:
        b = e.func.value
        if is_attr(b, is_self, '_fileinfo'):
            return 0, e.func.attr
        if isinstance(b, ast.Name) and b.id in kind_of:
            return kind_of[b.id], e.func.attr
    # a helper method of the same class whose body, specialised to the actual (folded) arguments, is `return <iterable>`
    if isinstance(e, ast.Call) and is_attr(e.func, is_self, e.func.attr if isinstance(e.func, ast.Attribute) else '') and depth < 2:
        try:
            h = find_def(cls.body, ast.FunctionDef, e.func.attr)
        except TranslateError:
            return None
        params = [a.arg for a in h.args.posonlyargs + h.args.args][1:]
        if len(params) != len(e.args) or e.keywords:
            return None
        henv = {}
        for p, a in zip(params, e.args):
            v = _fold(a, env)
            if v is None:
                return None
            henv[p] = v[1]
        body = _specialise(fn_body(h), henv)
        if len(body) == 1 and isinstance(body[0], ast.Return) and body[0].value is not None:
            return _level_iter(body[0].value, kind_of, cls, henv, depth + 1)
    return None


def _desugar_sum(body: list[ast.stmt]) -> list[ast.stmt]:
    """`return sum(E for a in A for b in B ...)` (also with a list comprehension) -> `n = 0; for a in A: for b in B: n += E; return n`"""
    if not body or not isinstance(body[-1], ast.Return):
        return body
    v = body[-1].value
    if not (isinstance(v, ast.Call) and is_name(v.func, 'sum') and len(v.args) == 1 and not v.keywords and isinstance(v.args[0], (ast.GeneratorExp, ast.ListComp))):
        return body
    comp = v.args[0]
    if any(g.ifs or g.is_async for g in comp.generators):
        raise TranslateError('listing method: filtered comprehension not understood')
    cnt = '__count'
    inner: list[ast.stmt] = [ast.AugAssign(target=ast.Name(id=cnt, ctx=ast.Store()), op=ast.Add(), value=comp.elt, lineno=v.lineno, col_offset=0)]
    for g in reversed(comp.generators):
        inner = [ast.For(target=g.target, iter=g.iter, body=inner, orelse=[], lineno=v.lineno, col_offset=0)]
    init = ast.Assign(targets=[ast.Name(id=cnt, ctx=ast.Store())], value=ast.Constant(value=0), lineno=v.lineno, col_offset=0)
    return body[:-1] + [init] + inner + [ast.Return(value=ast.Name(id=cnt, ctx=ast.Load()), lineno=v.lineno, col_offset=0)]


def _delegate(e, cls: ast.ClassDef, env: dict, depth: int) -> str | None:
    """`self` (-> __iter__) or `self.<method>(<arguments that fold>)`: the walk of that method under those arguments; None = not a delegation"""
    if depth > 3:
        raise TranslateError('listing methods delegate to each other too deeply')
    if is_self(e):
        return walk_shape(find_def(cls.body, ast.FunctionDef, '__iter__'), cls, depth=depth + 1)
    if isinstance(e, ast.Call) and is_name(e.func, 'iter') and len(e.args) == 1 and is_self(e.args[0]):
        return walk_shape(find_def(cls.body, ast.FunctionDef, '__iter__'), cls, depth=depth + 1)
    if isinstance(e, ast.Call) and isinstance(e.func, ast.Attribute) and is_self(e.func.value):
        try:
            m = find_def(cls.body, ast.FunctionDef, e.func.attr)
        except TranslateError:
            return None
        if any(isinstance(d, ast.Name) and d.id == 'property' for d in m.decorator_list):
            return None
        menv = _defaults(m, partial=True)
        params = [a.arg for a in m.args.posonlyargs + m.args.args][1:]
        actual = list(zip(params, e.args)) + [(k.arg, k.value) for k in e.keywords]
        if len(e.args) > len(params) or any(k is None for k, _ in actual):
            return None
        for nm, a in actual:
            v = _fold(a, env)
            if v is None or nm not in params + [a.arg for a in m.args.kwonlyargs]:
                return None
            menv[nm] = v[1]
        if any(q not in menv for q in params):
            return None
        try:
            return walk_shape(m, cls, env=menv, depth=depth + 1)
        except TranslateError:
            return None         # not a listing method (e.g. a helper that returns the dicts of one level): handled by the general path
    return None


def _delegated_shape(body: list[ast.stmt], cls: ast.ClassDef, env: dict, depth: int) -> str | None:
    """A listing method written in terms of another one: `for x in D: yield x[.filename]`, `yield from D`, `return len(list(D))`,
    `n = 0; for _ in D: n += 1; return n` (what `sum(1 for _ in D)` desugars to)."""
    if len(body) == 1 and isinstance(body[0], ast.Expr) and isinstance(body[0].value, ast.YieldFrom):
        return _delegate(body[0].value.value, cls, env, depth)
    if len(body) == 1 and isinstance(body[0], ast.For) and isinstance(body[0].target, ast.Name) and len(body[0].body) == 1:
        d = _delegate(body[0].iter, cls, env, depth)
        y = body[0].body[0]
        if d == 'infos' and isinstance(y, ast.Expr) and isinstance(y.value, ast.Yield) and y.value.value is not None:
            v = y.value.value
            if is_name(v, body[0].target.id):
                return 'infos'
            if isinstance(v, ast.Attribute) and v.attr in ('filename', 'name') and is_name(v.value, body[0].target.id):
                return 'names'
        return None
    if len(body) == 1 and isinstance(body[0], ast.Return) and isinstance(body[0].value, ast.Call) and is_name(body[0].value.func, 'len') \
            and len(body[0].value.args) == 1:
        a = body[0].value.args[0]
        if isinstance(a, ast.Call) and isinstance(a.func, ast.Name) and a.func.id in ('list', 'tuple') and len(a.args) == 1:
            return 'count' if _delegate(a.args[0], cls, env, depth) == 'infos' else None
    if len(body) == 3 and isinstance(body[0], ast.Assign) and isinstance(body[1], ast.For) and isinstance(body[2], ast.Return) \
            and len(body[0].targets) == 1 and isinstance(body[0].targets[0], ast.Name) and isinstance(body[0].value, ast.Constant) and body[0].value.value == 0:
        c = body[0].targets[0].id
        f = body[1]
        if is_name(body[2].value, c) and len(f.body) == 1 and isinstance(f.body[0], ast.AugAssign) and isinstance(f.body[0].op, ast.Add) \
                and is_name(f.body[0].target, c) and isinstance(f.body[0].value, ast.Constant) and f.body[0].value.value == 1 and type(f.body[0].value.value) is int:
            return 'count' if _delegate(f.iter, cls, env, depth) == 'infos' else None
    return None


def walk_shape(fn: ast.FunctionDef, cls: ast.ClassDef, env: dict | None = None, depth: int = 0) -> str:
    """'infos' = yields every FileInfo of the nest once; 'names' = yields `.filename` of every one; 'count' = returns their number."""
    env = _defaults(fn) if env is None else env
    body = _specialise(fn_body(fn), env)
    body = _desugar_sum(body)
    d = _delegated_shape(body, cls, env, depth)
    if d is not None:
        return d
    kind_of: dict[str, int] = {}
    # locals bound to a level-0 iterable (e.g. all_folders = self._fileinfo.values())
    iter_alias: dict[str, tuple[int, str]] = {}
    counter = None
    rest = []
    for s in body:
        if isinstance(s, ast.Assign) and len(s.targets) == 1 and isinstance(s.targets[0], ast.Name):
            li = _level_iter(s.value, kind_of, cls, env)
            if li is not None:
                iter_alias[s.targets[0].id] = li
                continue
            if isinstance(s.value, ast.Constant) and s.value.value == 0 and type(s.value.value) is int:
                counter = s.targets[0].id
                continue
        rest.append(s)

    def loop(s, want_level: int):
        """for <x> in <iterable over level want_level>: returns (bound dict name, body)"""
        if not isinstance(s, ast.For):
            return None
        it = s.iter
        li = iter_alias.get(it.id) if isinstance(it, ast.Name) else _level_iter(it, kind_of, cls, env)
        if li is None or li[0] != want_level:
            return None
        if li[1] == 'values' and isinstance(s.target, ast.Name):
            return s.target.id, s.body
        if li[1] == 'items' and isinstance(s.target, ast.Tuple) and len(s.target.elts) == 2 and isinstance(s.target.elts[1], ast.Name):
            return s.target.elts[1].id, s.body
        return None

    def leaf(stmts, files: str) -> str | None:
        """what is done with the files dict `files`"""
        if len(stmts) != 1:
            return None
        s = stmts[0]
        is_vals = lambda e: isinstance(e, ast.Call) and isinstance(e.func, ast.Attribute) and e.func.attr == 'values' and is_name(e.func.value, files) and not e.args
        if isinstance(s, ast.Expr) and isinstance(s.value, ast.YieldFrom) and is_vals(s.value.value):
            return 'infos'
        if isinstance(s, ast.For) and is_vals(s.iter) and isinstance(s.target, ast.Name) and len(s.body) == 1 and isinstance(s.body[0], ast.Expr) \
                and isinstance(s.body[0].value, ast.Yield) and s.body[0].value.value is not None:
            y = s.body[0].value.value
            if is_name(y, s.target.id):
                return 'infos'
            if isinstance(y, ast.Attribute) and y.attr in ('filename', 'name') and is_name(y.value, s.target.id):
                return 'names'
        if counter and isinstance(s, ast.AugAssign) and isinstance(s.op, ast.Add) and is_name(s.target, counter) and isinstance(s.value, ast.Call) \
                and is_name(s.value.func, 'len') and len(s.value.args) == 1 and is_name(s.value.args[0], files):
            return 'count'
        return None

    tail = None
    if counter is not None:
        if not rest or not (isinstance(rest[-1], ast.Return) and is_name(rest[-1].value, counter)):
            raise TranslateError(f'{fn.name}: the counter is not returned')
        rest, tail = rest[:-1], 'count'
    if len(rest) != 1:
        raise TranslateError(f'{fn.name}: one loop over the extensions expected after specialisation, found {len(rest)} statements')
    l0 = loop(rest[0], 0)
    if l0 is None or len(l0[1]) != 1:
        raise TranslateError(f'{fn.name}: outer loop is not a walk over all folders dicts of self._fileinfo')
    kind_of[l0[0]] = 1
    l1 = loop(l0[1][0], 1)
    if l1 is None:
        raise TranslateError(f'{fn.name}: middle loop is not a walk over all files dicts')
    kind_of[l1[0]] = 2
    what = leaf(l1[1], l1[0])
    if what is None or (tail == 'count') != (what == 'count'):
        raise TranslateError(f'{fn.name}: innermost statement {ast.unparse(l1[1][0])[:60]!r} not understood')
    return what


# ------------------------------------------------------------------------------------------------ listing methods called with arguments
class _LRet(Exception):
    def __init__(self, v):
        self.v = v


class _LKeyError(Exception):
    pass


class _LRun:
    """A listing method executed with its extension / folder arguments bound to their defaults or to symbolic non-empty strings.
    Values: ('c', python constant) | ('nest',) = self._fileinfo | ('L0', 'all'|'only'|'none') an iterable of folders dicts |
    ('D1',) a folders dict | ('D1only', may_raise) the dict stored under the extension argument | ('L1', 'items'|'values'|'keys') |
    ('dirname',) | ('D2',) a files dict | ('L2',) its values | ('info',) | ('prefix', negated?) = <dirname>.startswith(<folder argument>)."""
    EXT, FOLDER = '\x01EXT', '\x01FOLDER'

    def __init__(self, cls: ast.ClassDef):
        self.cls = cls
        self.sel = None
        self.out: list[tuple[str, str, str]] = []

    def ev(self, e, env: dict, depth: int = 0):
        f = _fold(e, {k: v[1] for k, v in env.items() if v[0] == 'c'})
        if f is not None and not (isinstance(e, ast.Name) and e.id not in env):
            return f
        if isinstance(e, ast.Name) and e.id in env:
            return env[e.id]
        if is_attr(e, is_self, '_fileinfo'):
            return ('nest',)
        if isinstance(e, ast.Dict) and not e.keys:
            return ('emptydict',)
        if isinstance(e, (ast.List, ast.Tuple)):
            if not e.elts:
                return ('L0', 'none')
            if len(e.elts) == 1:
                v = self.ev(e.elts[0], env, depth)
                if v[0] == 'D1only':
                    return ('L0', 'only')
            raise TranslateError(f'line {e.lineno}: listing: sequence {ast.unparse(e)[:50]!r} not understood')
        if isinstance(e, ast.Subscript):
            b, k = self.ev(e.value, env, depth), self.ev(e.slice, env, depth)
            if b == ('nest',) and k == ('c', self.EXT):
                raise _LKeyError()          # may raise: the caller must be inside try/except KeyError; see run()
        if isinstance(e, ast.UnaryOp) and isinstance(e.op, ast.Not):
            v = self.ev(e.operand, env, depth)
            if v[0] == 'prefix':
                return ('prefix', not v[1])
        if isinstance(e, ast.Call) and isinstance(e.func, ast.Attribute) and not e.keywords:
            b = self.ev(e.func.value, env, depth) if not is_self(e.func.value) else ('self',)
            args = [self.ev(a, env, depth) for a in e.args]
            at = e.func.attr
            if b == ('nest',) and at == 'values' and not args:
                return ('L0', 'all')
            if b == ('nest',) and at == 'get' and args == [('c', self.EXT), ('emptydict',)]:
                return ('D1only',)
            if b == ('D1',) and at in ('items', 'values', 'keys') and not args:
                return ('L1', at)
            if b == ('D2',) and at == 'values' and not args:
                return ('L2',)
            if b == ('dirname',) and at == 'startswith' and args == [('c', self.FOLDER)]:
                return ('prefix', False)
            if b == ('self',) and depth < 2:
                h = find_def(self.cls.body, ast.FunctionDef, at)
                params = [a.arg for a in h.args.posonlyargs + h.args.args][1:]
                if len(params) == len(args):
                    try:
                        self.run(fn_body(h), dict(zip(params, args)), depth + 1)
                    except _LRet as r:
                        return r.v
        raise TranslateError(f'line {getattr(e, "lineno", "?")}: listing: expression {ast.unparse(e)[:60]!r} not understood')

    def run(self, stmts, env: dict, depth: int = 0, dfilter: str = 'DAll') -> str:
        """returns the folder filter in force after the statements (an `if not <prefix test>: continue` narrows the rest of a loop body)"""
        for s in stmts:
            if (isinstance(s, ast.Expr) and isinstance(s.value, ast.Constant)) or isinstance(s, ast.Pass) or (isinstance(s, ast.AnnAssign) and s.value is None):
                continue
            if isinstance(s, ast.Return):
                raise _LRet(('c', None) if s.value is None else self.ev(s.value, env, depth))
            if isinstance(s, ast.Try) and len(s.handlers) == 1 and not s.orelse and not s.finalbody and ast.unparse(s.handlers[0].type) == 'KeyError' \
                    and len(s.body) == 1 and isinstance(s.body[0], ast.Return) and isinstance(s.body[0].value, (ast.List, ast.Tuple)) \
                    and len(s.body[0].value.elts) == 1:
                # try: return [self._fileinfo[ext]]  except KeyError: return ()   ==  the dict under the key, nothing when it is missing
                try:
                    self.ev(s.body[0].value.elts[0], env, depth)
                    raise TranslateError(f'line {s.lineno}: listing: try body not understood')
                except _LKeyError:
                    pass
                try:
                    self.run(s.handlers[0].body, env, depth, dfilter)
                except _LRet as r:
                    if r.v == ('L0', 'none'):
                        raise _LRet(('L0', 'only'))
                raise TranslateError(f'line {s.lineno}: listing: KeyError handler not understood')
            if isinstance(s, ast.Assign) and len(s.targets) == 1 and isinstance(s.targets[0], ast.Name):
                env[s.targets[0].id] = self.ev(s.value, env, depth)
                continue
            if isinstance(s, ast.AnnAssign) and isinstance(s.target, ast.Name):
                env[s.target.id] = self.ev(s.value, env, depth)
                continue
            if isinstance(s, ast.If):
                t = self.ev(s.test, env, depth)
                if t[0] == 'c':
                    dfilter = self.run(s.body if t[1] else s.orelse, env, depth, dfilter)
                    continue
                if t[0] == 'prefix' and dfilter == 'DAll':
                    only_continue = lambda b: len(b) == 1 and isinstance(b[0], ast.Continue)
                    if t[1] and only_continue(s.body) and not s.orelse:        # if not d.startswith(folder): continue
                        dfilter = 'DPrefix'
                        continue
                    if not t[1] and not s.orelse and not only_continue(s.body):   # if d.startswith(folder): <walk>
                        self.run(s.body, env, depth, 'DPrefix')
                        continue
                    if not t[1] and only_continue(s.body) and not s.orelse:    # the filter inverted
                        dfilter = 'DOtherSel'
                        continue
                raise TranslateError(f'line {s.lineno}: listing: test {ast.unparse(s.test)[:60]!r} not understood')
            # delegation to another listing method: `for x in self.<method>(<arguments>): yield x[.filename]` / `yield from self.<method>(...)`
            dcall = s.iter if isinstance(s, ast.For) else s.value.value if isinstance(s, ast.Expr) and isinstance(s.value, ast.YieldFrom) else None
            if isinstance(dcall, ast.Call) and isinstance(dcall.func, ast.Attribute) and is_self(dcall.func.value) and depth < 2 and self.sel is None:
                try:
                    m = find_def(self.cls.body, ast.FunctionDef, dcall.func.attr)
                except TranslateError:
                    m = None
                if m is not None and any(isinstance(n, (ast.Yield, ast.YieldFrom)) for n in ast.walk(m)):
                    leaf_ok = isinstance(s, ast.Expr)
                    to_names = False
                    if isinstance(s, ast.For) and isinstance(s.target, ast.Name) and not s.orelse and len(s.body) == 1 and isinstance(s.body[0], ast.Expr) \
                            and isinstance(s.body[0].value, ast.Yield) and s.body[0].value.value is not None:
                        y = s.body[0].value.value
                        to_names = isinstance(y, ast.Attribute) and y.attr == 'filename' and is_name(y.value, s.target.id)
                        leaf_ok = is_name(y, s.target.id) or to_names
                    mparams = [a.arg for a in m.args.posonlyargs + m.args.args][1:]
                    kwonly = [a.arg for a in m.args.kwonlyargs]
                    menv = {k: ('c', v) for k, v in _defaults(m, partial=True).items()}
                    if leaf_ok and len(dcall.args) <= len(mparams) and all(k.arg in mparams + kwonly for k in dcall.keywords):
                        for nm, a in list(zip(mparams, dcall.args)) + [(k.arg, k.value) for k in dcall.keywords]:
                            menv[nm] = self.ev(a, env, depth)
                        if all(q in menv for q in mparams + kwonly):
                            n0 = len(self.out)
                            try:
                                self.run(fn_body(m), menv, depth + 1)
                            except _LRet:
                                pass
                            if to_names:       # the FileInfo objects of the inner method, turned into their listed names
                                self.out[n0:] = [(a, b, 'names' if k == 'infos' else 'other') for a, b, k in self.out[n0:]]
                            continue
            if isinstance(s, ast.For) and not s.orelse:
                it = self.ev(s.iter, env, depth)
                if it[0] == 'L0' and isinstance(s.target, ast.Name) and self.sel is None:
                    self.sel = it[1]
                    if it[1] != 'none':
                        self.run(s.body, {**env, s.target.id: ('D1',)}, depth, dfilter)
                    continue
                if it == ('L1', 'items') and isinstance(s.target, ast.Tuple) and len(s.target.elts) == 2 and all(isinstance(x, ast.Name) for x in s.target.elts):
                    self.run(s.body, {**env, s.target.elts[0].id: ('dirname',), s.target.elts[1].id: ('D2',)}, depth, dfilter)
                    continue
                if it == ('L1', 'values') and isinstance(s.target, ast.Name):
                    self.run(s.body, {**env, s.target.id: ('D2',)}, depth, dfilter)
                    continue
                if it == ('L2',) and isinstance(s.target, ast.Name) and self.is_extract_leaf(s.body, s.target.id, env):
                    self.out.append((self.sel, dfilter, 'extract'))
                    continue
                if it == ('L2',) and isinstance(s.target, ast.Name) and len(s.body) == 1 and isinstance(s.body[0], ast.Expr) \
                        and isinstance(s.body[0].value, ast.Yield) and s.body[0].value.value is not None:
                    y = s.body[0].value.value
                    if is_name(y, s.target.id):
                        self.out.append((self.sel, dfilter, 'infos'))
                        continue
                    if isinstance(y, ast.Attribute) and y.attr == 'filename' and is_name(y.value, s.target.id):
                        self.out.append((self.sel, dfilter, 'names'))
                        continue
            if isinstance(s, ast.Expr) and isinstance(s.value, ast.YieldFrom) and self.ev(s.value.value, env, depth) == ('L2',):
                self.out.append((self.sel, dfilter, 'infos'))
                continue
            if isinstance(s, ast.Expr) and isinstance(s.value, ast.Call) and ast.unparse(s.value.func) == 'os.makedirs':
                continue        # creates a directory on disk: no effect on what is walked
            raise TranslateError(f'line {s.lineno}: listing: statement {ast.unparse(s)[:60]!r} not understood')
        return dfilter

    DEST = '\x01DEST'

    def is_extract_leaf(self, body, info: str, env: dict) -> bool:
        """with open(os.path.join(<destination argument>, <info>.filename), 'wb') as f: f.write(<info>.read())"""
        if len(body) != 1 or not isinstance(body[0], ast.With) or len(body[0].items) != 1 or not isinstance(body[0].items[0].optional_vars, ast.Name):
            return False
        w = body[0]
        f = w.items[0].optional_vars.id
        o = w.items[0].context_expr
        if not (isinstance(o, ast.Call) and is_name(o.func, 'open') and len(o.args) == 2 and not o.keywords and isinstance(o.args[1], ast.Constant) and o.args[1].value == 'wb'):
            return False
        j = o.args[0]
        if not (isinstance(j, ast.Call) and ast.unparse(j.func) == 'os.path.join' and len(j.args) == 2 and not j.keywords and isinstance(j.args[0], ast.Name)
                and env.get(j.args[0].id) == ('c', self.DEST) and ast.unparse(j.args[1]) == f'{info}.filename'):
            return False
        return len(w.body) == 1 and isinstance(w.body[0], ast.Expr) and ast.unparse(w.body[0].value) == f'{f}.write({info}.read())'


def extract_walk(fn: ast.FunctionDef, cls: ast.ClassDef) -> tuple[str, str, bool]:
    """extract_all executed: the walk it performs, and whether every FileInfo met is written as <destination>/<its listed name> with the
    bytes read() returns"""
    params = [a.arg for a in fn.args.posonlyargs + fn.args.args][1:]
    if len(params) != 1:
        return 'EOtherSel', 'DOtherSel', False
    r = _LRun(cls)
    try:
        try:
            r.run(fn_body(fn), {params[0]: ('c', _LRun.DEST)})
        except _LRet:
            pass
    except (TranslateError, _LKeyError):
        return 'EOtherSel', 'DOtherSel', False
    if len(r.out) == 1 and r.out[0][2] == 'extract':
        return {'all': 'EAll', 'only': 'EOnly'}.get(r.out[0][0], 'EOtherSel'), r.out[0][1], True
    return 'EOtherSel', 'DOtherSel', False


def listing_with_arguments(fn: ast.FunctionDef, cls: ast.ClassDef, leaf: str) -> list[tuple[bool, bool, str, str, bool]]:
    """(extension given?, folder given?, ext_sel, dir_sel, every file of a visited folder is yielded) for the four combinations"""
    params = [a.arg for a in fn.args.posonlyargs + fn.args.args + fn.args.kwonlyargs][1:]
    dflt = _defaults(fn)
    if sorted(params) != ['ext', 'folder']:
        raise TranslateError(f'{fn.name}: parameters (ext, folder) expected')
    out = []
    for eg in (False, True):
        for fg in (False, True):
            r = _LRun(cls)
            env = {'ext': ('c', _LRun.EXT if eg else dflt['ext']), 'folder': ('c', _LRun.FOLDER if fg else dflt['folder'])}
            try:
                try:
                    r.run(fn_body(fn), env)
                except _LRet:
                    pass
                if r.sel == 'none' and not r.out:
                    out.append((eg, fg, 'EOtherSel', 'DAll', True))
                elif len(r.out) == 1 and r.out[0][2] == leaf:
                    sel, df, _ = r.out[0]
                    out.append((eg, fg, {'all': 'EAll', 'only': 'EOnly'}.get(sel, 'EOtherSel'), df, True))
                else:
                    out.append((eg, fg, 'EOtherSel', 'DOtherSel', False))
            except (TranslateError, _LKeyError) as e:
                out.append((eg, fg, 'EOtherSel', 'DOtherSel', False))
    return out


# ------------------------------------------------------------------------------------------------ the translator
def translate() -> tuple[str, dict]:
    tree = ast.parse(src_text('vpk.py'))
    vpk = find_def(tree.body, ast.ClassDef, 'VPK')
    fi = find_def(tree.body, ast.ClassDef, 'FileInfo')
    om = find_def(tree.body, ast.ClassDef, 'OpenModes')
    mt = mode_table(om)
    read_member = [n.targets[0].id for n in om.body if isinstance(n, ast.Assign) and isinstance(n.value, ast.Constant) and n.value.value == 'r'][0]
    rows = exit_table(find_def(vpk.body, ast.FunctionDef, '__exit__'), read_member)
    # guards: fixpoint over "calls a guarded method first"
    chk_def = check_writable_def(find_def(vpk.body, ast.FunctionDef, '_check_writable'), read_member)
    guarded: set[str] = set()
    fns = {nm: find_def(vpk.body, ast.FunctionDef, nm) for nm in MUTATORS_VPK}
    changed = True
    while changed:
        changed = False
        for nm, f in fns.items():
            if nm not in guarded and guard_ok(f, is_self, guarded, read_member):
                guarded.add(nm)
                changed = True
    fw = find_def(fi.body, ast.FunctionDef, 'write')
    fw_ok = guard_ok(fw, is_self_vpk, guarded, read_member)
    # census of mutating methods
    allowed = set(MUTATORS_VPK) | {'__init__', 'load_dirfile'}
    others = {}
    for cls, ok in ((vpk, allowed), (fi, {'write'})):
        for f in cls.body:
            if isinstance(f, ast.FunctionDef) and f.name not in ok:
                w = mutates(f)
                if w:
                    others[f'{cls.name}.{f.name}'] = w
    lr_ok, lr_why = load_resets(find_def(vpk.body, ast.FunctionDef, 'load_dirfile'))
    lwalks = {nm: listing_with_arguments(find_def(vpk.body, ast.FunctionDef, nm), vpk, leaf) for nm, leaf in (('filenames', 'names'), ('fileinfos', 'infos'))}
    walks = {}
    for nm, want in (('__iter__', 'infos'), ('__len__', 'count'), ('filenames', 'names'), ('fileinfos', 'infos')):
        try:
            walks[nm] = (walk_shape(find_def(vpk.body, ast.FunctionDef, nm), vpk), want)
        except TranslateError as e:       # a shape that is not understood is a failed (named) obligation, not a failed translation
            # the executor of the listing methods with arguments understands more spellings (helpers with try/except, early returns):
            # its run with both arguments at their defaults decides the default walk as well
            if any(r == (False, False, 'EAll', 'DAll', True) for r in lwalks.get(nm, [])):
                walks[nm] = (want, want)
            else:
                walks[nm] = (f'not understood: {e}', want)
    exw = extract_walk(find_def(vpk.body, ast.FunctionDef, 'extract_all'), vpk)
    side = {'extract_all_walk': exw, 'listing_with_arguments': lwalks, 'mode_table': mt, 'exit_table': rows, 'guarded': sorted(guarded), 'fileinfo_write_guarded': fw_ok, 'check_writable_def': chk_def,
            'other_mutating_methods': others, 'load_resets': lr_ok, 'load_resets_problems': lr_why, 'walks': {k: v[0] for k, v in walks.items()},
            'digests': {nm: ast_digest(f) for nm, f in fns.items()}}
    lines = [
        '(* GENERATED by translate/c13_api.py from /repo/src/srctools/vpk.py. Do not edit. *)',
        'From Coq Require Import List NArith Bool.', 'From SV Require Import SM.Vpk SM.VpkApi SM.VpkListing.', 'Import ListNotations.', 'Open Scope N_scope.',
        f'Definition g_writable_r : bool := {_b(mt["r"])}.', f'Definition g_writable_w : bool := {_b(mt["w"])}.', f'Definition g_writable_a : bool := {_b(mt["a"])}.',
        '(* VPK.__exit__: (no exception, mode writable, calls of write_dirfile, returns a true value) *)',
        'Definition g_exit_table : list exit_row := [' + '; '.join(f'({_b(e)}, {_b(w)}, {c}, {_b(r)})' for e, w, c, r in rows) + '].',
        f'Definition g_check_writable_raises_iff_not_writable : bool := {_b(chk_def)}.',
    ]
    for nm in MUTATORS_VPK:
        lines.append(f'Definition g_guard_{nm.strip("_")} : bool := {_b(nm in guarded)}.')
    lines += [
        f'Definition g_guard_fileinfo_write : bool := {_b(fw_ok)}.',
        f'(* other methods that store into the nest or the entry fields: {sorted(others)} *)',
        f'Definition g_no_other_mutating_method : bool := {_b(not others)}.',
        f'Definition g_load_dirfile_resets_first : bool := {_b(lr_ok)}.',
    ]
    for nm, (got, want) in walks.items():
        lines.append(f'Definition g_walk_{nm.strip("_")} : bool := {_b(got == want)}.')
    lines.append('(* filenames / fileinfos executed with their arguments given or left at the default: (extension given, folder given, walk) *)')
    for nm, rows in lwalks.items():
        lines.append(f'Definition g_walks_{nm} : list (bool * bool * lwalk) := [' + '; '.join(
            f'({_b(eg)}, {_b(fg)}, mkWalk {es} {ds} {_b(ev)})' for eg, fg, es, ds, ev in rows) + '].')
    lines.append('(* extract_all executed: the walk, and "every FileInfo met is written to <destination>/<listed name> with the bytes of read()" *)')
    lines.append(f'Definition g_extract_walk : lwalk := mkWalk {exw[0]} {exw[1]} {_b(exw[2])}.')
    lines.append('')
    return '\n'.join(lines), side


GEN = {'VpkApi_gen': translate}
