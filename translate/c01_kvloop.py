"""C01 translator: the token loop of Keyvalues.parse -> Gen/KVLoop_gen.v (gen_ptree, gen_pfinal : KV.KvLoop.ptree).

The body of `for token_type, token_value in tokenizer:` and the statements after the loop are executed *symbolically*,
path by path:

  * control flow is normalised away: the continuation (the statements that follow an `if`) is inlined into both
    branches, so `if c: ...; continue` + rest, `if/elif/else`, nested ifs and early `raise`/`return` all give the same
    decision tree; `and` / `or` / `not` become nested tests; a test whose outcome is already known on the path (from
    earlier tests, including "token 0 is a STRING, hence not a NEWLINE", or from an assignment made on the path) is
    pruned, so unreachable code disappears; a test that mentions no local variable but the text of one token (whatever
    module-level helper it calls) is the atom "the source's line-break test on that token" (its character set is read
    by translate/c01_kvser.py);
  * tests become atoms over the state at the START of the pass (block_line, can_flag_replace, the parse options, is
    the current block the root, has it a child, name / kind of its last child ...) and over the kinds / texts of the
    tokens fetched so far; names are resolved through the roles found in the prologue (which variable is the block
    stack, the contents list, the root ...) and through the `X: Final = Token.X` aliases;
  * the heap operations of a path (`cur_block = ...`, `cur_block_contents = cur_block._value = []`,
    `open_keyvalues.append/pop`, `cur_block_contents.append(keyvalue)`, `cur_block_contents[-1] = keyvalue`, the
    construction of `keyvalue`) are tracked with their aliasing and summarised AT THE LEAF into one structural
    operation on the block stack, after checking that the loop invariant (`cur_block_contents is cur_block._value` and
    `open_keyvalues[-1] is cur_block`) is re-established; a path that does not re-establish it, or that appends a node
    whose name is not the key token / whose value was never set, gets the operation `SUnknown` (the tree then differs
    from the reference tree: a named obligation fails, the translator does not);
  * `cur_block_contents[-1]` evaluated where the list is not known to be non-empty yields an explicit
    `IndexError` branch.

Fail closed (`TranslateError`) on every statement or expression shape that is not understood.
"""
from __future__ import annotations

import ast

from harness.common import TranslateError, src_text

KIND = {'STRING': 'KStr', 'NEWLINE': 'KNL', 'BRACE_OPEN': 'KBO', 'BRACE_CLOSE': 'KBC', 'PROP_FLAG': 'KFlag', 'EOF': 'KEof'}
ALL_KINDS = ['KStr', 'KNL', 'KBO', 'KBC', 'KFlag', 'KOther', 'KEof']
BLS = {0: 'BNone', 1: 'BSkip', 2: 'BExpect'}
OPTS = {'newline_keys': 'ONewlineKeys', 'newline_values': 'ONewlineValues', 'single_line': 'OSingleLine',
        'single_block': 'OSingleBlock'}
ERRORS = [
    ('Keyvalues cannot have sub-section', 'EBlockAfterValue'),
    ('Block opening ("{") required, but hit EOF', 'EEofBlock'),
    ('Block opening (', 'EBlockRequired'),
    ('Illegal newline found in key', 'ENewlineKey'),
    ('Illegal newline found in value', 'ENewlineValue'),
    ('Keyvalue split across lines', 'EIndex'),      # unreachable in today's source (pruned); no constructor of its own
    ('Cannot have multiple names', 'EMultipleNames'),
    ('Too many closing brackets', 'ETooManyClose'),
    ('End of text reached with remaining open sections', 'EEofOpen'),
]


def _err(node, msg: str) -> TranslateError:
    return TranslateError(f'keyvalues.py:{getattr(node, "lineno", "?")}: parse loop: {msg}')


def _is_name(n, ident=None) -> bool:
    return isinstance(n, ast.Name) and (ident is None or n.id == ident)


def _is_new_node(v) -> bool:
    """Keyvalues.__new__(Keyvalues)"""
    return (isinstance(v, ast.Call) and isinstance(v.func, ast.Attribute) and v.func.attr == '__new__'
            and _is_name(v.func.value, 'Keyvalues') and len(v.args) == 1 and _is_name(v.args[0], 'Keyvalues')
            and not v.keywords)


def _is_empty_list(v) -> bool:
    return isinstance(v, ast.List) and not v.elts


class St:
    """Symbolic state of one path."""

    def __init__(self) -> None:
        self.env: dict = {}
        self.b = None            # constant assigned to block_line on the path ('BNone'...), None: unchanged
        self.cfr = None          # constant assigned to can_flag_replace
        self.cur = 'CUR'         # what cur_block refers to: CUR | LAST | DUMMY | PARENT
        self.contents = ('of', 'CUR')
        self.open = None         # None | ('push', X) | ('pop',)
        self.kv = None           # {'name': 'tok0'|'other'|None, 'value': 'leaf'|'block'|'other'|None}
        self.sop = None          # None | 'Append' | 'Replace'
        self.nread = 1
        self.unread = False
        self.tokvars = {}        # python name -> ('type'|'value', token index)
        self.bools = {}          # python name of a local that holds the outcome of a test made on the path -> bool
        self.broken = False

    def copy(self) -> 'St':
        n = St.__new__(St)
        n.__dict__.update(self.__dict__)
        n.env = dict(self.env)
        n.tokvars = dict(self.tokvars)
        n.bools = dict(self.bools)
        n.kv = dict(self.kv) if self.kv is not None else None
        return n

    # ---- knowledge
    def lookup(self, atom):
        if atom in self.env:
            return self.env[atom]
        if atom[0] == 'ATok':
            others = [self.env.get(('ATok', atom[1], k)) for k in ALL_KINDS if k != atom[2]]
            if any(v is True for v in others):
                return False
            if all(v is False for v in others):
                return True
        if atom[0] == 'ABl':
            others = [self.env.get(('ABl', k)) for k in BLS.values() if k != atom[1]]
            if any(v is True for v in others):
                return False
            if all(v is False for v in others):
                return True
        if atom == ('AParentIsRoot',) and self.env.get(('ACurIsRoot',)) is True:
            return False
        return None

    def assume(self, atom, val: bool) -> 'St':
        n = self.copy()
        n.env[atom] = val
        return n


class LoopTr:
    def __init__(self, fn: ast.FunctionDef, helpers: dict | None = None) -> None:
        self.fn = fn
        self.helpers = helpers or {}     # 'name' / 'Class.name' -> FunctionDef of the same module (inlined at call sites)
        self.n_inlined = 0
        self.leaves: list = []
        self.n_index = 0          # paths on which `contents[-1]` is evaluated where the list may be empty
        self.root0_guarded: list = []   # per `return root[0]` path: is root known to have a child there?
        self.brk_tests: dict = {0: {}, 1: {}}    # token index -> {id(node): node} of the line-break tests on its text
        a = fn.args
        # the local variables of parse: a test that mentions no local but the text of one token is a test on that text
        self.locals = {x.arg for x in a.posonlyargs + a.args + a.kwonlyargs} | {
            n.id for n in ast.walk(fn) if isinstance(n, ast.Name) and isinstance(n.ctx, ast.Store)}
        self.find_roles()

    # ------------------------------------------------------------------ prologue: who is who
    def find_roles(self) -> None:
        fn = self.fn
        body = fn.body
        loops = [(i, s) for i, s in enumerate(body) if isinstance(s, ast.For)]
        if len(loops) != 1:
            raise _err(fn, f'expected exactly one top-level for loop in parse, found {len(loops)}')
        self.loop_at, self.loop = loops[0]
        lp = self.loop
        if not (_is_name(lp.iter) and isinstance(lp.target, ast.Tuple) and len(lp.target.elts) == 2
                and all(_is_name(e) for e in lp.target.elts) and not lp.orelse):
            raise _err(lp, 'main loop is not `for <type>, <value> in <tokenizer>:`')
        self.tokenizer = lp.iter.id
        self.tok0 = (lp.target.elts[0].id, lp.target.elts[1].id)
        self.kind_alias: dict = {}
        self.int_alias: dict = {}
        self.root = self.curv = self.contv = self.stackv = self.blv = self.cfrv = None
        new_pair = None
        other_stmts = []
        for s in body[:self.loop_at]:
            if isinstance(s, ast.AnnAssign) and s.value is not None and _is_name(s.target):
                tgts, val = [s.target], s.value
            elif isinstance(s, ast.Assign):
                tgts, val = s.targets, s.value
            else:
                other_stmts.append(s)
                continue
            names = [t.id for t in tgts if _is_name(t)]
            bound = set(self.kind_alias) | set(self.int_alias) | set(new_pair or []) | {
                self.contv, self.stackv, self.cfrv, self.blv}
            if any(nm in bound for nm in names):
                raise _err(s, f'{names} assigned twice before the loop')
            if isinstance(val, ast.Attribute) and _is_name(val.value, 'Token') and len(names) == 1 == len(tgts):
                self.kind_alias[names[0]] = val.attr
            elif isinstance(val, ast.Constant) and type(val.value) is int and len(names) == 1 == len(tgts):
                self.int_alias[names[0]] = val.value
            elif _is_new_node(val) and len(names) == 2 == len(tgts):
                new_pair = names
            elif _is_empty_list(val) and len(tgts) == 2 and len(names) == 1:
                other = next(t for t in tgts if not _is_name(t))
                if isinstance(other, ast.Attribute) and other.attr == '_value' and _is_name(other.value):
                    self.contv, self._cont_owner = names[0], other.value.id
                else:
                    other_stmts.append(s)
            elif isinstance(val, ast.List) and len(val.elts) == 1 and _is_name(val.elts[0]) and len(names) == 1 == len(tgts):
                self.stackv, self._stack_init = names[0], val.elts[0].id
            elif isinstance(val, ast.Constant) and val.value is False and len(names) == 1 == len(tgts):
                if self.cfrv is not None:
                    raise _err(s, 'two flags initialised to False before the loop')
                self.cfrv = names[0]
            elif _is_name(val) and val.id in self.int_alias and len(names) == 1 == len(tgts):
                if self.blv is not None:
                    raise _err(s, 'two block-line variables before the loop')
                self.blv, bl_init = names[0], self.int_alias[val.id]
                if bl_init != 0:
                    raise _err(s, 'block_line does not start as BLOCK_LINE_NONE (0)')
            else:
                other_stmts.append(s)
        # Everything else before the loop must be known not to touch the loop's variables or the token stream: the
        # docstring, bare annotations, the fields of the root object (name None, line number), and the choice of the
        # tokenizer (`if isinstance(file_contents, BaseTokenizer): tokenizer = file_contents; tokenizer.<attr> = ...
        # else: tokenizer = Tokenizer(...)`, whose options translate/c01_kvser.py reads).  Fail closed otherwise.
        def tokenizer_setup(st_) -> bool:
            if isinstance(st_, ast.Assign) and len(st_.targets) == 1:
                t = st_.targets[0]
                if _is_name(t, self.tokenizer):
                    return _is_name(st_.value) or (isinstance(st_.value, ast.Call) and _is_name(st_.value.func, 'Tokenizer'))
                if isinstance(t, ast.Attribute) and _is_name(t.value, self.tokenizer) and t.attr in ('filename', 'error_type'):
                    return True
            return False
        for s in other_stmts:
            if isinstance(s, ast.Expr) and isinstance(s.value, ast.Constant):
                continue
            if isinstance(s, ast.AnnAssign) and s.value is None:
                continue
            if isinstance(s, ast.Assign) and all(isinstance(t, ast.Attribute) and _is_name(t.value)
                                                 and t.value.id in (new_pair or [])
                                                 and t.attr in ('_folded_name', '_real_name', 'real_name', 'line_num')
                                                 for t in s.targets) \
                    and isinstance(s.value, ast.Constant) and (s.value.value is None or type(s.value.value) is int):
                continue
            if isinstance(s, ast.If) and isinstance(s.test, ast.Call) and _is_name(s.test.func, 'isinstance') \
                    and s.body and s.orelse and all(tokenizer_setup(x) for x in list(s.body) + list(s.orelse)):
                continue
            raise _err(s, f'statement before the token loop not understood: {ast.unparse(s)[:60]}')
        if new_pair is None:
            raise _err(fn, '`cur_block = root = Keyvalues.__new__(Keyvalues)` not found')
        # root is the one returned after the loop
        rets = [s for s in body[self.loop_at + 1:] if isinstance(s, ast.Return)]
        if len(rets) != 1 or not _is_name(rets[0].value) or rets[0].value.id not in new_pair:
            raise _err(fn, 'the statement after the loop does not return the root object')
        self.root = rets[0].value.id
        self.curv = next(n for n in new_pair if n != self.root)
        if self.contv is None or self._cont_owner not in new_pair:
            raise _err(fn, '`cur_block_contents = cur_block._value = []` not found before the loop')
        if self.stackv is None or self._stack_init not in new_pair:
            raise _err(fn, '`open_keyvalues = [cur_block]` not found before the loop')
        if self.blv is None or self.cfrv is None:
            raise _err(fn, 'block_line / can_flag_replace initialisation not found before the loop')
        for k, v in self.int_alias.items():
            if v not in BLS:
                raise _err(fn, f'integer constant {k}={v} is not a block-line state')

    # ------------------------------------------------------------------ leaves
    def leaf(self, sop, b, c, unread, exit_) -> tuple:
        lf = ('Leaf', sop, b, c, unread, exit_)
        self.leaves.append(lf)
        return lf

    def raise_leaf(self, e: str) -> tuple:
        return self.leaf('SNone', None, None, False, ('XRaise', e))

    def index_leaf(self) -> tuple:
        self.n_index += 1
        return self.raise_leaf('EIndex')

    def structural(self, st: St, at_return_root0: bool = False) -> str:
        """The one structural operation of the path, or SUnknown when the loop invariant is not re-established."""
        if st.broken:
            return 'SUnknown'
        cb, ct, op = st.cur, st.contents, st.open
        if cb == 'CUR' and ct == ('of', 'CUR') and op is None:
            if st.sop is None:
                return 'SNone'
            if st.kv is None or st.kv['name'] != 'tok0' or st.kv['value'] not in ('leaf', 'block'):
                return 'SUnknown'
            return ('SAppend' if st.sop == 'Append' else 'SReplace') + ('Leaf' if st.kv['value'] == 'leaf' else 'Block')
        if cb in ('LAST', 'DUMMY') and ct == ('new', cb) and op == ('push', cb) and st.sop is None:
            return 'SOpenLast' if cb == 'LAST' else 'SOpenDummy'
        if cb == 'PARENT' and op == ('pop',) and st.sop is None and (ct == ('of', 'PARENT') or at_return_root0):
            return 'SPop'
        return 'SUnknown'

    def continue_leaf(self, st: St) -> tuple:
        b = st.b if st.b is not None and st.lookup(('ABl', st.b)) is not True else None
        c = st.cfr if st.cfr is not None and st.lookup(('ACfr',)) is not st.cfr else None
        return self.leaf(self.structural(st), b, c, st.unread, ('XContinue',))

    # ------------------------------------------------------------------ expressions
    def kind_const(self, e):
        if _is_name(e) and e.id in self.kind_alias:
            nm = self.kind_alias[e.id]
        elif isinstance(e, ast.Attribute) and _is_name(e.value, 'Token'):
            nm = e.attr
        else:
            return None
        if nm not in KIND:
            raise _err(e, f'token kind Token.{nm} is not one the model distinguishes')
        return KIND[nm]

    def is_last_child(self, e, st: St) -> bool:
        """cur_block_contents[-1]"""
        return (isinstance(e, ast.Subscript) and _is_name(e.value, self.contv)
                and isinstance(e.slice, ast.UnaryOp) and isinstance(e.slice.op, ast.USub)
                and isinstance(e.slice.operand, ast.Constant) and e.slice.operand.value == 1)

    def atomise(self, e, st: St):
        """-> ('const', bool) | ('atom', atom, negated, needs_child)"""
        if isinstance(e, ast.Constant) and isinstance(e.value, bool):
            return ('const', e.value)
        # a test on the text of one token only: the source's line-break test on that token
        names = {n.id for n in ast.walk(e) if isinstance(n, ast.Name)} & self.locals
        if len(names) == 1:
            (nm,) = names
            tv = st.tokvars.get(nm)
            if tv is not None and tv[0] == 'value' and not _is_name(e):
                if tv[1] not in (0, 1):
                    raise _err(e, 'test on the text of a token other than the key / the value')
                self.brk_tests[tv[1]][id(e)] = e
                return ('atom', ('ABrk', tv[1]), False, False)
        if _is_name(e):
            if e.id in st.bools:
                return ('const', st.bools[e.id])
            if e.id in OPTS:
                return ('atom', ('AOpt', OPTS[e.id]), False, False)
            if e.id == self.stackv:
                # `open_keyvalues` as a truth value: empty after the pop  <->  the stack was [root] before it
                if st.open == ('pop',) and st.cur == 'CUR':
                    return ('atom', ('ACurIsRoot',), True, False)
                raise _err(e, 'truth test of the block stack where it was not just popped')
            if e.id == self.cfrv:
                if st.cfr is not None:
                    return ('const', st.cfr)
                return ('atom', ('ACfr',), False, False)
            if e.id == self.contv:
                if st.contents != ('of', 'CUR') or st.cur != 'CUR' or st.sop is not None:
                    raise _err(e, 'emptiness test of the contents list after it was changed on the path')
                return ('atom', ('AHasChild',), False, False)
            raise _err(e, f'truth test of unknown name {e.id}')
        if isinstance(e, ast.Compare) and len(e.ops) == 1:
            op, l, r = e.ops[0], e.left, e.comparators[0]
            if isinstance(op, (ast.Is, ast.IsNot, ast.Eq, ast.NotEq)):
                neg = isinstance(op, (ast.IsNot, ast.NotEq))
                # token kind
                if _is_name(l) and st.tokvars.get(l.id, ('', 0))[0] == 'type':
                    k = self.kind_const(r)
                    if k is None:
                        raise _err(e, 'token type compared with something that is not a Token constant')
                    return ('atom', ('ATok', st.tokvars[l.id][1], k), neg, False)
                # block_line
                if _is_name(l, self.blv):
                    if not (_is_name(r) and r.id in self.int_alias) and not (isinstance(r, ast.Constant) and r.value in BLS):
                        raise _err(e, 'block_line compared with an unknown value')
                    v = BLS[self.int_alias[r.id] if _is_name(r) else r.value]
                    if st.b is not None:
                        return ('const', (st.b == v) != neg)
                    return ('atom', ('ABl', v), neg, False)
                # cur_block is root
                if isinstance(op, (ast.Is, ast.IsNot)) and _is_name(l) and _is_name(r) \
                        and {l.id, r.id} == {self.curv, self.root}:
                    if st.cur == 'CUR' and st.open is None:
                        return ('atom', ('ACurIsRoot',), neg, False)
                    if st.cur == 'PARENT' and st.open == ('pop',):
                        return ('atom', ('AParentIsRoot',), neg, False)
                    if st.cur in ('LAST', 'DUMMY'):
                        return ('const', neg)
                    raise _err(e, 'cur_block is root: cannot tell what cur_block is here')
                # cur_block_contents[-1]._real_name == token_value
                if isinstance(op, (ast.Eq, ast.NotEq)):
                    for a, b_ in ((l, r), (r, l)):
                        if isinstance(a, ast.Attribute) and a.attr in ('_real_name', 'real_name') \
                                and self.is_last_child(a.value, st) and _is_name(b_) and st.tokvars.get(b_.id) == ('value', 0):
                            self.need_cur_contents(e, st)
                            return ('atom', ('ALastNameEq',), neg, True)
            if isinstance(l, ast.Call) and _is_name(l.func, 'len') and len(l.args) == 1 and not l.keywords \
                    and _is_name(l.args[0], self.stackv) and isinstance(r, ast.Constant) and type(r.value) is int:
                # The stack holds the root and the open blocks: at the start of a pass its length is >= 1, and it is 1
                # exactly when cur_block is root; after the pop of the pass it is one less.
                base = 1 if st.open is None else 0 if (st.open == ('pop',) and st.cur == 'CUR') else None
                if base is not None:
                    n = r.value - base          # the test compares (number of open blocks) with n
                    is_root = {(ast.Eq, 0): True, (ast.LtE, 0): True, (ast.Lt, 1): True,
                               (ast.NotEq, 0): False, (ast.Gt, 0): False, (ast.GtE, 1): False}.get((type(op), n))
                    if is_root is not None:
                        return ('atom', ('ACurIsRoot',), not is_root, False)
            raise _err(e, f'unrecognised comparison {ast.unparse(e)[:60]}')
        if isinstance(e, ast.Call):
            f = e.func
            if _is_name(f, '_read_flag') and len(e.args) == 2 and not e.keywords and _is_name(e.args[0], 'flags') \
                    and _is_name(e.args[1]) and st.tokvars.get(e.args[1].id, ('', 0))[0] == 'value':
                return ('atom', ('AFlagOn', st.tokvars[e.args[1].id][1]), False, False)
            if isinstance(f, ast.Attribute) and f.attr == 'has_children' and not e.args and not e.keywords \
                    and self.is_last_child(f.value, st):
                self.need_cur_contents(e, st)
                return ('atom', ('ALastIsBlock',), False, True)
            if _is_name(f, 'isinstance') and len(e.args) == 2 and not e.keywords and isinstance(e.args[0], ast.Attribute) \
                    and e.args[0].attr in ('value', '_value') and self.is_last_child(e.args[0].value, st) \
                    and (_is_name(e.args[1], 'str') or _is_name(e.args[1], 'list')):
                self.need_cur_contents(e, st)
                return ('atom', ('ALastIsBlock',), e.args[1].id == 'str', True)
            raise _err(e, f'unrecognised call in a test: {ast.unparse(e)[:60]}')
        if isinstance(e, ast.Attribute) and e.attr == '_value' and _is_name(e.value, self.root):
            # root._value as a truth value
            if st.cur == 'PARENT' and st.open == ('pop',) and st.lookup(('AParentIsRoot',)) is True:
                return ('atom', ('AParentHasChild',), False, False)
            if st.cur == 'CUR' and st.open is None and st.sop is None and st.lookup(('ACurIsRoot',)) is True:
                return ('atom', ('AHasChild',), False, False)
            raise _err(e, 'root._value tested where the root is not known to be the current / the parent block')
        raise _err(e, f'unrecognised test {ast.unparse(e)[:60]}')

    def need_cur_contents(self, e, st: St) -> None:
        if st.contents != ('of', 'CUR') or st.cur != 'CUR' or st.sop is not None:
            raise _err(e, 'last child inspected after the contents list was changed on the path')

    def cond(self, e, st: St, kt, kf) -> tuple:
        if isinstance(e, ast.BoolOp) and not self._is_unit(e, st):
            first, rest = e.values[0], e.values[1:]
            more = rest[0] if len(rest) == 1 else ast.BoolOp(op=e.op, values=rest)
            if isinstance(e.op, ast.And):
                return self.cond(first, st, lambda s: self.cond(more, s, kt, kf), kf)
            return self.cond(first, st, kt, lambda s: self.cond(more, s, kt, kf))
        if isinstance(e, ast.UnaryOp) and isinstance(e.op, ast.Not) and not self._is_unit(e, st):
            return self.cond(e.operand, st, kf, kt)
        r = self.atomise(e, st)
        if r[0] == 'const':
            return kt(st) if r[1] else kf(st)
        _, atom, neg, needs_child = r
        if neg:
            kt, kf = kf, kt
        if needs_child:
            hc = st.lookup(('AHasChild',))
            if hc is False:
                return self.index_leaf()
            if hc is None:          # cur_block_contents[-1] on a list not known to be non-empty
                return ('If', ('AHasChild',), self.cond_atom(atom, st.assume(('AHasChild',), True), kt, kf),
                        self.index_leaf())
        return self.cond_atom(atom, st, kt, kf)

    def cond_atom(self, atom, st: St, kt, kf) -> tuple:
        v = st.lookup(atom)
        if v is True:
            return kt(st)
        if v is False:
            return kf(st)
        return ('If', atom, kt(st.assume(atom, True)), kf(st.assume(atom, False)))

    def _is_unit(self, e, st: St) -> bool:
        """A compound test that mentions nothing but the text of one token: one atom (the line-break test)."""
        names = {n.id for n in ast.walk(e) if isinstance(n, ast.Name)} & self.locals
        if len(names) != 1:
            return False
        tv = st.tokvars.get(next(iter(names)))
        return tv is not None and tv[0] == 'value'

    # ------------------------------------------------------------------ statements
    def classify_raise(self, s: ast.Raise, st: St) -> str:
        exc = s.exc
        if not (isinstance(exc, ast.Call) and (
                (isinstance(exc.func, ast.Attribute) and exc.func.attr == 'error' and _is_name(exc.func.value, self.tokenizer))
                or _is_name(exc.func, 'KeyValError'))) or not exc.args:
            raise _err(s, 'raise of something that is not tokenizer.error(...) / KeyValError(...)')
        a0 = exc.args[0]
        if _is_name(a0) and st.tokvars.get(a0.id, ('', 9)) == ('type', 0):
            return 'EUnexpected'
        while isinstance(a0, ast.BinOp) and isinstance(a0.op, ast.Add):
            a0 = a0.left
        if isinstance(a0, ast.JoinedStr) and a0.values and isinstance(a0.values[0], ast.Constant):
            a0 = a0.values[0]
        if isinstance(a0, ast.Constant) and isinstance(a0.value, str):
            for pre, name in ERRORS:
                if a0.value.startswith(pre):
                    return name
        raise _err(s, 'error message not recognised')

    def walk(self, stmts: list, st: St, final: bool = False) -> tuple:
        if not stmts:
            if final:
                raise _err(self.fn, 'parse falls off its end without returning the root')
            return self.continue_leaf(st)
        s, rest = stmts[0], stmts[1:]
        go = lambda s_: self.walk(rest, s_, final)          # noqa: E731
        if isinstance(s, (ast.Assert, ast.Pass)) or (isinstance(s, ast.Expr) and isinstance(s.value, ast.Constant)) \
                or (isinstance(s, ast.AnnAssign) and s.value is None):
            return go(st)
        if isinstance(s, ast.If):
            return self.cond(s.test, st, lambda x: self.walk(list(s.body) + rest, x, final),
                             lambda x: self.walk(list(s.orelse) + rest, x, final))
        if isinstance(s, ast.Raise):
            return self.raise_leaf(self.classify_raise(s, st))
        if isinstance(s, ast.Continue) and not final:
            return self.continue_leaf(st)
        if isinstance(s, ast.Return):
            v = s.value
            if final and _is_name(v, self.root) and st.open is None and st.cur == 'CUR' and st.sop is None \
                    and st.lookup(('ACurIsRoot',)) is True:
                return self.leaf('SNone', None, None, False, ('XReturnRoot',))
            if not final and _is_name(v) and st.kv is not None and v.id == st.kv.get('var'):
                return self.leaf(self.structural(st), None, None, False, ('XReturnKv',))
            if not final and isinstance(v, ast.Subscript) and _is_name(v.value, self.root) \
                    and isinstance(v.slice, ast.Constant) and v.slice.value == 0:
                ok = st.cur == 'PARENT' and st.lookup(('AParentIsRoot',)) is True
                self.root0_guarded.append(ok and st.lookup(('AParentHasChild',)) is True)
                return self.leaf(self.structural(st, True) if ok else 'SUnknown', None, None, False, ('XReturnRoot0',))
            raise _err(s, 'unrecognised return')
        if isinstance(s, ast.Try):
            return self.do_try(s, rest, st, final)
        if isinstance(s, (ast.Assign, ast.AnnAssign)):
            inl = self.inline_helper(s)
            if inl is not None:
                return self.walk(inl + rest, st, final)
            tgts = s.targets if isinstance(s, ast.Assign) else [s.target]
            return self.assign(s, tgts, s.value, st, go)
        if isinstance(s, ast.Expr) and isinstance(s.value, ast.Call):
            return self.call_stmt(s, s.value, st, go)
        raise _err(s, f'unrecognised statement {type(s).__name__}')

    def inline_helper(self, s):
        """`x = helper(a, b)` where helper is a function of the same module (or a static method of the class) whose
        body is straight-line code ending in `return <local>`: the body with the parameters replaced by the argument
        expressions (names, attributes of names, constants only: no effects, evaluated any number of times), the returned
        local renamed to x and the other locals made unique.  None when the statement is not such a call (it is then read
        as it stands, and an unknown call fails closed)."""
        import copy
        if not (isinstance(s, ast.Assign) and len(s.targets) == 1 and _is_name(s.targets[0]) and isinstance(s.value, ast.Call)):
            return None
        call, f = s.value, s.value.func
        key = f.id if _is_name(f) else f'{f.value.id}.{f.attr}' if isinstance(f, ast.Attribute) and _is_name(f.value) else None
        h = self.helpers.get(key)
        if h is None or call.keywords or self.n_inlined > 40:
            return None
        a = h.args
        if a.posonlyargs or a.kwonlyargs or a.vararg or a.kwarg or a.defaults or len(a.args) != len(call.args):
            return None
        ok_arg = lambda e: _is_name(e) or isinstance(e, ast.Constant) or (       # noqa: E731
            isinstance(e, ast.Attribute) and _is_name(e.value))
        if not all(ok_arg(e) for e in call.args):
            return None
        if any(isinstance(n, ast.Name) and n.id == s.targets[0].id for e in call.args for n in ast.walk(e)):
            return None         # x = helper(x): the renaming below would capture the argument
        body = [x for x in h.body if not (isinstance(x, ast.Expr) and isinstance(x.value, ast.Constant))]
        if not body or not isinstance(body[-1], ast.Return) or not _is_name(body[-1].value):
            return None
        if not all(isinstance(x, (ast.Assign, ast.AnnAssign, ast.Assert)) or (isinstance(x, ast.Expr) and isinstance(x.value, ast.Call))
                   for x in body[:-1]):
            return None
        params = {p.arg: e for p, e in zip(a.args, call.args)}
        stored = {n.id for x in body for n in ast.walk(x) if isinstance(n, ast.Name) and isinstance(n.ctx, ast.Store)}
        ret = body[-1].value.id
        if stored & set(params) or ret not in stored:
            return None
        self.n_inlined += 1
        ren = {nm: (s.targets[0].id if nm == ret else f'_inl{self.n_inlined}_{nm}') for nm in stored}

        class Sub(ast.NodeTransformer):
            def visit_Name(self, n):
                if n.id in params and isinstance(n.ctx, ast.Load):
                    return copy.deepcopy(params[n.id])
                if n.id in ren:
                    return ast.copy_location(ast.Name(id=ren[n.id], ctx=n.ctx), n)
                return n
        out = []
        for x in body[:-1]:
            y = Sub().visit(copy.deepcopy(x))
            for n in ast.walk(y):
                if hasattr(n, 'lineno'):
                    n.lineno = s.lineno
            out.append(ast.fix_missing_locations(y))
        self.locals |= set(ren.values())
        return out

    def do_try(self, s: ast.Try, rest, st: St, final: bool) -> tuple:
        """try: cur_block = open_keyvalues[-1]  except IndexError: raise ...   (after open_keyvalues.pop())"""
        ok = (len(s.body) == 1 and isinstance(s.body[0], ast.Assign) and len(s.body[0].targets) == 1
              and _is_name(s.body[0].targets[0], self.curv) and self._is_stack_top(s.body[0].value)
              and len(s.handlers) == 1 and _is_name(s.handlers[0].type, 'IndexError') and not s.orelse and not s.finalbody)
        if not ok or st.open != ('pop',) or st.cur != 'CUR':
            raise _err(s, 'try statement is not `cur_block = open_keyvalues[-1]` guarded against IndexError after a pop')

        def popped(x: St):
            x = x.copy()
            x.cur = 'PARENT'
            return self.walk(rest, x, final)
        return self.cond_atom(('ACurIsRoot',), st, lambda x: self.walk(list(s.handlers[0].body) + rest, x, final), popped)

    def _is_stack_top(self, e) -> bool:
        return (isinstance(e, ast.Subscript) and _is_name(e.value, self.stackv) and isinstance(e.slice, ast.UnaryOp)
                and isinstance(e.slice.op, ast.USub) and isinstance(e.slice.operand, ast.Constant)
                and e.slice.operand.value == 1)

    def assign(self, s, tgts, val, st: St, go) -> tuple:
        st = st.copy()
        names = [t.id for t in tgts if _is_name(t)]
        # x, y = tokenizer()
        if len(tgts) == 1 and isinstance(tgts[0], ast.Tuple):
            t = tgts[0]
            if not (len(t.elts) == 2 and all(_is_name(x) for x in t.elts) and isinstance(val, ast.Call)
                    and _is_name(val.func, self.tokenizer) and not val.args and not val.keywords):
                raise _err(s, 'tuple assignment that is not `type, value = tokenizer()`')
            if st.unread:
                raise _err(s, 'token fetched after a push_back')
            st.tokvars = {k: v for k, v in st.tokvars.items() if k not in (t.elts[0].id, t.elts[1].id)}
            st.tokvars[t.elts[0].id] = ('type', st.nread)
            st.tokvars[t.elts[1].id] = ('value', st.nread)
            st.nread += 1
            return ('Read', go(st))
        for nm in names:
            if nm in st.tokvars or nm in (self.root, self.stackv, self.tokenizer) or nm in OPTS or nm in self.int_alias \
                    or nm in self.kind_alias or nm == 'flags':
                raise _err(s, f'{nm} is rebound inside the loop')
        if len(tgts) == 1 and _is_name(tgts[0], self.blv):
            if _is_name(val) and val.id in self.int_alias:
                st.b = BLS[self.int_alias[val.id]]
            elif isinstance(val, ast.Constant) and val.value in BLS and type(val.value) is int:
                st.b = BLS[val.value]
            else:
                raise _err(s, 'block_line assigned something that is not one of its three constants')
            return go(st)
        if len(tgts) == 1 and _is_name(tgts[0], self.cfrv):
            if not (isinstance(val, ast.Constant) and isinstance(val.value, bool)):
                raise _err(s, 'can_flag_replace assigned a non-constant')
            st.cfr = val.value
            return go(st)
        if _is_new_node(val) and len(tgts) == 1 and names:
            if names[0] == self.curv:
                st.cur = 'DUMMY'
                if st.contents[0] == 'new':
                    st.broken = True
            else:
                if st.kv is not None or st.sop is not None:
                    raise _err(s, 'second node constructed on one path')
                st.kv = {'var': names[0], 'name': None, 'value': None}
            return go(st)
        # cur_block = cur_block_contents[-1]
        if len(tgts) == 1 and _is_name(tgts[0], self.curv) and self.is_last_child(val, st):
            if st.contents != ('of', 'CUR') or st.cur != 'CUR' or st.sop is not None:
                raise _err(s, 'cur_block = contents[-1] after the contents list was changed on the path')
            st.cur = 'LAST'
            return go(st)
        if len(tgts) == 1 and _is_name(tgts[0], self.curv) and self._is_stack_top(val):
            # outside try/except IndexError: only where the stack is known not to be empty after the pop
            if st.open == ('pop',) and st.cur == 'CUR' and st.lookup(('ACurIsRoot',)) is False:
                st.cur = 'PARENT'
                return go(st)
            raise _err(s, 'open_keyvalues[-1] read outside the IndexError guard')
        # cur_block_contents = cur_block._value = []   /   cur_block_contents = cur_block._value
        attr_t = [t for t in tgts if isinstance(t, ast.Attribute)]
        if self.contv in names:
            if _is_empty_list(val) and len(tgts) == 2 and len(attr_t) == 1 and attr_t[0].attr == '_value' \
                    and _is_name(attr_t[0].value, self.curv):
                if st.cur not in ('LAST', 'DUMMY'):
                    st.broken = True        # the children of an existing block would be dropped
                st.contents = ('new', st.cur)
                return go(st)
            if len(tgts) == 1 and isinstance(val, ast.Attribute) and val.attr == '_value' and _is_name(val.value, self.curv):
                st.contents = ('of', st.cur) if st.contents != ('new', st.cur) else st.contents
                return go(st)
            raise _err(s, 'unrecognised assignment to the contents list')
        # cur_block_contents[-1] = keyvalue
        if len(tgts) == 1 and self.is_last_child(tgts[0], st):
            if not (st.kv is not None and _is_name(val, st.kv['var'])):
                raise _err(s, 'contents[-1] assigned something that is not the new node')
            if st.contents != ('of', 'CUR') or st.cur != 'CUR' or st.sop is not None:
                st.broken = True
            st.sop = 'Replace'
            hc = st.lookup(('AHasChild',))
            if hc is True:
                return go(st)
            if hc is False:
                return self.index_leaf()
            return ('If', ('AHasChild',), go(st.assume(('AHasChild',), True)), self.index_leaf())
        # attributes of the new node / of the dummy block
        if attr_t and len(attr_t) == len(tgts) and all(_is_name(t.value) for t in attr_t):
            owners = {t.value.id for t in attr_t}
            if len(owners) != 1:
                raise _err(s, 'attributes of two objects assigned at once')
            (owner,) = owners
            if st.kv is not None and owner == st.kv['var']:
                for t in attr_t:
                    if t.attr in ('_folded_name', 'line_num'):
                        continue
                    if t.attr in ('real_name', '_real_name'):
                        v = val
                        if isinstance(v, ast.Call) and isinstance(v.func, ast.Attribute) and v.func.attr == 'intern' \
                                and _is_name(v.func.value, 'sys') and len(v.args) == 1 and not v.keywords:
                            v = v.args[0]
                        st.kv['name'] = 'tok0' if _is_name(v) and st.tokvars.get(v.id) == ('value', 0) else 'other'
                    elif t.attr in ('_value', 'value'):
                        if _is_empty_list(val):
                            st.kv['value'] = 'block'
                        elif _is_name(val) and st.tokvars.get(val.id) == ('value', 1):
                            st.kv['value'] = 'leaf'
                        else:
                            st.kv['value'] = 'other'
                    else:
                        raise _err(s, f'unknown attribute {t.attr} of the new node')
                return go(st)
            if owner == self.curv and st.cur == 'DUMMY':
                if all(t.attr in ('_folded_name', 'real_name', '_real_name', 'line_num') for t in attr_t):
                    return go(st)
            raise _err(s, f'store to an attribute of {owner}')
        # a local that holds the outcome of a test: `x = <test>` is `if <test>: x = True else: x = False` (the test is
        # made where the assignment stands, so an IndexError of the test keeps its place); x may then only be tested
        if len(tgts) == 1 and len(names) == 1 and names[0] not in (self.curv, self.contv, self.blv, self.cfrv) \
                and (st.kv is None or names[0] != st.kv['var']) \
                and isinstance(val, (ast.BoolOp, ast.Compare, ast.UnaryOp, ast.Call)) and not _is_new_node(val):
            nm = names[0]

            def bound(v):
                def k(x: St):
                    x = x.copy()
                    x.bools[nm] = v
                    return go(x)
                return k
            return self.cond(val, st, bound(True), bound(False))
        raise _err(s, f'unrecognised assignment {ast.unparse(s)[:60]}')

    def call_stmt(self, s, c: ast.Call, st: St, go) -> tuple:
        st = st.copy()
        f = c.func
        if not (isinstance(f, ast.Attribute) and _is_name(f.value)) or c.keywords:
            raise _err(s, 'unrecognised call statement')
        obj, meth = f.value.id, f.attr
        if obj == self.tokenizer and meth == 'expect':
            if len(c.args) != 1 or self.kind_const(c.args[0]) != 'KNL' or st.unread:
                raise _err(s, 'tokenizer.expect of something other than NEWLINE')
            st.nread += 1
            return ('Expect', go(st))
        if obj == self.tokenizer and meth == 'push_back':
            if len(c.args) != 2 or not all(_is_name(a) for a in c.args) or st.unread or st.nread < 2 \
                    or st.tokvars.get(c.args[0].id) != ('type', st.nread - 1) \
                    or st.tokvars.get(c.args[1].id) != ('value', st.nread - 1):
                raise _err(s, 'push_back of something that is not the last token fetched')
            st.unread = True
            return go(st)
        if obj == self.contv and meth == 'append':
            if not (len(c.args) == 1 and st.kv is not None and _is_name(c.args[0], st.kv['var'])):
                raise _err(s, 'contents.append of something that is not the new node')
            if st.contents != ('of', 'CUR') or st.cur != 'CUR' or st.sop is not None:
                st.broken = True
            st.sop = 'Append'
            return go(st)
        if obj == self.stackv and meth == 'append':
            if not (len(c.args) == 1 and _is_name(c.args[0], self.curv)):
                raise _err(s, 'open_keyvalues.append of something that is not cur_block')
            if st.open is not None:
                st.broken = True
            st.open = ('push', st.cur)
            return go(st)
        if obj == self.stackv and meth == 'pop':
            if c.args:
                raise _err(s, 'open_keyvalues.pop with an index')
            if st.open is not None or st.cur != 'CUR':
                st.broken = True
            st.open = ('pop',)
            return go(st)
        raise _err(s, f'unrecognised call {obj}.{meth}()')

    # ------------------------------------------------------------------ entry points
    def body_tree(self) -> tuple:
        st = St()
        st.tokvars = {self.tok0[0]: ('type', 0), self.tok0[1]: ('value', 0)}
        return self.walk(list(self.loop.body), st)

    def final_tree(self) -> tuple:
        return self.walk(list(self.fn.body[self.loop_at + 1:]), St(), final=True)


def coq_atom(a) -> str:
    if a[0] == 'ATok':
        return f'ATok {a[1]} {a[2]}'
    if a[0] in ('ABl', 'AOpt', 'ABrk', 'AFlagOn'):
        return f'{a[0]} {a[1]}'
    return a[0]


def coq_tree(t, ind: int = 2) -> str:
    pad = ' ' * ind
    if t[0] == 'If':
        return f'{pad}(PIf ({coq_atom(t[1])})\n{coq_tree(t[2], ind + 1)}\n{coq_tree(t[3], ind + 1)})'
    if t[0] == 'Read':
        return f'{pad}(PRead\n{coq_tree(t[1], ind + 1)})'
    if t[0] == 'Expect':
        return f'{pad}(PExpectNL\n{coq_tree(t[1], ind + 1)})'
    _, sop, b, c, unread, ex = t
    cb = f'(Some {b})' if b is not None else 'None'
    cc = f'(Some {"true" if c else "false"})' if c is not None else 'None'
    cx = f'(XRaise {ex[1]})' if ex[0] == 'XRaise' else ex[0]
    return f'{pad}(PLeaf {sop} {cb} {cc} {"true" if unread else "false"} {cx})'


def tree_stats(t) -> dict:
    out = {'tests': 0, 'reads': 0, 'leaves': 0, 'depth': 0}

    def go(x, d):
        out['depth'] = max(out['depth'], d)
        if x[0] == 'If':
            out['tests'] += 1
            go(x[2], d + 1)
            go(x[3], d + 1)
        elif x[0] in ('Read', 'Expect'):
            out['reads'] += 1
            go(x[1], d + 1)
        else:
            out['leaves'] += 1
    go(t, 0)
    return out


def module_helpers(tree: ast.Module, cls: ast.ClassDef) -> dict:
    """Functions a statement of parse may call and that are inlined there: module-level functions, static methods of
    the class (as `Keyvalues.name`)."""
    out = {n.name: n for n in tree.body if isinstance(n, ast.FunctionDef)}
    for n in cls.body:
        if isinstance(n, ast.FunctionDef) and any(_is_name(d, 'staticmethod') for d in n.decorator_list):
            out[f'{cls.name}.{n.name}'] = n
    return out


def translate() -> tuple[str, dict]:
    tree = ast.parse(src_text('keyvalues.py'))
    cls = next((n for n in tree.body if isinstance(n, ast.ClassDef) and n.name == 'Keyvalues'), None)
    if cls is None:
        raise TranslateError('keyvalues.py: class Keyvalues not found')
    cands = [n for n in cls.body if isinstance(n, ast.FunctionDef) and n.name == 'parse']
    if len(cands) != 1:
        raise TranslateError(f'keyvalues.py: expected one Keyvalues.parse, found {len(cands)}')
    tr = LoopTr(cands[0], module_helpers(tree, cls))
    body = tr.body_tree()
    fin = tr.final_tree()
    L = ['(* GENERATED by translate/c01_kvloop.py from Keyvalues.parse in src/srctools/keyvalues.py. Do not edit. *)',
         'From Coq Require Import List NArith.', 'From SV Require Import KV.KvBase KV.KvParse KV.KvLoop.', '',
         '(* one pass through the body of `for token_type, token_value in tokenizer:` *)',
         'Definition gen_ptree : ptree :=', coq_tree(body) + '.', '',
         '(* the statements after the loop *)',
         'Definition gen_pfinal : ptree :=', coq_tree(fin) + '.', '']
    ops: dict = {}
    for lf in tr.leaves:
        key = lf[1] + '/' + (lf[5][0] if lf[5][0] != 'XRaise' else 'raise ' + lf[5][1])
        ops[key] = ops.get(key, 0) + 1
    side = {'body': tree_stats(body), 'final': tree_stats(fin), 'leaf_census': ops,
            'roles': {'root': tr.root, 'cur_block': tr.curv, 'contents': tr.contv, 'stack': tr.stackv,
                      'block_line': tr.blv, 'can_flag_replace': tr.cfrv, 'tokenizer': tr.tokenizer,
                      'loop_token': list(tr.tok0)}}
    return '\n'.join(L), side


GEN = {'KVLoop_gen': translate}
