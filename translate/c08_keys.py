"""C08 translator helpers, round 3: census of every use of an entity's private keyvalue dictionary (`<x>._keys`).

The nav-node ID of an entity lives in its 'nodeid' keyvalue; it is registered with the map's `node_id` manager by
`Entity.__setitem__`.  Uniqueness of node IDs therefore needs: *every way a key can enter `_keys` goes through
`__setitem__`, or provably cannot be 'nodeid'* (a constant other key, an empty dictionary).  This module classifies every
occurrence of the attribute (and of local aliases / the constructor parameter it is handed to) as read / store /
removal / bulk write / rebinding / hand-off / exposure, fail-closed: an occurrence in a syntactic position that is
not understood raises TranslateError.
"""
from __future__ import annotations

import ast

from harness.common import TranslateError

READ_METHODS = {'get', 'items', 'values', 'keys', 'copy', '__contains__', '__len__', '__iter__', '__getitem__'}
REMOVE_METHODS = {'pop', 'popitem', 'clear', '__delitem__'}
WRITE_METHODS = {'update', 'setdefault', '__setitem__', '__ior__'}
READ_BUILTINS = {'len', 'iter', 'sorted', 'list', 'set', 'bool', 'dict', 'tuple', 'reversed', 'frozenset', 'any', 'all',
                 'enumerate', 'isinstance', 'id', 'repr', 'str', 'next', 'min', 'max', 'zip', 'map', 'filter'}


def parent_map(tree: ast.AST) -> dict[int, ast.AST]:
    return {id(ch): p for p in ast.walk(tree) for ch in ast.iter_child_nodes(p)}


def classify_use(occ: ast.AST, parents: dict[int, ast.AST]) -> tuple[str, object]:
    """What is done with the dictionary denoted by the expression node `occ`?

    ('read', None) | ('store', key expression) | ('remove', None) | ('bulk', method) | ('rebind', value expression)
    | ('alias', target name) | ('arg', (call, keyword name or positional index)) | ('return', None)."""
    p = parents.get(id(occ))
    if isinstance(p, ast.Subscript) and p.value is occ:
        if isinstance(p.ctx, ast.Load):
            # `d[k] += v` has the subscript as an AugAssign target (ctx Store), so Load is a pure read
            return 'read', None
        if isinstance(p.ctx, ast.Store):
            return 'store', p.slice
        return 'remove', None
    if isinstance(p, ast.Attribute) and p.value is occ:
        g = parents.get(id(p))
        if isinstance(g, ast.Call) and g.func is p:
            if p.attr in READ_METHODS:
                return 'read', None
            if p.attr in REMOVE_METHODS:
                return 'remove', None
            if p.attr in WRITE_METHODS:
                return 'bulk', p.attr
        raise TranslateError(f'line {occ.lineno}: keyvalue dictionary used through unknown attribute `.{p.attr}`')
    if isinstance(p, (ast.For, ast.AsyncFor, ast.comprehension)) and p.iter is occ:
        return 'read', None
    if isinstance(p, ast.Compare):
        return 'read', None
    if isinstance(p, (ast.If, ast.While, ast.IfExp, ast.Assert)) and p.test is occ:
        return 'read', None
    if isinstance(p, ast.UnaryOp) and isinstance(p.op, ast.Not):
        return 'read', None
    if isinstance(p, ast.Dict):            # {**d}
        return 'read', None
    if isinstance(p, ast.Starred):
        return 'read', None
    if isinstance(p, ast.keyword) and p.value is occ:
        call = parents.get(id(p))
        if p.arg is None:                  # f(**d): a new dictionary is built
            return 'read', None
        return 'arg', (call, p.arg)
    if isinstance(p, ast.Call) and occ in p.args:
        if isinstance(p.func, ast.Name) and p.func.id in READ_BUILTINS:
            return 'read', None
        return 'arg', (p, p.args.index(occ))
    if isinstance(p, ast.Assign):
        if occ in p.targets:
            return 'rebind', p.value
        if p.value is occ and len(p.targets) == 1 and isinstance(p.targets[0], ast.Name):
            return 'alias', p.targets[0].id
    if isinstance(p, ast.AnnAssign):
        if p.target is occ:
            return 'rebind', p.value
        if p.value is occ and isinstance(p.target, ast.Name):
            return 'alias', p.target.id
    if isinstance(p, ast.AugAssign) and p.target is occ:
        return 'bulk', 'augmented assignment'
    if isinstance(p, ast.Return):
        return 'return', None
    if isinstance(p, ast.Delete):
        return 'rebind', None
    raise TranslateError(f'line {occ.lineno}: keyvalue dictionary in an unclassified position ({type(p).__name__})')


def _functions(tree: ast.Module):
    """(class name or None, function node) for every top-level function / method (nested functions stay inside)."""
    for n in tree.body:
        if isinstance(n, (ast.FunctionDef, ast.AsyncFunctionDef)):
            yield None, n
        elif isinstance(n, ast.ClassDef):
            for st in ast.walk(n):
                if isinstance(st, (ast.FunctionDef, ast.AsyncFunctionDef)) and any(st is x for x in _direct_funcs(n)):
                    yield n.name, st


def _direct_funcs(cls: ast.ClassDef):
    """Methods of a class, also those under `if TYPE_CHECKING: ... else: ...` at class level."""
    def rec(body):
        for st in body:
            if isinstance(st, (ast.FunctionDef, ast.AsyncFunctionDef)):
                yield st
            elif isinstance(st, ast.If):
                yield from rec(st.body)
                yield from rec(st.orelse)
    yield from rec(cls.body)


def _is_empty_dict(v: ast.AST | None) -> bool:
    if isinstance(v, ast.Dict) and not v.keys:
        return True
    return (isinstance(v, ast.Call) and isinstance(v.func, ast.Name) and v.func.id in ('_KeyDict', 'dict')
            and not v.args and not v.keywords)


def _param_is_read_only(fn: ast.FunctionDef, param: str, parents) -> tuple[bool, str]:
    """Is the dictionary passed as parameter `param` only read inside `fn` (never mutated, stored or passed on)?"""
    if any(isinstance(n, ast.Name) and n.id == param and isinstance(n.ctx, (ast.Store, ast.Del)) for n in ast.walk(fn)):
        return False, f'parameter `{param}` is re-bound'
    for n in ast.walk(fn):
        if isinstance(n, ast.Name) and n.id == param and isinstance(n.ctx, ast.Load):
            what, _ = classify_use(n, parents)
            if what != 'read':
                return False, f'{what} at line {n.lineno}'
    return True, ''


def keys_census(trees: dict[str, ast.Module], attr: str = '_keys', owner: str = 'Entity',
                register_fn: str = '__setitem__', special_key: str | None = 'nodeid',
                occ_filter=None, rebind_ok=None, validated_store_fns: dict[str, int] | None = None):
    """Rows (function, description, site class, ok) for every place that can put a key into `<x>.<attr>`, and the
    list of exposures.  Site classes: 'KwCtor' (constructor / copy / parse of the owner class), 'KwSetitem' (the
    registration function itself), 'KwOther'."""
    rows: list[tuple[str, str, str, bool, int]] = []
    exposed: list[str] = []
    n_reads = 0
    for rel, tree in trees.items():
        parents = parent_map(tree)
        ctor = {c: {f.name: f for f in _direct_funcs(n)} for n in tree.body if isinstance(n, ast.ClassDef) for c in [n.name]}
        for cls, fn in _functions(tree):
            where = f'{cls}.{fn.name}' if cls else fn.name
            site = 'KwCtor' if cls == owner and fn.name in ('__init__', 'copy', 'parse') else \
                   'KwSetitem' if cls == owner and fn.name == register_fn else 'KwOther'
            occs: list[ast.AST] = [n for n in ast.walk(fn) if isinstance(n, ast.Attribute) and n.attr == attr
                                   and (occ_filter is None or occ_filter(cls, n))]
            n_validated = 0
            aliases: set[str] = set()
            k = 0
            while k < len(occs):
                occ = occs[k]
                k += 1
                what, info = classify_use(occ, parents)
                if what == 'read':
                    n_reads += 1
                elif what == 'alias':
                    if info not in aliases:
                        aliases.add(info)
                        if sum(isinstance(n, ast.Name) and n.id == info and isinstance(n.ctx, ast.Store) for n in ast.walk(fn)) != 1:
                            raise TranslateError(f'{rel}:{occ.lineno}: alias `{info}` of the keyvalue dictionary is assigned more than once')
                        occs += [n for n in ast.walk(fn) if isinstance(n, ast.Name) and n.id == info and isinstance(n.ctx, ast.Load)]
                elif what == 'store':
                    if site == 'KwSetitem':
                        rows.append((where, 'store inside the registration function', site, True, occ.lineno))
                    elif cls == owner and validated_store_fns and fn.name in validated_store_fns:
                        n_validated += 1
                        rows.append((where, 'store validated by the shape recogniser of this function', site,
                                     n_validated <= validated_store_fns[fn.name], occ.lineno))
                    elif special_key is not None and isinstance(info, ast.Constant) and isinstance(info.value, str) and info.value.casefold() != special_key:
                        rows.append((where, f'store under the constant key {info.value!r}', site, True, occ.lineno))
                    else:
                        rows.append((where, f'store under `{ast.unparse(info)}` outside the registration function', site, False, occ.lineno))
                elif what == 'remove':
                    pass        # a removal without release only leaks the ID
                elif what == 'bulk':
                    rows.append((where, f'bulk write ({info})', site, False, occ.lineno))
                elif what == 'rebind':
                    verdict = rebind_ok(cls, fn, info) if rebind_ok is not None and not _is_empty_dict(info) else None
                    if verdict == 'exempt':
                        exposed.append(f'{where} (line {occ.lineno}): rebound from a trusted argument')
                    elif verdict is True:
                        rows.append((where, 'rebound to an index-preserving duplicate', site, True, occ.lineno))
                    else:
                        rows.append((where, 'rebound to ' + ('an empty dictionary' if _is_empty_dict(info) else
                                                             f'`{ast.unparse(info)[:60] if info is not None else "del"}`'),
                                     site, _is_empty_dict(info), occ.lineno))
                elif what == 'return':
                    if cls == owner and fn.name == 'keys':
                        exposed.append(f'{where} (line {occ.lineno})')
                    else:
                        rows.append((where, 'returned to the caller', site, False, occ.lineno))
                elif what == 'arg':
                    call, pos = info
                    callee = call.func.id if isinstance(call.func, ast.Name) else None
                    init = ctor.get(callee, {}).get('__init__') if callee else None
                    if init is None:
                        rows.append((where, f'passed to `{ast.unparse(call.func)}`', site, False, occ.lineno))
                        continue
                    params = [a.arg for a in init.args.posonlyargs + init.args.args][1:] + [a.arg for a in init.args.kwonlyargs]
                    pname = pos if isinstance(pos, str) else (params[pos] if pos < len(params) else None)
                    if pname not in params:
                        raise TranslateError(f'{rel}:{occ.lineno}: cannot match argument {pos!r} of {callee}(...)')
                    ok, why = _param_is_read_only(init, pname, parents)
                    rows.append((where, f'handed to {callee}.__init__({pname}=...)' + ('' if ok else f', which is not read-only there: {why}'),
                                 site, ok, occ.lineno))
    return rows, exposed, n_reads


def node_setitem_registers(vmf_tree: ast.Module, owner: str = 'Entity', register_fn: str = '__setitem__',
                           attr: str = '_keys', special_key: str = 'nodeid', manager: str = 'node_id') -> bool:
    """Does the registration function, in a branch guarded by a comparison with the constant 'nodeid', store the
    result of `<map>.node_id.get_id(...)` into the keyvalue dictionary?"""
    for n in vmf_tree.body:
        if isinstance(n, ast.ClassDef) and n.name == owner:
            for fn in _direct_funcs(n):
                if fn.name != register_fn:
                    continue
                for br in (x for x in ast.walk(fn) if isinstance(x, ast.If)):
                    if not any(isinstance(c, ast.Constant) and isinstance(c.value, str) and c.value.casefold() == special_key
                               for c in ast.walk(br.test)):
                        continue
                    for st in (y for b in br.body for y in ast.walk(b)):
                        if isinstance(st, ast.Assign) and any(
                                isinstance(t, ast.Subscript) and isinstance(t.value, ast.Attribute) and t.value.attr == attr
                                for t in st.targets):
                            if any(isinstance(c, ast.Call) and isinstance(c.func, ast.Attribute) and c.func.attr == 'get_id'
                                   and isinstance(c.func.value, ast.Attribute) and c.func.value.attr == manager
                                   for c in ast.walk(st.value)):
                                return True
                return False
    raise TranslateError(f'{owner}.{register_fn} not found')


# ------------------------------------------------------------------------------------------------ EntityFixup._fixup
FIXUP_CLASSES_PREFIX = ('EntityFixup', '_EntityFixup')


def fixup_occ(cls: str | None, node: ast.Attribute) -> bool:
    """Is this `_fixup` attribute the index table of an EntityFixup (as opposed to Entity._fixup, the optional
    EntityFixup object of an entity)?  Inside the EntityFixup classes, or `<x>._fixup._fixup` anywhere."""
    if isinstance(node.value, ast.Attribute) and node.value.attr == '_fixup':
        return True
    return cls is not None and cls.startswith(FIXUP_CLASSES_PREFIX)


def fixup_rebind_ok(cls: str | None, fn: ast.FunctionDef, value: ast.AST | None):
    """`<new>._fixup = {key: FixupValue(val.var, val.value, val.id) for key, val in self._fixup.items()}` keeps every
    index (True); a table built from the argument of __setstate__ is the pickled state ('exempt'); else False."""
    if not isinstance(value, ast.DictComp) or len(value.generators) != 1 or value.generators[0].ifs:
        return False
    g = value.generators[0]
    params = [a.arg for a in fn.args.posonlyargs + fn.args.args][1:]
    if fn.name == '__setstate__' and isinstance(g.iter, ast.Name) and g.iter.id in params:
        return 'exempt'
    if not (isinstance(g.target, ast.Tuple) and len(g.target.elts) == 2 and all(isinstance(e, ast.Name) for e in g.target.elts)):
        return False
    k, v = (e.id for e in g.target.elts)
    if ast.unparse(g.iter) != 'self._fixup.items()' or not (isinstance(value.key, ast.Name) and value.key.id == k):
        return False
    val = value.value
    if isinstance(val, ast.Name) and val.id == v:
        return True
    if isinstance(val, ast.Call) and isinstance(val.func, ast.Name) and val.func.id == 'FixupValue':
        idarg = val.args[2] if len(val.args) > 2 else next((kw.value for kw in val.keywords if kw.arg == 'id'), None)
        return idarg is not None and ast.unparse(idarg) == f'{v}.id'
    return False


def fixup_census(trees: dict[str, ast.Module]):
    """Every place that can put a value into the index table of an EntityFixup."""
    return keys_census(trees, attr='_fixup', owner='EntityFixup', register_fn='__setitem__', special_key=None,
                       occ_filter=fixup_occ, rebind_ok=fixup_rebind_ok, validated_store_fns={'__init__': 1})
