"""C02/C03 translator: ``Tokenizer._handle_string`` as a decision table -> Gen/HsRows_gen.v.

The loop of ``_handle_string`` reads one character per iteration (plus a second one after a backslash when escapes are
allowed), and what it does depends only on

* the class of that character: ``"`` / CR / LF / backslash / end of input (``None``) / any other character,
* the loop's boolean flag (``last_was_cr``) and ``self.allow_escapes``,
* if a second character is read, its class: end of input / LF / a key of ``ESCAPES`` / any other character.

For every such combination the loop body is *executed* here on abstract values (a small interpreter over the Python
``ast``: assignments to locals, ``self.line_num += 1``, ``<list>.append(x)``, ``if``/``elif``/``else`` in any nesting and
with ``and``/``or``/``not``, guard clauses with ``continue``, ``try``/``except KeyError`` around the table lookup or an ``in`` /
``.get`` test instead, ``return Token.STRING, ''.join(<list>)``, ``raise self.error('<known text>')``), which yields one row

    (class, flag, allow_escapes, class of the second character or 0)
        -> (second character read?, line_num increments, new flag, what is appended, how the iteration ends)

Names of locals are irrelevant; the order of independent statements is irrelevant; any statement, expression or comparison
outside this language (another loop-carried variable, indexing the list, a comparison with a character outside the class
partition, a third read ...) raises TranslateError (fail closed).  Whether the rows are the ones of the hand model
``Text/Tokenizer.v handle_string`` is NOT decided here: it is the instance obligation ``handle_string_rows_are_the_model``
(Text/HsTable.v ``hs_rows_ok``), under which ``HsTableProofs.hs_rows_interp_is_model`` identifies the table's interpretation
with the model for every input."""
from __future__ import annotations

import ast

from harness.common import TranslateError, src_text

K_DQ, K_CR, K_LF, K_BS, K_EOF, K_OTHER = range(6)
E_NOTREAD, E_EOF, E_LF, E_KNOWN, E_UNKNOWN = range(5)
CLASS_OF_LIT = {'"': K_DQ, '\r': K_CR, '\n': K_LF, '\\': K_BS}
A_LF, A_CHAR, A_TABLE, A_BS_ESC, A_ESC_RAW, A_NONE_VALUE = 1, 2, 3, 4, 5, 9
X_CONTINUE, X_RETURN, X_UNTERMINATED, X_NO_ESCAPE, X_FOREIGN = 0, 1, 2, 3, 8
MESSAGES = {'Unterminated string!': X_UNTERMINATED, 'No character to escape!': X_NO_ESCAPE}


class _Continue(Exception):
    pass


class _Return(Exception):
    pass


class _Raise(Exception):
    def __init__(self, site: int) -> None:
        self.site = site


class _KeyErr(Exception):
    pass


class _NeedSecond(Exception):
    pass


def _strip_doc(body: list[ast.stmt]) -> list[ast.stmt]:
    if body and isinstance(body[0], ast.Expr) and isinstance(body[0].value, ast.Constant) and isinstance(body[0].value.value, str):
        return body[1:]
    return body


class _Iter:
    """One iteration of the loop body on abstract values."""

    def __init__(self, k: int, flag: bool, ae: bool, e: int, flagname: str, listname: str, esc_keys: set[str]) -> None:
        self.k, self.ae, self.e = k, ae, e
        self.flagname, self.listname, self.esc_keys = flagname, listname, esc_keys
        self.env: dict[str, tuple] = {flagname: ('bool', flag)}
        self.reads = 0
        self.dline = 0
        self.apps: list[int] = []

    # ---- values
    def fail(self, node: ast.AST, why: str) -> TranslateError:
        return TranslateError(f'tokenizer.py:{getattr(node, "lineno", "?")}: _handle_string: {why}: `{ast.unparse(node)[:120]}`')

    def eq(self, a: tuple, b: tuple, node: ast.AST) -> bool:
        if a[0] in ('lit', 'none', 'bool') and b[0] not in ('lit', 'none', 'bool'):
            a, b = b, a
        if a[0] in ('lit', 'none', 'bool'):
            if b[0] not in ('lit', 'none', 'bool'):
                raise self.fail(node, 'comparison not modelled')
            return a == b
        if b[0] == 'bool':
            raise self.fail(node, 'comparison of a character with a bool')
        if b[0] not in ('lit', 'none'):
            raise self.fail(node, 'comparison of two read/decoded values is not modelled')
        if a[0] == 'ch':
            k = a[1]
            if b[0] == 'none':
                return k == K_EOF
            if k == K_EOF or len(b[1]) != 1:
                return False
            if b[1] in CLASS_OF_LIT:
                return CLASS_OF_LIT[b[1]] == k
            if k == K_OTHER:
                raise self.fail(node, f'the character read is compared with {b[1]!r}, which is outside the class partition of the model')
            return False
        if a[0] == 'es':
            e = a[1]
            if b[0] == 'none':
                return e == E_EOF
            if e == E_EOF or len(b[1]) != 1:
                return False
            if b[1] == '\n':
                return e == E_LF
            if e == E_LF:
                return False
            raise self.fail(node, f'the escape character is compared with {b[1]!r}, which is outside the class partition of the model')
        if a[0] in ('tbl', 'bsesc') and b[0] == 'none':
            return False
        raise self.fail(node, 'comparison of a decoded value is not modelled')

    def truth(self, v: tuple, node: ast.AST) -> bool:
        if v[0] == 'bool':
            return v[1]
        if v[0] == 'none':
            return False
        if v[0] == 'ch':
            return v[1] != K_EOF
        if v[0] == 'es':
            return v[1] != E_EOF
        if v[0] in ('tbl', 'bsesc'):
            return True
        if v[0] == 'lit':
            return bool(v[1])
        raise self.fail(node, 'truth value not modelled')

    def in_table(self, v: tuple, node: ast.AST) -> bool:
        """`v in ESCAPES` / whether ESCAPES[v] exists."""
        if v[0] != 'es':
            raise self.fail(node, 'ESCAPES is indexed by something other than the character read after the backslash')
        if v[1] == E_KNOWN:
            return True
        if v[1] == E_LF:
            if '\n' in self.esc_keys:
                raise self.fail(node, 'a line feed is a key of ESCAPES and reaches the table lookup: not modelled')
            return False
        return False          # None and unknown characters are not keys

    def ev(self, n: ast.expr) -> tuple:
        if isinstance(n, ast.Constant):
            if isinstance(n.value, bool):
                return ('bool', n.value)
            if n.value is None:
                return ('none',)
            if isinstance(n.value, str):
                return ('lit', n.value)
            raise self.fail(n, 'constant not modelled')
        if isinstance(n, ast.Name):
            if n.id == self.listname:
                raise self.fail(n, 'the list of collected characters is used other than by append / join')
            if n.id not in self.env:
                raise self.fail(n, f'local `{n.id}` is read before it is assigned in this iteration (a loop-carried value other than the flag)')
            return self.env[n.id]
        if isinstance(n, ast.Attribute) and isinstance(n.value, ast.Name) and n.value.id == 'self':
            if n.attr == 'allow_escapes':
                return ('bool', self.ae)
            raise self.fail(n, 'attribute not modelled')
        if isinstance(n, ast.Call):
            f = n.func
            if isinstance(f, ast.Attribute) and isinstance(f.value, ast.Name) and f.value.id == 'self' and f.attr == '_next_char' \
                    and not n.args and not n.keywords:
                self.reads += 1
                if self.reads == 1:
                    return ('ch', self.k)
                if self.reads == 2:
                    if self.e == E_NOTREAD:
                        raise _NeedSecond()
                    return ('es', self.e)
                raise self.fail(n, 'a third character is read in one iteration')
            if isinstance(f, ast.Attribute) and isinstance(f.value, ast.Name) and f.value.id == 'ESCAPES' and f.attr == 'get' \
                    and len(n.args) == 1 and not n.keywords:
                return ('tbl',) if self.in_table(self.ev(n.args[0]), n) else ('none',)
            raise self.fail(n, 'call not modelled')
        if isinstance(n, ast.Subscript) and isinstance(n.value, ast.Name) and n.value.id == 'ESCAPES':
            if self.in_table(self.ev(n.slice), n):
                return ('tbl',)
            raise _KeyErr()
        if isinstance(n, ast.Compare) and len(n.ops) == 1:
            op = n.ops[0]
            if isinstance(op, (ast.In, ast.NotIn)):
                a = self.ev(n.left)
                c = n.comparators[0]
                if isinstance(c, ast.Name) and c.id == 'ESCAPES':
                    r = self.in_table(a, n)
                else:
                    if isinstance(c, ast.Constant) and isinstance(c.value, str):
                        if a in (('ch', K_EOF), ('es', E_EOF)) or a[0] == 'none':
                            raise self.fail(n, '`None in <str>` raises TypeError')
                        items = [('lit', x) for x in c.value]
                    elif isinstance(c, (ast.Tuple, ast.List, ast.Set)):
                        items = [self.ev(x) for x in c.elts]
                    else:
                        raise self.fail(n, 'membership test not modelled')
                    r = any(self.eq(a, it, n) for it in items)
                return ('bool', r if isinstance(op, ast.In) else not r)
            a, b = self.ev(n.left), self.ev(n.comparators[0])
            if isinstance(op, (ast.Eq, ast.NotEq)):
                r = self.eq(a, b, n)
                return ('bool', r if isinstance(op, ast.Eq) else not r)
            if isinstance(op, (ast.Is, ast.IsNot)):
                if a[0] != 'none' and b[0] != 'none' and not (a[0] == 'bool' or b[0] == 'bool'):
                    raise self.fail(n, '`is` with something other than None / a bool')
                r = self.eq(a, b, n)
                return ('bool', r if isinstance(op, ast.Is) else not r)
            raise self.fail(n, 'comparison operator not modelled')
        if isinstance(n, ast.BoolOp):
            if isinstance(n.op, ast.And):
                for v in n.values:
                    if not self.truth(self.ev(v), v):
                        return ('bool', False)
                return ('bool', True)
            for v in n.values:
                if self.truth(self.ev(v), v):
                    return ('bool', True)
            return ('bool', False)
        if isinstance(n, ast.UnaryOp) and isinstance(n.op, ast.Not):
            return ('bool', not self.truth(self.ev(n.operand), n.operand))
        if isinstance(n, ast.IfExp):
            return self.ev(n.body if self.truth(self.ev(n.test), n.test) else n.orelse)
        if isinstance(n, ast.BinOp) and isinstance(n.op, ast.Add):
            a, b = self.ev(n.left), self.ev(n.right)
            if a == ('lit', '\\') and b[0] == 'es' and b[1] != E_EOF:
                return ('bsesc',)
            raise self.fail(n, 'concatenation not modelled')
        if isinstance(n, ast.JoinedStr) and len(n.values) == 2 and isinstance(n.values[0], ast.Constant) and n.values[0].value == '\\' \
                and isinstance(n.values[1], ast.FormattedValue) and n.values[1].conversion == -1 and n.values[1].format_spec is None:
            b = self.ev(n.values[1].value)
            if b[0] == 'es' and b[1] != E_EOF:
                return ('bsesc',)
            raise self.fail(n, 'formatted string not modelled')
        raise self.fail(n, 'expression not modelled')

    # ---- statements
    def run(self, stmts: list[ast.stmt]) -> None:
        for st in stmts:
            self.stmt(st)

    def stmt(self, st: ast.stmt) -> None:
        if isinstance(st, (ast.Assign, ast.AnnAssign)):
            tg = st.targets[0] if isinstance(st, ast.Assign) and len(st.targets) == 1 else getattr(st, 'target', None)
            if not isinstance(tg, ast.Name) or st.value is None or tg.id == self.listname:
                raise self.fail(st, 'assignment not modelled')
            v = self.ev(st.value)
            if tg.id == self.flagname and v[0] != 'bool':
                raise self.fail(st, 'the loop flag is assigned a non-boolean value')
            self.env[tg.id] = v
        elif isinstance(st, ast.AugAssign):
            if ast.unparse(st.target) == 'self.line_num' and isinstance(st.op, ast.Add) and isinstance(st.value, ast.Constant) \
                    and type(st.value.value) is int and 0 <= st.value.value <= 3:
                self.dline += st.value.value
            else:
                raise self.fail(st, 'augmented assignment not modelled')
        elif isinstance(st, ast.Expr):
            c = st.value
            if isinstance(c, ast.Constant):
                return
            if isinstance(c, ast.Call) and isinstance(c.func, ast.Attribute) and c.func.attr == 'append' and isinstance(c.func.value, ast.Name) \
                    and c.func.value.id == self.listname and len(c.args) == 1 and not c.keywords:
                v = self.ev(c.args[0])
                if v == ('lit', '\n'):
                    self.apps.append(A_LF)
                elif v[0] == 'ch':
                    self.apps.append(A_CHAR if v[1] != K_EOF else A_NONE_VALUE)
                elif v[0] == 'tbl':
                    self.apps.append(A_TABLE)
                elif v[0] == 'bsesc':
                    self.apps.append(A_BS_ESC)
                elif v[0] == 'es':
                    self.apps.append(A_ESC_RAW if v[1] != E_EOF else A_NONE_VALUE)
                elif v[0] == 'none':
                    self.apps.append(A_NONE_VALUE)
                else:
                    raise self.fail(st, 'appended value not modelled')
                return
            raise self.fail(st, 'expression statement not modelled')
        elif isinstance(st, ast.If):
            self.run(st.body if self.truth(self.ev(st.test), st.test) else st.orelse)
        elif isinstance(st, ast.Continue):
            raise _Continue()
        elif isinstance(st, ast.Pass):
            return
        elif isinstance(st, ast.Return):
            v = st.value
            want = f"(Token.STRING, ''.join({self.listname}))"
            if v is None or ast.unparse(v) != want:
                raise self.fail(st, f'return value is not `{want}`')
            raise _Return()
        elif isinstance(st, ast.Raise):
            if st.cause is not None and not (isinstance(st.cause, ast.Constant) and st.cause.value is None):
                raise self.fail(st, 'raise ... from <something>')
            c = st.exc
            if isinstance(c, ast.Call) and ast.unparse(c.func) == 'self.error' and len(c.args) == 1 and not c.keywords \
                    and isinstance(c.args[0], ast.Constant) and c.args[0].value in MESSAGES:
                raise _Raise(MESSAGES[c.args[0].value])
            raise self.fail(st, 'raise of something other than self.error(<one of the two known messages>)')
        elif isinstance(st, ast.Try):
            if st.finalbody:
                raise self.fail(st, 'try/finally not modelled')
            try:
                self.run(st.body)
            except _KeyErr:
                for h in st.handlers:
                    names = [h.type] if not isinstance(h.type, ast.Tuple) else list(h.type.elts)
                    if h.type is None or any(isinstance(x, ast.Name) and x.id in ('KeyError', 'LookupError', 'Exception', 'BaseException') for x in names):
                        if h.name:
                            raise self.fail(st, 'exception bound to a name')
                        self.run(h.body)
                        return
                raise
            else:
                self.run(st.orelse)
        else:
            raise self.fail(st, 'statement not modelled')


def _find_method(tree: ast.Module, cls: str, name: str) -> ast.FunctionDef:
    for n in tree.body:
        if isinstance(n, ast.ClassDef) and n.name == cls:
            for f in n.body:
                if isinstance(f, ast.FunctionDef) and f.name == name:
                    return f
    raise TranslateError(f'{cls}.{name} not found')


def _esc_keys(tree: ast.Module) -> set[str]:
    for n in tree.body:
        v = n.value if isinstance(n, (ast.Assign, ast.AnnAssign)) else None
        tg = n.targets[0] if isinstance(n, ast.Assign) and len(n.targets) == 1 else getattr(n, 'target', None)
        if isinstance(tg, ast.Name) and tg.id == 'ESCAPES' and isinstance(v, ast.Dict):
            return {k.value for k in v.keys if isinstance(k, ast.Constant) and isinstance(k.value, str)}
    raise TranslateError('ESCAPES dict literal not found')


def rows_of_source(text: str) -> tuple[list[tuple], dict]:
    tree = ast.parse(text)
    f = _find_method(tree, 'Tokenizer', '_handle_string')
    if [a.arg for a in f.args.args] != ['self'] or f.args.vararg or f.args.kwarg or f.args.kwonlyargs or f.args.posonlyargs:
        raise TranslateError('_handle_string: unrecognised signature')
    body = _strip_doc(list(f.body))
    listname = None
    flags: dict[str, bool] = {}
    loop = None
    for i, st in enumerate(body):
        if isinstance(st, ast.While):
            if not (isinstance(st.test, ast.Constant) and st.test.value is True) or st.orelse or i != len(body) - 1:
                raise TranslateError(f'tokenizer.py:{st.lineno}: _handle_string: the loop is not a final `while True:`')
            loop = st
            break
        tg = st.targets[0] if isinstance(st, ast.Assign) and len(st.targets) == 1 else getattr(st, 'target', None) if isinstance(st, ast.AnnAssign) else None
        v = getattr(st, 'value', None)
        if isinstance(tg, ast.Name) and isinstance(v, ast.List) and not v.elts and listname is None:
            listname = tg.id
        elif isinstance(tg, ast.Name) and isinstance(v, ast.Constant) and isinstance(v.value, bool) and tg.id not in flags:
            flags[tg.id] = v.value
        else:
            raise TranslateError(f'tokenizer.py:{st.lineno}: _handle_string: statement before the loop is not `<list> = []` or `<flag> = <bool>` '
                                 f'(loop-carried state other than the character list and one boolean flag is not modelled): `{ast.unparse(st)[:100]}`')
    if loop is None or listname is None:
        raise TranslateError('_handle_string: no `while True:` loop / no character list')
    if len(flags) != 1:
        raise TranslateError(f'_handle_string: expected exactly one boolean flag carried by the loop, found {sorted(flags)}')
    (flagname, flag0), = flags.items()
    esc_keys = _esc_keys(tree)
    for x in ast.walk(loop):
        if isinstance(x, (ast.While, ast.For)) and x is not loop:
            raise TranslateError(f'tokenizer.py:{x.lineno}: _handle_string: nested loop')
        if isinstance(x, ast.Break):
            raise TranslateError(f'tokenizer.py:{x.lineno}: _handle_string: break')

    def one(k: int, fl: bool, ae: bool, e: int) -> tuple:
        it = _Iter(k, fl, ae, e, flagname, listname, esc_keys)
        try:
            it.run(loop.body)
            ex = X_CONTINUE
        except _Continue:
            ex = X_CONTINUE
        except _Return:
            ex = X_RETURN
        except _Raise as r:
            ex = r.site
        except _KeyErr:
            ex = X_FOREIGN
        if it.reads == 0:
            raise TranslateError('_handle_string: an iteration reads no character')
        newflag = it.env[flagname][1] if ex == X_CONTINUE else False
        return (it.reads == 2, it.dline, newflag, it.apps, ex)

    rows: list[tuple] = []
    for k in range(6):
        for fl in (False, True):
            for ae in (False, True):
                try:
                    rows.append(((k, fl, ae, E_NOTREAD), one(k, fl, ae, E_NOTREAD)))
                except _NeedSecond:
                    rows.append(((k, fl, ae, E_NOTREAD), (True, 0, False, [], X_CONTINUE)))
                    for e in (E_EOF, E_LF, E_KNOWN, E_UNKNOWN):
                        rows.append(((k, fl, ae, e), one(k, fl, ae, e)))
    return rows, {'flag': flagname, 'flag_initial': flag0, 'list': listname}


def _b(x: bool) -> str:
    return 'true' if x else 'false'


def translate() -> tuple[str, dict]:
    rows, info = rows_of_source(src_text('tokenizer.py'))
    lines = [
        '(* GENERATED by translate/c02_hstring.py from /repo/src/srctools/tokenizer.py (Tokenizer._handle_string). Do not edit. *)',
        'From Coq Require Import NArith List.', 'Import ListNotations.', 'Open Scope N_scope.',
        '(* one row per combination the loop body can distinguish:',
        '   ((class of the character read: 0 DQ, 1 CR, 2 LF, 3 backslash, 4 end of input, 5 other;  loop flag last_was_cr;  allow_escapes;',
        '     class of the second character: 0 none read yet, 1 end of input, 2 LF, 3 key of ESCAPES, 4 other),',
        '    (reads a second character;  line_num increments;  new flag;  appended: 1 LF, 2 the character, 3 ESCAPES[second], 4 backslash+second;',
        '     end: 0 next iteration, 1 return STRING, 2 Unterminated string!, 3 No character to escape!)) *)',
        'Definition hs_rows : list ((N * bool * bool * N) * (bool * N * bool * list N * N)) := [',
        ';\n'.join(f' (({k}, {_b(fl)}, {_b(ae)}, {e}), ({_b(r)}, {dl}, {_b(nf)}, [{"; ".join(map(str, apps))}], {ex}))'
                    for (k, fl, ae, e), (r, dl, nf, apps, ex) in rows),
        '].',
        f'Definition hs_flag_initial : bool := {_b(info["flag_initial"])}.',
        '',
    ]
    side = dict(info, rows=len(rows),
                table=[{'char': ['DQ', 'CR', 'LF', 'BS', 'EOF', 'other'][k], 'flag': fl, 'allow_escapes': ae,
                        'second': ['-', 'EOF', 'LF', 'key', 'other'][e], 'reads_second': r, 'dline': dl, 'new_flag': nf, 'appends': apps,
                        'end': {0: 'continue', 1: 'return', 2: 'unterminated', 3: 'no-escape', 8: 'foreign'}.get(ex, ex)}
                       for (k, fl, ae, e), (r, dl, nf, apps, ex) in rows])
    return '\n'.join(lines), side


# Written instead of the table when the translator fails closed, so that the rest of the development still builds and the
# other ties (correspondences of the hand model) are still evaluated; the row obligation is then false by construction.
EMPTY_GEN = ('(* GENERATED by translate/c02_hstring.py: the translator FAILED CLOSED on Tokenizer._handle_string; empty table. *)\n'
             'From Coq Require Import NArith List.\nImport ListNotations.\nOpen Scope N_scope.\n'
             'Definition hs_rows : list ((N * bool * bool * N) * (bool * N * bool * list N * N)) := [].\n'
             'Definition hs_flag_initial : bool := false.\n')

GEN = {'HsRows_gen': translate}
